import ChythonModel.Proofs.C03Front
import ChythonModel.Proofs.C03Spec
import ChythonModel.Proofs.C03Reject
import ChythonModel.Proofs.C03TokParen
import ChythonModel.Proofs.C03SpecRing
import ChythonModel.Proofs.C03Mapping
import ChythonModel.Proofs.C03Lexer
import ChythonModel.Proofs.C03Strings
import ChythonModel.Proofs.C03RingIff
import ChythonModel.Proofs.C03PrintShape
import ChythonModel.Proofs.C03Hydrogens
import ChythonModel.Proofs.C03HydTotal
import ChythonModel.Proofs.C03SmilesIff
import ChythonModel.Proofs.C03Bracket
import ChythonModel.Proofs.C03HydSmiles
import ChythonModel.Proofs.C03StringsB
import ChythonModel.Proofs.C03Lenient
import ChythonModel.Proofs.C03LenientIff
import ChythonModel.Proofs.C03Words
import ChythonModel.Proofs.C03HydEnd
/-!
# C03 — SMILES reader builds exactly the molecule the text denotes, rejects the rest

The theorems are about the functions the driver `Drivers/C03.lean` runs: `tokenizeRaw` (`_tokenize`), `smilesTokenize`
(`smiles_tokenize`), `parse` (`parser`), `smiles` (`smiles()` with default arguments), over tables regenerated from
/repo (`Gen/C03Tables.lean`).  Python operations that can raise something other than the library's ValueError
family (`list.pop()` on an empty list, `list[i]`, `dict[k]`, `''.join(None)` …) are `Err.crash` in the model, so
"rejects with the library's error and never with an unrelated exception" is the statement that no input reaches
an `Err.crash`.
-/
namespace ChythonModel.Props.C03
open ChythonModel.Model.C03 ChythonModel.Gen.C03 ChythonModel.Proofs.C03 ChythonModel.Spec.Smiles

/-! ## clause "never … an unrelated exception" -/

/-- Full statement: for every input string, `smiles()` either builds something or raises an error of the library's
    ValueError family. (Before the `fix:` commits listed in known_findings/C03.json this was false: `(`, `;`, `;@`,
    `C-;@C`, `C!~C`, `C |^1:5|`, `C>>C |^1:7|` were counterexamples.) -/
def NoCrash : Prop := ∀ (s : Str) (k : String), smiles s ≠ .error (.crash k)

theorem no_crash : NoCrash := fun s k => smiles_nocrash s k

/-- hypotheses-are-satisfiable examples: an accepted string and a rejected one -/
example : ∃ r, smiles [67, 49, 67, 67, 49] = .ok r := ⟨_, rfl⟩                       -- C1CC1
example : smiles [40] = .error (.lib "IncorrectSmiles" "not atom started") := rfl     -- (

/-- `_tokenize` (shared with the SMARTS reader): every string, the empty one included, yields a token list whose
    (type, value) pairs have one of the twelve shapes the rest of the reader understands, or a library error -/
theorem tokenizer_total (s : Str) :
    (∃ l, tokenizeRaw s = .ok l ∧ ∀ t ∈ l, shaped t = true) ∨ (∃ c m, tokenizeRaw s = .error (.lib c m)) := by
  have h := tokenizeRaw_good s
  cases hk : tokenizeRaw s with
  | ok l => rw [hk] at h; exact Or.inl ⟨l, rfl, h⟩
  | error e =>
    rw [hk] at h
    cases e with
    | lib c m => exact Or.inr ⟨c, m, rfl⟩
    | crash k => cases h

/-- a non-empty string is never tokenized to the empty list (which `parser` would answer with IndexError) -/
theorem tokenizer_nonempty (s : Str) (l : List RTok) (hs : s ≠ []) (h : tokenizeRaw s = .ok l) : l ≠ [] :=
  tokenizeRaw_nonempty s l hs h

/-- `smiles_tokenize` passes only atoms, bonds, parentheses, dots, closure numbers and direction marks on to the
    parser; query tokens (bond lists, ring-bond marks) are rejected as SMARTS -/
theorem smiles_tokenize_total (s : Str) (hs : s ≠ []) :
    (∃ l, smilesTokenize s = .ok l ∧ l ≠ [] ∧ ∀ x ∈ l, noOther x = true) ∨
    (∃ c m, smilesTokenize s = .error (.lib c m)) := by
  rcases smilesTokenize_good s hs with h | ⟨e, he, hc⟩
  · exact Or.inl h
  · cases e with
    | lib c m => exact Or.inr ⟨c, m, he⟩
    | crash k => cases hc

/-- the bracket-atom parser can only fail with IncorrectSmiles -/
theorem atom_parse_total (s : Str) (k : String) : atomParse s ≠ .error (.crash k) := atomParse_nocrash s k

/-- The tokenizer inverts rendering on the organic-subset token language: for every list of tokens — organic /
    aromatic one-letter atoms, `C`, `B`, `Cl`, `Br`, bond symbols, direction marks, dots, parentheses, one-digit and
    `%nn` ring numbers — in which no `(` is directly followed by `(`, `)` or a ring number, `smiles_tokenize` of the
    concatenated spelling returns exactly that token list (so `Cl` is never read as `C` + `l`, a pending `C`/`B` is
    flushed before whatever follows, `%12` is ring 12 and `12` is rings 1 and 2). Together with `accept_sound_rings`
    this carries the parser theorems to the level of strings for the organic subset. -/
theorem lexer_roundtrip (ts : List LTok) (h : LexOK false ts) :
    smilesTokenize (ts.flatMap LTok.render) = .ok (ts.map LTok.tok) := smilesTokenize_render ts h

/-- non-trivial instance: `ClC(=O)c1ccccc%12.BrB` -/
example : LexOK false [.cCl, .cC, .lpar, .bond 61, .org 79, .rpar, .aro 99, .ring1 49, .aro 99, .ring2 49 50, .dot, .cBr, .cB] := by
  simp [LexOK, LTok.wf, LTok.afterOpenOK, bondChars, organicChars, aromaticChars, digitChars]

/-! ## `parser`: well-formedness of what it returns -/

/-- for every token list `smiles_tokenize` can produce: if `parser` accepts, at least one atom was read, every bond
    joins two existing atoms, the branch stack and the ring-closure table are empty and no bond is pending -/
theorem parser_wf (strong : Bool) (toks : List Tok) (st : PState) (hne : toks ≠ [])
    (hn : ∀ t ∈ toks, noOther t = true) (h : parse strong toks = .ok st) :
    0 < st.atoms.length ∧ st.types.length = st.atoms.length ∧ st.atomNum = st.atoms.length ∧
    (∀ b ∈ st.bonds, b.1 < st.atoms.length ∧ b.2.1 < st.atoms.length) ∧
    st.stack = [] ∧ st.cycles = [] ∧ st.previous = none := by
  have := parse_good strong toks hne hn
  rw [h] at this
  obtain ⟨inv, h1, h2, h3⟩ := this
  exact ⟨inv.pos, inv.types, inv.num, inv.bonds, h1, h2, h3⟩

example : ∃ st, parse false [.atom 0 { element := [67] }, .cyc 1, .atom 0 { element := [67] }, .cyc 1] = .ok st :=
  ⟨_, rfl⟩

/-- `parser` itself cannot raise anything but IncorrectSmiles on such token lists (either `strong_cycle` mode) -/
theorem parser_no_crash (strong : Bool) (toks : List Tok) (hne : toks ≠ []) (hn : ∀ t ∈ toks, noOther t = true)
    (k : String) : parse strong toks ≠ .error (.crash k) := by
  have := parse_good strong toks hne hn
  intro h
  rw [h] at this
  cases this

/-! ## clause "the molecule built is the one the language defines": core grammar vs the denotational spec -/

/-- For EVERY syntax tree of the core grammar of `Spec/SmilesGrammar.lean` (atoms of any kind, written bonds, direction
    marks, dots, arbitrarily nested branches) `parser` accepts the printed token sequence and returns exactly the
    denoted graph: the atoms in writing order (chirality mark moved to `stereo_atoms`), their aromatic/aliphatic
    types, and the bonds of the denotation, in order. Either `strong_cycle` mode. -/
theorem accept_sound_core (strong : Bool) (c : Chain A) :
    ∃ st, parse strong (toToks (print c)) = .ok st ∧
      st.atoms = (denote (·.1) c).atoms.map strip ∧ st.types = (denote (·.1) c).atoms.map tyOf ∧
      st.bonds = (denote (·.1) c).bonds := parse_print strong c

/-- a non-trivial instance: `c(=O)(.C)/N` — aromatic start, double-bonded branch, dotted branch, direction mark -/
example : (denote (·.1) (⟨(true, { element := [67] }),
      .side (.explicit 2) (false, { element := [79] }) .done
        (.side .dot (false, { element := [67] }) .done
          (.next (.dir true) (false, { element := [78] }) .done))⟩ : Chain A)).bonds = [(1, 0, 2), (3, 0, 1)] := rfl

/-- The same with **ring closures**: every atom of the tree carries the ring bonds written after it
    (`bond? digit | bond? %nn`; payload `B = atom × ring bonds`). Whenever the spec assigns the tree a graph
    (`denoteR = some g`: the symbols written on the two ends of each ring bond agree, no ring bond from an atom to
    itself, no ring left open), `parser` (default `strong_cycle = False`) accepts the printed tokens and returns exactly
    `g`: atoms, types, and all bonds — chain and ring bonds — in writing order of their later end, ring-bond orders
    resolved as the spec says (written order on either end, aromatic between two aromatic atoms when nothing or only a
    direction mark is written). -/
theorem accept_sound_rings (c : Chain B) (g : Graph B) (hd : denoteR aromB (·.2) c = some g) :
    ∃ st, parse false (toToksB (printR (·.2) c)) = .ok st ∧
      st.atoms = g.atoms.map (fun b => strip b.1) ∧ st.types = g.atoms.map (fun b => tyOf b.1) ∧
      st.bonds = g.bonds := parse_printR c g hd

/-- non-trivial instances of the hypothesis: `c1cc(=O)ccc1` (aromatic ring with a branch), `C=1CC1` (ring-bond symbol
    on one end only), and a contradiction the spec refuses (`C=1CC-1`) -/
example : (denoteR aromB (·.2)
    (⟨((true, { element := [67] }), [⟨.none, 1⟩]),
      .next .implicit ((true, { element := [67] }), []) (.next .implicit ((true, { element := [67] }), [])
        (.side (.explicit 2) ((false, { element := [79] }), []) .done
          (.next .implicit ((true, { element := [67] }), []) (.next .implicit ((true, { element := [67] }), [])
            (.next .implicit ((true, { element := [67] }), [⟨.none, 1⟩]) .done)))))⟩ : Chain B)).map (·.bonds) =
    some [(1, 0, 4), (2, 1, 4), (3, 2, 2), (4, 2, 4), (5, 4, 4), (6, 5, 4), (6, 0, 4)] := rfl
example : (denoteR aromB (·.2)
    (⟨((false, { element := [67] }), [⟨.order 2, 1⟩]),
      .next .implicit ((false, { element := [67] }), [])
        (.next .implicit ((false, { element := [67] }), [⟨.none, 1⟩]) .done)⟩ : Chain B)).map (·.bonds) =
    some [(1, 0, 1), (2, 1, 1), (2, 0, 2)] := rfl
example : (denoteR aromB (·.2)
    (⟨((false, { element := [67] }), [⟨.order 2, 1⟩]),
      .next .implicit ((false, { element := [67] }), [])
        (.next .implicit ((false, { element := [67] }), [⟨.order 1, 1⟩]) .done)⟩ : Chain B)).isNone = true := rfl

/-- **From the characters to the graph** (organic subset, ring closures included): take any syntax tree whose atoms are
    spelled `B C N O P S F I Cl Br b c n o p s`, whose links are nothing / a bond symbol / a direction mark / a dot,
    whose ring bonds are an optional bond symbol plus a number 1…99 (`d`, `%dd`), with arbitrary branching. If the spec
    assigns it a graph `g`, then `smiles_tokenize` of the *text* succeeds and `parser` applied to the result returns
    exactly `g` (atoms in writing order, aromatic/aliphatic types, chain and ring bonds with their orders). This is
    the composition of `lexer_roundtrip` and `accept_sound_rings`; it is a statement about strings. -/
theorem reader_sound_strings (c : SChain) (h : c.wf) (g : Graph B) (hd : denoteR aromB (·.2) c.toChain = some g) :
    ∃ toks st, smilesTokenize c.text = .ok toks ∧ parse false toks = .ok st ∧
      st.atoms = g.atoms.map (fun b => strip b.1) ∧ st.types = g.atoms.map (fun b => tyOf b.1) ∧
      st.bonds = g.bonds := text_to_graph c h g hd

/-- non-trivial instance, benzoyl chloride `ClC(=O)c1ccccc1`: the text, well-formedness and the denoted bonds -/
def benzoylChloride : SChain :=
  ⟨.cCl, [], .next .implicit .cC []
    (.side (.bond 61) (.org 79) [] .done
      (.next .implicit (.aro 99) [⟨.none, 1⟩] (.next .implicit (.aro 99) [] (.next .implicit (.aro 99) []
        (.next .implicit (.aro 99) [] (.next .implicit (.aro 99) [] (.next .implicit (.aro 99) [⟨.none, 1⟩] .done)))))))⟩

example : benzoylChloride.text = [67, 108, 67, 40, 61, 79, 41, 99, 49, 99, 99, 99, 99, 99, 49] := rfl
example : (denoteR aromB (·.2) benzoylChloride.toChain).map (·.bonds) =
    some [(1, 0, 1), (2, 1, 2), (3, 1, 1), (4, 3, 4), (5, 4, 4), (6, 5, 4), (7, 6, 4), (8, 7, 4), (8, 3, 4)] := rfl
example : benzoylChloride.wf := by
  simp [SChain.wf, KS.wf, SAtom.wf, SLink.wf, SRing.wf, benzoylChloride, bondChars, organicChars, aromaticChars]

/-- Full statement of the accept/reject clause on the token level (no ring-closure tokens): the parser accepts a
    token sequence **iff** it is the printing of a syntax tree (and then builds its denotation). False as it stands:
    the reader accepts a leading branch `(C)C` on purpose, and `parser` itself relies on the tokenizer to refuse `((`
    and `()` — witnesses in `Findings/C03.lean`. -/
def AcceptIffInGrammar : Prop :=
  ∀ (strong : Bool) (toks : List Tok), (∀ t ∈ toks, coreTok t = true) →
    ((∃ st, parse strong toks = .ok st) ↔ ∃ c : Chain A, toks = toToks (print c))

/-- The proved part: exactly the two excluded classes are taken out — the sequence starts with an atom (not with the
    leading branch the reader tolerates) and contains no `((` / `()` (which `_tokenize` never emits: it raises
    IncorrectSmiles for both). Then acceptance by `parser` is equivalent to being in the grammar, and by
    `accept_sound_core` the graph built is the denoted one. So on this sub-language nothing outside the grammar yields
    a molecule. -/
theorem accept_iff_in_grammar_partial (strong : Bool) (ty : Nat) (a : AtomTok) (rest : List Tok)
    (hcore : ∀ t ∈ Tok.atom ty a :: rest, coreTok t = true) (hneo : noEmptyOpen (Tok.atom ty a :: rest) = true) :
    (∃ st, parse strong (Tok.atom ty a :: rest) = .ok st) ↔ ∃ c : Chain A, Tok.atom ty a :: rest = toToks (print c) := by
  constructor
  · rintro ⟨st, h⟩
    exact parse_unprint strong ty a rest st hcore hneo h
  · rintro ⟨c, hc⟩
    obtain ⟨st, h, _⟩ := parse_print strong c
    exact ⟨st, by rw [hc]; exact h⟩

/-- The same on the string level, with the `((` / `()` hypothesis discharged by the tokenizer: for every string whose
    token list starts with an atom and uses no ring-closure digit, `parser ∘ smiles_tokenize` accepts **iff** the token
    list is the printing of a syntax tree of the grammar. (`_tokenize` never emits `(` directly followed by a
    parenthesis, bracket atoms parse to type 0/8 only, query tokens never get through.) -/
theorem accept_iff_in_grammar_strings (strong : Bool) (s : Str) (ty : Nat) (a : AtomTok) (rest : List Tok)
    (htok : smilesTokenize s = .ok (Tok.atom ty a :: rest))
    (hnc : ∀ t ∈ Tok.atom ty a :: rest, ∀ n, t ≠ Tok.cyc n) :
    (∃ st, parse strong (Tok.atom ty a :: rest) = .ok st) ↔ ∃ c : Chain A, Tok.atom ty a :: rest = toToks (print c) := by
  unfold smilesTokenize at htok
  cases hraw : tokenizeRaw s with
  | error e => rw [hraw] at htok; cases htok
  | ok raw =>
    rw [hraw] at htok
    dsimp only at htok
    have hshaped := tokenizeRaw_good s
    rw [hraw] at hshaped
    have hno : ∀ x ∈ Tok.atom ty a :: rest, noOther x = true := by
      rcases convToks_good raw hshaped with ⟨l, hl, _, hall⟩ | ⟨e, he, _⟩
      · rw [hl] at htok; cases htok; exact hall
      · rw [he] at htok; cases htok
    have hneo := convToks_neo raw _ htok (tokenizeRaw_fwdNEO s raw hraw)
    have hcore : ∀ t ∈ Tok.atom ty a :: rest, coreTok t = true :=
      fun t ht => convToks_core raw _ htok t ht (hno t ht) (hnc t ht)
    exact accept_iff_in_grammar_partial strong ty a rest hcore hneo

/-- non-trivial instance of the hypotheses: `C(=O)N` -/
example : smilesTokenize [67, 40, 61, 79, 41, 78] = .ok [.atom 0 { element := [67] }, .lpar, .bond 2,
    .atom 0 { element := [79] }, .rpar, .atom 0 { element := [78] }] := rfl

/-- the hypotheses are satisfiable by a non-trivial accepted instance (`C(=O)N`) and by a rejected one (`C(=)N`) -/
example : (∃ st, parse false [.atom 0 { element := [67] }, .lpar, .bond 2, .atom 0 { element := [79] }, .rpar,
    .atom 0 { element := [78] }] = .ok st) := ⟨_, rfl⟩
example : noEmptyOpen [.atom 0 { element := [67] }, .lpar, .bond 2, .rpar, .atom 0 { element := [78] }] = true ∧
    parse false [.atom 0 { element := [67] }, .lpar, .bond 2, .rpar, .atom 0 { element := [78] }] =
      .error (.lib "IncorrectSmiles" "bond before closure") := ⟨rfl, rfl⟩

/-! ## accept / reject with ring closures: acceptance ⇔ grammar + closure discipline, and then graph = denotation -/

/-- the reader accepts a token list: `parser` (default `strong_cycle = False`) returns a record and the bond loop of
    `create_molecule` (`buildBonds`: "atom loops impossible", "atoms already bonded", bond order check), run under the
    numbering `_mapping.py` assigns (`mapMolecule`), accepts its bonds -/
def Accepts (toks : List Tok) : Prop := ∃ st, parse false toks = .ok st ∧ bondsBuild st

/-- the token list is a sentence of the language: it is the printing of a syntax tree whose atoms carry their ring bonds
    (`atom ringbond* branch*`), the spec assigns the tree a graph (`denoteR`: every ring number that is opened is closed
    exactly once before it is used again, never at the atom that opened it, bond symbols on the two ends agree, nothing
    stays open), and that graph is simple (no two bonds between the same pair of atoms) with ordinary bond orders -/
def InLanguage (toks : List Tok) : Prop :=
  ∃ (c : Chain B) (g : Graph B), toks = toToksB (printR (·.2) c) ∧ denoteR aromB (·.2) c = some g ∧
    simpleBonds g.bonds = true ∧ ∀ b ∈ g.bonds, validOrder b.2.2 = true

def startsAtom : List Tok → Bool
  | .atom _ _ :: _ => true
  | _ => false

/-- Full statement for ALL token lists over atoms, bonds, direction marks, dots, parentheses and ring numbers.
    False as it stands for three tolerated / delegated classes (witnesses in `Findings/C03.lean`): a leading branch
    `(C)C`, `((` / `()` (refused by `_tokenize`, not by `parser`), and ring bonds written after a branch (`C(C)1CC1`:
    OpenSMILES has `atom ringbond* branch*`; the reader, like RDKit and the shipped corpus, takes either order). -/
def AcceptIffRingDiscipline : Prop :=
  ∀ toks : List Tok, (∀ t ∈ toks, ringTok t = true) → (Accepts toks ↔ InLanguage toks)

/-- **The proved part, for ALL token lists of that alphabet**: a list is accepted *and* is in none of the three classes
    **iff** it is a sentence of the language. So, ring closures included: nothing outside the language yields a molecule
    except through the three named classes — an unclosed or re-opened ring number, a ring closed at the atom that
    opened it (`C11`), a second bond between the same two atoms (`C12CCC12`, `C1C1`), contradicting bond symbols on the
    two ends (`C=1CC-1`) are all rejected, by `parser` or by the bond loop of `create_molecule` — and every sentence is
    accepted. -/
theorem accept_iff_ring_discipline_partial (toks : List Tok) (hring : ∀ t ∈ toks, ringTok t = true) :
    (Accepts toks ∧ startsAtom toks = true ∧ noEmptyOpen toks = true ∧ noRingAfterClose toks = true) ↔
      InLanguage toks := by
  constructor
  · rintro ⟨hacc, hsa, hneo, hnrac⟩
    cases toks with
    | nil => cases hsa
    | cons t rest =>
      cases t with
      | atom ty a => exact (accept_iff_rings_core ty a rest hring hneo hnrac).mp hacc
      | _ => cases hsa
  · rintro ⟨c, g, hc, hrest⟩
    obtain ⟨ty, a, rest, hshape⟩ := printR_starts_atom c
    have h1 := printR_noEmptyOpen c
    have h2 := printR_noRingAfterClose c
    rw [← hc] at h1 h2
    rw [← hc] at hshape
    subst hshape
    exact ⟨(accept_iff_rings_core ty a rest hring h1 h2).mpr ⟨c, g, hc, hrest⟩, rfl, h1, h2⟩

/-- … and whenever such a list is accepted, what `parser` returns **is** the denotation: atoms in writing order, their
    aromatic/aliphatic types, chain and ring bonds in writing order of their later end with the orders the spec assigns -/
theorem accepted_graph_is_denotation (ty : Nat) (a : AtomTok) (rest : List Tok) (st : PState)
    (hring : ∀ t ∈ Tok.atom ty a :: rest, ringTok t = true)
    (hneo : noEmptyOpen (Tok.atom ty a :: rest) = true)
    (hnrac : noRingAfterClose (Tok.atom ty a :: rest) = true)
    (h : parse false (Tok.atom ty a :: rest) = .ok st) (hb : bondsBuild st) :
    ∃ (c : Chain B) (g : Graph B), Tok.atom ty a :: rest = toToksB (printR (·.2) c) ∧
      denoteR aromB (·.2) c = some g ∧ st.atoms = g.atoms.map (fun b => strip b.1) ∧
      st.types = g.atoms.map (fun b => tyOf b.1) ∧ st.bonds = g.bonds :=
  accepted_is_denotation ty a rest st hring hneo hnrac h hb

/-- **String level**: for every string that `smiles_tokenize` turns into tokens, the alphabet hypothesis and the `((`/`()`
    hypothesis are discharged by the tokenizer (`_tokenize` never emits `(` directly followed by a parenthesis, bracket
    atoms come out as type 0/8, query tokens never get through). So for every tokenizable string: accepted, starting
    with an atom and without a ring bond after a `)`  ⇔  its token list is a sentence of the language. -/
theorem accept_iff_ring_discipline_strings (s : Str) (toks : List Tok) (htok : smilesTokenize s = .ok toks) :
    (Accepts toks ∧ startsAtom toks = true ∧ noRingAfterClose toks = true) ↔ InLanguage toks := by
  obtain ⟨hring, hneo⟩ := smilesTokenize_ring s toks htok
  rw [← accept_iff_ring_discipline_partial toks hring]
  constructor
  · rintro ⟨h1, h2, h3⟩; exact ⟨h1, h2, hneo, h3⟩
  · rintro ⟨h1, h2, _, h3⟩; exact ⟨h1, h2, h3⟩

/-- the bond loop of `create_molecule` in isolation: with pairwise distinct atom numbers and bond ends in range it
    succeeds exactly on simple graphs with valid orders, and otherwise raises ValueError — never anything else -/
theorem bond_loop_accepts_iff_simple (mapping : List Nat) (hnd : mapping.Nodup) (bs : List (Nat × Nat × Nat))
    (hin : ∀ b ∈ bs, b.1 < mapping.length ∧ b.2.1 < mapping.length) :
    ((∃ adj, buildBonds mapping bs (mapping.map fun n => (n, [])) = .ok adj) ↔
      (simpleBonds bs = true ∧ ∀ b ∈ bs, validOrder b.2.2 = true)) ∧
    ((∃ adj, buildBonds mapping bs (mapping.map fun n => (n, [])) = .ok adj) ∨
      ∃ msg, buildBonds mapping bs (mapping.map fun n => (n, [])) = .error (.lib "ValueError" msg)) :=
  ⟨buildBonds_ok_iff mapping hnd bs hin, buildBonds_lib_error mapping bs hin⟩

/-- sentences and non-sentences (hypotheses are satisfiable; each rejected class is hit):
    `C1CC1`, `C%12CC%12` accepted; `C11`, `C12CCC12`, `C=1CC-1`, `C1CC` not -/
def tC : Tok := .atom 0 { element := [67] }
example : Accepts [tC, .cyc 1, tC, tC, .cyc 1] := ⟨_, rfl, _, _, rfl, rfl⟩
example : Accepts [tC, .cyc 12, tC, tC, .cyc 12] := ⟨_, rfl, _, _, rfl, rfl⟩
example : InLanguage [tC, .cyc 1, tC, tC, .cyc 1] :=
  (accept_iff_ring_discipline_partial _ (by decide)).mp ⟨⟨_, rfl, _, _, rfl, rfl⟩, rfl, rfl, rfl⟩
example : ¬ InLanguage [tC, .cyc 1, .cyc 1] := fun h => by
  obtain ⟨⟨st, hp, r', adj, hm, hb⟩, _⟩ := (accept_iff_ring_discipline_partial _ (by decide)).mpr h
  cases hp; cases hm; cases hb
example : ¬ InLanguage [tC, .cyc 1, .cyc 2, tC, tC, tC, .cyc 1, .cyc 2] := fun h => by
  obtain ⟨⟨st, hp, r', adj, hm, hb⟩, _⟩ := (accept_iff_ring_discipline_partial _ (by decide)).mpr h
  cases hp; cases hm; cases hb
example : ¬ InLanguage [tC, .bond 2, .cyc 1, tC, tC, .bond 1, .cyc 1] := fun h => by
  obtain ⟨⟨st, hp, _⟩, _⟩ := (accept_iff_ring_discipline_partial _ (by decide)).mpr h
  cases hp
example : ¬ InLanguage [tC, .cyc 1, tC, tC] := fun h => by
  obtain ⟨⟨st, hp, _⟩, _⟩ := (accept_iff_ring_discipline_partial _ (by decide)).mpr h
  cases hp

/-- **The lenient grammar** `atom (ringbond | branch)*` (`Spec.L`: ring bonds and branches after an atom in any order, as
    RDKit and the corpus shipped with chython write them): for every tree the spec gives a graph, `parser` accepts the
    printed tokens and returns exactly that graph. This covers the class the strict statement excludes (`C(C)1CC1`). -/
theorem accept_sound_lenient (c : ChainL B) (g : Graph B) (hd : denoteChainL aromB c = some g) :
    ∃ st, parse false (toToksB (printChainL c)) = .ok st ∧
      st.atoms = g.atoms.map (fun b => strip b.1) ∧ st.types = g.atoms.map (fun b => tyOf b.1) ∧
      st.bonds = g.bonds := parse_printL c g hd

/-- `C(C)1CC1`: the ring bond is written after the branch -/
example : (denoteChainL aromB (⟨((false, { element := [67] }), []),
    .side .implicit ((false, { element := [67] }), []) .done
      (.ring ⟨.none, 1⟩ (.next .implicit ((false, { element := [67] }), [])
        (.next .implicit ((false, { element := [67] }), []) (.ring ⟨.none, 1⟩ .done))))⟩ : ChainL B)).map (·.bonds) =
    some [(1, 0, 1), (2, 0, 1), (3, 2, 1), (3, 0, 1)] := rfl

/-- **Acceptance ⇔ lenient language, for ALL token lists** of the alphabet: with the grammar the reader actually
    implements for the order of ring bonds and branches, the only classes left outside are the leading branch and
    `((`/`()`: (accepted ∧ starts with an atom ∧ no `((`/`()`) ⇔ printing of a tree of `atom (ringbond | branch)*` that the
    spec gives a simple graph with ordinary orders (ring-closure discipline as in `ringOne`). `InLanguageL` is defined in
    `Proofs/C03LenientIff.lean` exactly like `InLanguage`, over `ChainL` / `denoteChainL`. -/
theorem accept_iff_lenient_language (toks : List Tok) (hring : ∀ t ∈ toks, ringTok t = true) :
    (Accepts toks ∧ startsAtom toks = true ∧ noEmptyOpen toks = true) ↔ InLanguageL toks := by
  constructor
  · rintro ⟨hacc, hsa, hneo⟩
    cases toks with
    | nil => cases hsa
    | cons t rest =>
      cases t with
      | atom ty a => exact (accept_iff_lenient ty a rest hring hneo).mp hacc
      | _ => cases hsa
  · rintro ⟨c, g, hc, hrest⟩
    obtain ⟨ty, a, rest, hshape⟩ := printChainL_starts_atom c
    have h1 := printChainL_noEmptyOpen c
    rw [← hc] at h1 hshape
    subst hshape
    exact ⟨(accept_iff_lenient ty a rest hring h1).mpr ⟨c, g, hc, hrest⟩, rfl, h1⟩

/-- … and the record `parser` returns is the denotation of that tree -/
theorem accepted_graph_is_denotation_lenient (ty : Nat) (a : AtomTok) (rest : List Tok) (st : PState)
    (hring : ∀ t ∈ Tok.atom ty a :: rest, ringTok t = true) (hneo : noEmptyOpen (Tok.atom ty a :: rest) = true)
    (h : parse false (Tok.atom ty a :: rest) = .ok st) (hb : bondsBuild st) :
    ∃ (c : ChainL B) (g : Graph B), Tok.atom ty a :: rest = toToksB (printChainL c) ∧
      denoteChainL aromB c = some g ∧ st.atoms = g.atoms.map (fun b => strip b.1) ∧
      st.types = g.atoms.map (fun b => tyOf b.1) ∧ st.bonds = g.bonds :=
  accepted_is_denotationL ty a rest st hring hneo h hb

/-- string level: for every tokenizable string, accepted and starting with an atom ⇔ sentence of the lenient language -/
theorem accept_iff_lenient_strings (s : Str) (toks : List Tok) (htok : smilesTokenize s = .ok toks) :
    (Accepts toks ∧ startsAtom toks = true) ↔ InLanguageL toks := by
  obtain ⟨hring, hneo⟩ := smilesTokenize_ring s toks htok
  rw [← accept_iff_lenient_language toks hring]
  constructor
  · rintro ⟨h1, h2⟩; exact ⟨h1, h2, hneo⟩
  · rintro ⟨h1, h2, _⟩; exact ⟨h1, h2⟩

/-- the two grammars of the spec agree where they should: the strict OpenSMILES language is exactly the part of the
    lenient one in which no ring bond is written after a `)` (proved through the parser: both sides are equivalent to
    acceptance, and the denoted graphs coincide with what `parser` returns) -/
theorem strict_language_iff_lenient (toks : List Tok) :
    InLanguage toks ↔ (InLanguageL toks ∧ noRingAfterClose toks = true) := by
  constructor
  · intro h
    have hring : ∀ t ∈ toks, ringTok t = true := by
      obtain ⟨c, _, hc, _⟩ := h
      rw [hc]; exact printR_ringTok c
    obtain ⟨hacc, hsa, hneo, hnrac⟩ := (accept_iff_ring_discipline_partial toks hring).mpr h
    exact ⟨(accept_iff_lenient_language toks hring).mp ⟨hacc, hsa, hneo⟩, hnrac⟩
  · rintro ⟨h, hnrac⟩
    have hring : ∀ t ∈ toks, ringTok t = true := by
      obtain ⟨c, _, hc, _⟩ := h
      rw [hc]; exact printChainL_ringTok c
    obtain ⟨hacc, hsa, hneo⟩ := (accept_iff_lenient_language toks hring).mpr h
    exact (accept_iff_ring_discipline_partial toks hring).mp ⟨hacc, hsa, hneo, hnrac⟩

example : InLanguageL [tC, .lpar, tC, .rpar, .cyc 1, tC, tC, .cyc 1] :=        -- C(C)1CC1
  (accept_iff_lenient_language _ (by decide)).mp ⟨⟨_, rfl, _, _, rfl, rfl⟩, rfl, rfl⟩

/-- **End to end, on `smiles()` itself** (the function the driver runs), for a one-word molecule string (no blank, no `>`,
    hence no CXSMILES block): `smiles` returns a molecule **iff** the string tokenizes, `parser` accepts the tokens, every
    atom names an element with an admissible isotope and charge (`atomCheck` = `Element.from_symbol(…)(isotope, charge)`),
    and the bond loop accepts the bonds — i.e. `Accepts` of the token list plus valid atoms. -/
theorem smiles_ok_iff_accepts (data : Str) (hne : data ≠ []) (hw : splitWs data = [data]) (hnr : data.contains 62 = false) :
    (∃ res, smiles data = .ok res) ↔
      ∃ toks st, smilesTokenize data = .ok toks ∧ parse false toks = .ok st ∧
        (∀ a ∈ st.atoms, ∃ z, atomCheck a = .ok z) ∧ bondsBuild st := smiles_ok_iff data hne hw hnr

/-- hence: a one-word string that `smiles()` reads, that starts with an atom and writes no ring bond after a `)`, is a
    sentence of the language (with ring-closure discipline), and `parser`'s record is the denoted graph -/
theorem smiles_accepted_is_sentence (data : Str) (hne : data ≠ []) (hw : splitWs data = [data])
    (hnr : data.contains 62 = false) (res : Result) (h : smiles data = .ok res) :
    ∃ toks st, smilesTokenize data = .ok toks ∧ parse false toks = .ok st ∧
      (startsAtom toks = true → noRingAfterClose toks = true →
        ∃ (c : Chain B) (g : Graph B), toks = toToksB (printR (·.2) c) ∧ denoteR aromB (·.2) c = some g ∧
          simpleBonds g.bonds = true ∧ st.atoms = g.atoms.map (fun b => strip b.1) ∧
          st.types = g.atoms.map (fun b => tyOf b.1) ∧ st.bonds = g.bonds) := by
  obtain ⟨toks, st, htok, hp, _, hb⟩ := (smiles_ok_iff data hne hw hnr).mp ⟨res, h⟩
  refine ⟨toks, st, htok, hp, ?_⟩
  intro hsa hnrac
  obtain ⟨hring, hneo⟩ := smilesTokenize_ring data toks htok
  cases toks with
  | nil => cases hsa
  | cons t rest =>
    cases t with
    | atom ty a =>
      obtain ⟨c, g, hc, hg, ea, et, eb⟩ := accepted_is_denotation ty a rest st hring hneo hnrac hp hb
      have hs := ((bondsBuild_iff _ st (by simp) (fun t ht => ringTok_noOther (hring t ht)) hp).mp hb).1
      exact ⟨c, g, hc, hg, by rw [← eb]; exact hs, ea, et, eb⟩
    | _ => cases hsa

/-- conversely: a one-word string whose token list is a sentence and whose atoms are valid is read by `smiles()` -/
theorem sentence_is_read (data : Str) (hne : data ≠ []) (hw : splitWs data = [data]) (hnr : data.contains 62 = false)
    (toks : List Tok) (htok : smilesTokenize data = .ok toks) (hin : InLanguage toks)
    (hatoms : ∀ st, parse false toks = .ok st → ∀ a ∈ st.atoms, ∃ z, atomCheck a = .ok z) :
    ∃ res, smiles data = .ok res := by
  obtain ⟨hring, _⟩ := smilesTokenize_ring data toks htok
  obtain ⟨⟨st, hp, hb⟩, _⟩ := (accept_iff_ring_discipline_partial toks hring).mpr hin
  exact (smiles_ok_iff data hne hw hnr).mpr ⟨toks, st, htok, hp, hatoms st hp, hb⟩

/-- **`smiles()` reads exactly the sentences**: for a one-word molecule string whose token list starts with an atom,
    `smiles` returns a molecule **iff** the token list is a sentence of the lenient language and every atom is a valid
    element / isotope / charge -/
theorem smiles_reads_iff_sentence (data : Str) (hne : data ≠ []) (hw : splitWs data = [data])
    (hnr : data.contains 62 = false) (toks : List Tok) (htok : smilesTokenize data = .ok toks)
    (hsa : startsAtom toks = true) :
    (∃ res, smiles data = .ok res) ↔
      (InLanguageL toks ∧ ∀ st, parse false toks = .ok st → ∀ a ∈ st.atoms, ∃ z, atomCheck a = .ok z) := by
  constructor
  · intro h
    obtain ⟨toks', st, htok', hp, hat, hb⟩ := (smiles_ok_iff data hne hw hnr).mp h
    rw [htok] at htok'
    cases htok'
    refine ⟨(accept_iff_lenient_strings data toks htok).mp ⟨⟨st, hp, hb⟩, hsa⟩, ?_⟩
    intro st' hp'
    rw [hp] at hp'
    cases hp'
    exact hat
  · rintro ⟨hin, hat⟩
    obtain ⟨⟨st, hp, hb⟩, _⟩ := (accept_iff_lenient_strings data toks htok).mpr hin
    exact (smiles_ok_iff data hne hw hnr).mpr ⟨toks, st, htok, hp, hat st hp, hb⟩

example : ∃ res, smiles [67, 49, 67, 67, 49] = .ok res := ⟨_, rfl⟩          -- C1CC1
example : splitWs [67, 49, 67, 67, 49] = [[67, 49, 67, 67, 49]] := rfl

/-! ## hydrogens after graph construction (`create_molecule`, second half) -/

open ChythonModel.Model.Valence ChythonModel.Spec in
/-- Full statement, unbracketed atoms: an organic-subset atom written without brackets (neutral, not named in a CXSMILES
    radical block), with localised bonds, gets the OpenSMILES count — difference to the lowest normal valence that is
    ≥ the bond-order sum, 0 above all of them. False for chython beyond the *lowest* normal valence: its valence model
    has no "next higher valence" rule (N with four single bonds, P/S/halogens outside their listed environments get a
    valence error, hydrogens `None`): witness in `Findings/C03.lean`; C04 owns that model. -/
def OrganicHydrogensOpenSmiles : Prop :=
  ∀ z ∈ OrganicValence.organicSubset, ∀ bs : List BE, aromaCount bs = 0 →
    assignH ⟨z, 0, false, bs⟩ none = (organicH z (explicitSum bs)).map fun h => (some h, false)

open ChythonModel.Model.Valence ChythonModel.Spec in
/-- **Proved part**: for all ten organic-subset elements, any neighbours, any number of localised bonds whose orders sum
    to at most the lowest normal valence (B 3, C 4, N 3, O 2, P 3, S 2, halogens 1): the hydrogen loop of the reader
    leaves exactly the OpenSMILES count on the atom and no radical mark. -/
theorem organic_hydrogens_partial (z : Nat) (hz : z ∈ OrganicValence.organicSubset) (bs : List BE)
    (ha : aromaCount bs = 0) (v0 : Nat) (hl : OrganicValence.lowest z = some v0) (hle : explicitSum bs ≤ v0) :
    assignH ⟨z, 0, false, bs⟩ none = (organicH z (explicitSum bs)).map fun h => (some h, false) :=
  organic_low z hz bs ha v0 hl hle

open ChythonModel.Model.Valence ChythonModel.Spec in
/-- … and what happens above it for B C N O F (the exact excluded class for the second period): a valence error,
    hydrogens `None`, whatever the neighbours are -/
theorem organic_hydrogens_second_period_above (z : Nat) (hz : z ∈ [5, 6, 7, 8, 9]) (bs : List BE)
    (ha : aromaCount bs = 0) (v0 : Nat) (hl : OrganicValence.lowest z = some v0) (hgt : v0 < explicitSum bs) :
    assignH ⟨z, 0, false, bs⟩ none = some (none, false) := second_period_above z hz bs ha v0 hl hgt

open ChythonModel.Model.Valence in
example : assignH ⟨7, 0, false, [(1, 6), (2, 8)]⟩ none = some (some 0, false) := by decide +kernel   -- C-N=O
open ChythonModel.Model.Valence in
example : assignH ⟨16, 0, false, [(1, 6)]⟩ none = some (some 1, false) := by decide +kernel           -- C-SH

open ChythonModel.Model.Valence in
/-- Full statement, bracket atoms: the atom carries exactly the written count. False: a count the valence tables admit
    neither as written nor as a mono-radical is replaced (`[CH2]` is built as CH4; known finding
    `hydrogens-open-valence-2`, witness in `Findings/C03.lean`). -/
def BracketHydrogensWritten : Prop :=
  ∀ (c : Ctx) (h : Nat), (assignH c (some h)).map (·.1) = (tableOf c.z).map fun _ => bracketH h

open ChythonModel.Model.Valence in
/-- **Proved part 1 (exact class)**: for a bracket atom with localised bonds the written count is kept **iff**
    `check_implicit` (C04's valence model over the regenerated tables) admits that count for the atom as written, or —
    when the atom is not already a CXSMILES radical — for its radical form. -/
theorem bracket_hydrogens_kept_iff (c : Ctx) (h : Nat) (t : Rules) (ht : tableOf c.z = some t)
    (ha : aromaCount c.bonds = 0) :
    (assignH c (some h)).map (·.1) = some (some (bracketH h)) ↔
      (checkWith t c h = true ∨ (c.radical = false ∧ checkWith t { c with radical := true } h = true)) := by
  have hna : isAromaticAtom c = false := by simp [isAromaticAtom, ha]
  have key := assignWith_kept_iff (calcWith t) (checkWith t) c h hna
    (fun k hk => check_of_calc t c k ha hk) (fun hn k => check_of_calc_none t c ha hn k)
  simp only [assignH, ht, Option.map_some, Option.some.injEq, bracketH]
  exact key

open ChythonModel.Model.Valence in
/-- **Proved part 2**: in every case (any bonds, any element) a bracket atom ends with the written count or with the
    count `calc_implicit` computes for it — never with a third value -/
theorem bracket_hydrogens_written_or_calculated (c : Ctx) (h : Nat) (t : Rules) (ht : tableOf c.z = some t) :
    (assignH c (some h)).map (·.1) = some (some (bracketH h)) ∨ (assignH c (some h)).map (·.1) = some (calcWith t c) := by
  simp only [assignH, ht, Option.map_some, Option.some.injEq, bracketH]
  exact assignWith_written_or_calc (calcWith t) (checkWith t) c h

open ChythonModel.Model.Valence in
/-- **Proved part 3**: aromatic bracket atoms other than neutral carbon (`[nH]`, `[n+]`, `[se]`, `[o+]`, `[c-]`) always
    keep the written count (their count is not computable before `kekule()`), radical flag untouched -/
theorem bracket_hydrogens_aromatic (c : Ctx) (h : Nat) (t : Rules) (ht : tableOf c.z = some t) (hz : c.z ≠ 1)
    (ha : aromaCount c.bonds ≠ 0) (hc : ¬ (c.charge = 0 ∧ c.radical = false ∧ c.z = 6)) :
    assignH c (some h) = some (some (bracketH h), c.radical) := by
  have har : isAromaticAtom c = true := by simp [isAromaticAtom, ha]
  simp only [assignH, ht, Option.map_some, bracketH]
  rw [assignWith_aromatic_none _ _ c h har (calc_aromatic_hetero t c hz har hc)]

open ChythonModel.Model.Valence in
/-- the radical mark is switched on only because the radical form admits the written count (SMILES writes radicals
    through the hydrogen count), or in the `c[c]c` special case -/
theorem bracket_radical_sound (c : Ctx) (h : Nat) (t : Rules) (ht : tableOf c.z = some t) (r : Option Nat × Bool)
    (hr : assignH c (some h) = some r) (hrad : r.2 = true) :
    c.radical = true ∨ checkWith t { c with radical := true } h = true ∨ aromRadicalCase c h = true := by
  simp only [assignH, ht, Option.map_some, Option.some.injEq] at hr
  subst hr
  exact assignWith_radical (calcWith t) (checkWith t) c h hrad

open ChythonModel.Model.Valence in
/-- instances: `[CH3]` (radical form admitted), `[NH4+]` (as written), `[CH2]` (replaced) -/
example : assignH ⟨6, 0, false, []⟩ (some 3) = some (some 3, true) := by decide +kernel
open ChythonModel.Model.Valence in
example : assignH ⟨7, 1, false, []⟩ (some 4) = some (some 4, false) := by decide +kernel
open ChythonModel.Model.Valence in
example : assignH ⟨6, 0, false, []⟩ (some 2) = some (some 4, false) := by decide +kernel

open ChythonModel.Model.Valence in
/-- the hydrogen loop with the three keywords of `smiles()` that act inside it (`keep_implicit`,
    `ignore_aromatic_radicals`, `ignore_carbon_radicals`; driver op `H`) is, at the defaults, the loop all theorems above
    are about -/
theorem hydrogen_options_default (m : MolOut) : molHydrogensOpt {} m = molHydrogens m := hydLoopOpt_default m m.atoms

open ChythonModel.Model.Valence in
/-- `keep_implicit=True`: every bracket atom keeps exactly the written count (and its radical mark) -/
theorem keep_implicit_written (o : HOpts) (ho : o.keepImplicit = true) (c : Ctx) (h : Nat) :
    assignHOpt o c (some h) = (tableOf c.z).map fun _ => (some (bracketH h), c.radical) := by
  unfold assignHOpt
  congr 1
  funext t
  exact assignOpt_keepImplicit o ho _ _ c h

open ChythonModel.Model.Valence in
/-- `ignore_carbon_radicals=True`: a carbon not named in the CXSMILES radical block never ends as a radical -/
theorem ignore_carbon_radicals_sound (o : HOpts) (ho : o.ignoreCarbonRadicals = true) (c : Ctx) (hyd : Option Nat)
    (hz : c.z = 6) (hr : c.radical = false) (r : Option Nat × Bool) (h : assignHOpt o c hyd = some r) : r.2 = false := by
  unfold assignHOpt at h
  cases ht : tableOf c.z with
  | none => rw [ht] at h; cases h
  | some t =>
    rw [ht] at h
    simp only [Option.map_some, Option.some.injEq] at h
    subst h
    exact assignOpt_ignoreCarbonRadicals o ho _ _ c hyd hz hr

open ChythonModel.Model.Valence in
example : assignHOpt { ignoreCarbonRadicals := true } ⟨6, 0, false, []⟩ (some 3) = some (some 4, false) := by decide +kernel
open ChythonModel.Model.Valence in
example : assignHOpt { keepImplicit := true } ⟨6, 0, false, []⟩ (some 2) = some (some 2, false) := by decide +kernel

/-- "never an unrelated exception", extended to the hydrogen loop: on every molecule that `smiles` returns — the molecule,
    or any molecule of any role of a reaction — the hydrogen loop (what the driver prints for each atom), for every
    combination of its three keywords, raises nothing and yields exactly one entry per atom in atom order -/
theorem hydrogens_total_on_every_result (o : HOpts) (s : Str) (res : Result) (h : smiles s = .ok res) :
    ∀ m ∈ builtOf res, (∃ l, molHydrogens m = .ok l ∧ l.map (·.1) = m.atoms.map (·.1)) ∧
      ∃ l, molHydrogensOpt o m = .ok l ∧ l.map (·.1) = m.atoms.map (·.1) :=
  fun m hm => ⟨smiles_hydrogens_total s res h m hm, smiles_hydrogens_total_opt o s res h m hm⟩

/-- `[CH3]>>C`: a reaction with two built molecules -/
example : ∃ res, smiles [91, 67, 72, 51, 93, 62, 62, 67] = .ok res ∧ (builtOf res).length = 2 := ⟨_, rfl, rfl⟩

open ChythonModel.Model.Valence ChythonModel.Spec in
/-- **Hydrogens of an accepted string, on its graph.** Let `smiles(s)` return the molecule record `r` (atoms in writing
    order, bonds `(i, j, order)` over atom positions — for sentences of the language the denoted graph, by
    `smiles_accepted_is_sentence`) and the built molecule `m`. For every atom position `i` whose atom is written
    **without brackets** (`hyd = none`), is an element of the organic subset, is not named in a CXSMILES radical block, has
    no aromatic bond, and whose bond orders in `r.bonds` sum to at most the lowest normal valence `v0`: the hydrogen
    loop leaves exactly `v0 − Σ` hydrogens (the OpenSMILES count `organicH`) and no radical mark on it. -/
theorem organic_hydrogens_of_string (s : Str) (r : MolRec) (m : MolOut) (l : List (Nat × Option Nat × Bool))
    (h : smiles s = .ok (.mol r m)) (hl : molHydrogens m = .ok l)
    (i : Nat) (a : AtomTok) (hi : r.atoms[i]? = some a) (z v0 : Nat) (hz : atomCheck a = .ok z)
    (horg : z ∈ OrganicValence.organicSubset) (hunb : a.hyd = none) (hq : a.charge = 0) (hrad : a.radical = false)
    (harom : aromAt r.bonds i = 0) (hlow : OrganicValence.lowest z = some v0) (hle : valSum r.bonds i ≤ v0) :
    l[i]? = some ((r.mapping[i]?).getD 0, some (v0 - valSum r.bonds i), false) ∧
      organicH z (valSum r.bonds i) = some (v0 - valSum r.bonds i) := by
  obtain ⟨hb, hnd, hlen⟩ := smiles_mol_parts s r m h
  exact ⟨organic_hydrogens_on_graph r m l hb hl hnd hlen i a hi z v0 hz horg hunb hq hrad harom hlow hle,
    organicH_low z horg v0 hlow _ hle⟩

open ChythonModel.Model.Valence in
/-- … and for every **bracket atom** (written count `hw`) without aromatic bonds: it carries exactly the written count
    **iff** the valence model admits `hw` hydrogens on the atom with the bonds of the graph, as written or (when not a
    CXSMILES radical) as a radical; for *every* atom the entry is `assignH` of (Z, charge, radical, bonds of the graph) -/
theorem bracket_hydrogens_of_string (s : Str) (r : MolRec) (m : MolOut) (l : List (Nat × Option Nat × Bool))
    (h : smiles s = .ok (.mol r m)) (hl : molHydrogens m = .ok l)
    (i : Nat) (a : AtomTok) (hi : r.atoms[i]? = some a) (z : Nat) (hz : atomCheck a = .ok z)
    (hw : Nat) (hb : a.hyd = some hw) (harom : aromAt r.bonds i = 0) (t : Rules) (ht : tableOf z = some t) :
    ∃ hh rad, l[i]? = some ((r.mapping[i]?).getD 0, hh, rad) ∧
      (hh = some (bracketH hw) ↔
        (checkWith t ⟨z, a.charge, a.radical, bondsAt r i⟩ hw = true ∨
          (a.radical = false ∧ checkWith t ⟨z, a.charge, true, bondsAt r i⟩ hw = true))) := by
  obtain ⟨hbm, hnd, hlen⟩ := smiles_mol_parts s r m h
  exact bracket_hydrogens_on_graph r m l hbm hl hnd hlen i a hi z hz hw hb harom t ht

open ChythonModel.Model.Valence in
theorem hydrogens_of_string (s : Str) (r : MolRec) (m : MolOut) (l : List (Nat × Option Nat × Bool))
    (h : smiles s = .ok (.mol r m)) (hl : molHydrogens m = .ok l)
    (i : Nat) (a : AtomTok) (hi : r.atoms[i]? = some a) (z : Nat) (hz : atomCheck a = .ok z) :
    ∃ res, assignH ⟨z, a.charge, a.radical, bondsAt r i⟩ a.hyd = some res ∧
      l[i]? = some ((r.mapping[i]?).getD 0, res.1, res.2) := by
  obtain ⟨hbm, hnd, hlen⟩ := smiles_mol_parts s r m h
  exact hydrogens_on_graph r m l hbm hl hnd hlen i a hi z hz

/-- instance: `CC(=O)O` — the model's `smiles` and hydrogen loop give 3, 0, 0, 1 -/
example : (match smiles [67, 67, 40, 61, 79, 41, 79] with
    | .ok (.mol _ m) => (molHydrogens m).toOption
    | _ => none) = some [(1, some 3, false), (2, some 0, false), (3, some 0, false), (4, some 1, false)] := by
  decide +kernel

/-- **Tie to the pipeline**: on every molecule the structural part of `create_molecule` builds, the hydrogen loop
    raises nothing and yields one entry per atom in atom order; entry `i` is `assignH` of the context
    `calc_implicit` would read for atom `i` (`hCtx`) and the atom's written count — so the theorems above are
    statements about every atom of every accepted string. -/
theorem hydrogens_of_built_molecule (r : MolRec) (m : MolOut) (h : buildMol r = .ok m) :
    ∃ l, molHydrogens m = .ok l ∧ l.map (·.1) = m.atoms.map (·.1) ∧
      ∀ (i : Nat) (a : Nat × Nat × Option Nat × Int × Bool × Option Nat), m.atoms[i]? = some a →
        ∃ c x, hCtx m a = some c ∧ assignH c a.2.2.2.2.2 = some x ∧ l[i]? = some (a.1, x.1, x.2) := by
  obtain ⟨l, hl, hids⟩ := molHydrogens_total r m h
  exact ⟨l, hl, hids, fun i a hi => hydLoop_entry m m.atoms l hl i a hi⟩

/-! ## atom numbering from atom maps (`_mapping.py`) -/

/-- `postprocess_parsed_molecule` (default `remap=False`): one number per atom, pairwise distinct, all positive, and an
    atom whose atom map (`:n`) is non-zero and not already used by an earlier atom of the string is numbered `n` -/
theorem numbering_spec (r r' : MolRec) (h : mapMolecule r = .ok r') :
    r'.atoms = r.atoms ∧ r'.mapping.length = r.atoms.length ∧ r'.mapping.Nodup ∧ (∀ x ∈ r'.mapping, 0 < x) ∧
    (∀ i m, (r.atoms.map mapOr0)[i]? = some m → m ≠ 0 → m ∉ (r.atoms.map mapOr0).take i → r'.mapping[i]? = some m) :=
  mapMolecule_spec r r' h

/-- `[CH3:7]C[C:7]`: first `:7` kept, the repeated one and the unmapped atom get fresh numbers above every map -/
example : (mapMolecule { atoms := [{ element := [67], mapping := some 7 }, { element := [67] },
    { element := [67], mapping := some 7 }], bonds := [], order := [], stereoAtoms := [], stereoBonds := [] }).toOption.map
      (·.mapping) = some [7, 8, 9] := rfl

/-! ## CXSMILES / reaction front end -/

/-- fragment contraction of a reaction never indexes outside the molecule lists and never produces an empty
    molecule string, whatever fragment groups the CXSMILES block names -/
theorem contraction_safe (R G P : List Str) (hR : ∀ x ∈ R, x ≠ []) (hG : ∀ x ∈ G, x ≠ []) (hP : ∀ x ∈ P, x ≠ [])
    (ct : List (List Nat)) (hct : ∀ c ∈ ct, c ≠ []) :
    ∃ R' G' P', applyContract R G P ct = .ok (R', G', P') ∧ (∀ x ∈ R', x ≠ []) ∧ (∀ x ∈ G', x ≠ []) ∧
      (∀ x ∈ P', x ≠ []) := applyContract_good R G P hR hG hP ct hct

example : applyContract [[67], [67]] [] [] [[0, 1]] = .ok ([[67, 46, 67]], [], []) := rfl   -- C.C>> |f:0.1|

/-! ## regenerated tables (G + P) -/

/-- every charge spelling of `charge_dict` is within the range the element constructor accepts -/
theorem charge_table_in_range : ∀ p ∈ chargeDict, -4 ≤ p.2 ∧ p.2 ≤ 4 := by decide

/-- `charge_dict` agrees with the charge semantics of the language on every spelling: all 1554 strings of length ≤ 4
    over `+ - 1 2 3 4` get the charge the standard assigns, or are absent when the standard has no meaning for them -/
theorem charge_table_is_spec :
    ∀ w ∈ words [43, 45, 49, 50, 51, 52] 4, lookupStr w chargeDict = specCharge w := by decide +kernel

/-- and the table has no other keys -/
theorem charge_table_keys : ∀ p ∈ chargeDict, p.1 ∈ words [43, 45, 49, 50, 51, 52] 4 := by decide +kernel

/-- `not_dict[s]` is the complement of `replace_dict[s]` within the four ordinary bond orders -/
theorem not_dict_is_complement :
    ∀ p ∈ notDict, ∃ o, lookupNat p.1 replaceDict = some o ∧
      ∀ x ∈ [1, 2, 3, 4], (p.2.contains x) = (x != o) := by decide +kernel

/-! ### `atom_re`: the greedy matcher of the model is the regular expression

`Model.matchGroups` matches the regenerated normal form of `atom_re` greedily and without backtracking. That is the
semantics of `re.fullmatch` provided no choice point is ambiguous: wherever the pattern may either take one more
character of a class or go on (an item with `max > min`, the decision to enter an optional group), the class must be
disjoint from everything that can come next. `reDeterministic` checks exactly this on the regenerated pattern. -/

abbrev ReItem := List (Nat × Nat) × Nat × Nat
abbrev ReGroup := Bool × List ReItem

def classesDisjoint (r1 r2 : List (Nat × Nat)) : Bool :=
  (List.range 128).all fun c => !(inRanges c r1 && inRanges c r2)

/-- classes that can start the remainder of a group: up to and including the first mandatory item; `true` if blocked -/
def restFirsts : List ReItem → List (List (Nat × Nat)) × Bool
  | [] => ([], false)
  | (r, lo, _) :: tl => if lo ≥ 1 then ([r], true) else let (cs, b) := restFirsts tl; (r :: cs, b)

/-- classes that can start what follows a group: first item of each later group, up to the first mandatory group -/
def groupFirsts : List ReGroup → List (List (Nat × Nat))
  | [] => []
  | (opt, items) :: tl =>
    match items with
    | [] => groupFirsts tl
    | (r, _, _) :: _ => if opt then r :: groupFirsts tl else [r]

def itemsOK (later : List ReGroup) : List ReItem → Bool
  | [] => true
  | (r, lo, hi) :: tl =>
    (if hi > lo then
      let (cs, blocked) := restFirsts tl
      (cs ++ (if blocked then [] else groupFirsts later)).all (classesDisjoint r)
     else true) && itemsOK later tl

def reDeterministic : List ReGroup → Bool
  | [] => true
  | (opt, items) :: tl =>
    (match items with
     | [] => false
     | (r, lo, _) :: _ => lo ≥ 1 && r.all (fun p => p.2 < 128) &&
        (if opt then (groupFirsts tl).all (classesDisjoint r) else true)) &&
    itemsOK tl items && reDeterministic tl

theorem atom_re_deterministic : reDeterministic atomRe = true := by decide +kernel

/-- the ring-closure digit class of `_tokenize` is exactly the ASCII digits (what `digitsToNat` assumes) -/
theorem digit_chars_are_ascii : digitChars = [48, 49, 50, 51, 52, 53, 54, 55, 56, 57] := by decide

/-- the bond symbols `_tokenize` dispatches on are exactly the keys of `replace_dict` (no KeyError) -/
theorem bond_chars_are_keys : ∀ c ∈ bondChars, (lookupNat c replaceDict).isSome = true := by decide

/-- `atom_re` has six capture groups and the element group is mandatory (what `_atom_parse` unpacks) -/
theorem atom_re_shape : atomRe.length = 6 ∧ (atomRe[1]?).map (fun g => g.1) = some false := by decide

/-! ## bracket atoms: `_atom_parse` and the tokenizer invert the spelling -/

/-- **Bracket atoms.** For every structured bracket atom `isotope? symbol chirality? hcount? charge? class?` (isotope 1–3
    digits not starting with 0; symbol = one letter of `atom_re`'s first class, optionally one of its second; `@`/`@@`;
    `H`, `H0`…`H4`; a sign followed by up to three of `1234+-`; `:` and 1–4 digits) `_atom_parse` of the spelling returns
    exactly that atom: element (aromatic spellings capitalised, type 8), isotope, atom class, hydrogen count (absent 0,
    `H` 1, `Hn` n), chirality mark, and the charge **the language assigns to the spelling** (`specCharge`: sign repeated,
    or sign + digit) — or IncorrectSmiles when the spelling has no meaning (`+-`, `+5`, `++2`). -/
theorem bracket_atom_roundtrip (b : BSpell) (h : b.wf) :
    atomParse b.body =
      match (if b.chg = [] then some 0 else specCharge b.chg) with
      | some v => .ok (b.tok v)
      | none => .error (smilesErr "charge token invalid") := by
  rw [atomParse_body b h]
  unfold BSpell.chargeVal
  by_cases hc : b.chg = []
  · simp [hc]
  · simp only [hc, if_false]
    have hmem : b.chg ∈ words [43, 45, 49, 50, 51, 52] 4 := by
      rcases h.chg with h0 | ⟨c, a, e, hc1, ha, _, hhi⟩
      · exact absurd h0 hc
      · apply mem_words
        · exact hc
        · rw [e]; simp; omega
        · intro x hx
          rw [e] at hx
          simp only [List.mem_cons] at hx
          rcases hx with rfl | hx
          · have : ∀ y, inRanges y clsSign = true → y ∈ [43, 45, 49, 50, 51, 52] := by
              intro y hy
              simp [inRanges, clsSign] at hy
              rcases hy with ⟨h1, h2⟩ | ⟨h1, h2⟩
              · have : y = 43 := by omega
                simp [this]
              · have : y = 45 := by omega
                simp [this]
            exact this _ hc1
          · have : ∀ y, inRanges y clsChg = true → y ∈ [43, 45, 49, 50, 51, 52] := by
              intro y hy
              simp [inRanges, clsChg] at hy
              rcases hy with ⟨h1, h2⟩ | ⟨h1, h2⟩ | ⟨h1, h2⟩
              · have : y = 49 ∨ y = 50 ∨ y = 51 ∨ y = 52 := by omega
                rcases this with rfl | rfl | rfl | rfl <;> simp
              · have : y = 43 := by omega
                simp [this]
              · have : y = 45 := by omega
                simp [this]
            exact this _ (ha x hx)
    rw [charge_table_is_spec b.chg hmem]
    cases specCharge b.chg <;> rfl

/-- the tokenizer on `[`spelling`]`: one atom token, the atom above -/
theorem bracket_atom_tokenized (b : BSpell) (hwf : b.wf) (v : Int)
    (hv : (b.chg = [] ∧ v = 0) ∨ lookupStr b.chg chargeDict = some v) :
    smilesTokenize ([91] ++ b.body ++ [93]) = .ok [.atom (b.tok v).1 (b.tok v).2] := smilesTokenize_bracket b hwf v hv

/-- **Tokenizer round trip with bracket atoms**: for every list of lexical tokens — the organic-subset tokens of
    `lexer_roundtrip` and structured bracket atoms `[…]` — in which no `(` is directly followed by `(`, `)` or a ring
    number, `smiles_tokenize` of the concatenated spelling returns exactly that token list (bracket atoms as the atom
    `bracket_atom_roundtrip` describes). -/
theorem lexer_roundtrip_brackets (ts : List LTokB) (h : LexOKB false ts) :
    smilesTokenize (ts.flatMap LTokB.render) = .ok (ts.map LTokB.tok) := smilesTokenize_renderB ts h

/-- **From the characters to the graph, bracket atoms included**: `reader_sound_strings` for syntax trees whose atoms are
    organic-subset spellings *or bracket atoms* (isotope, chirality mark, hydrogen count, every charge spelling, atom
    class). Whenever the spec assigns the tree a graph, `smiles_tokenize` of the text succeeds and `parser` returns
    exactly that graph — atoms with their isotope / charge / hydrogen count / class, types, chain and ring bonds. -/
theorem reader_sound_strings_brackets (c : SChainB) (h : c.wf) (g : Graph B)
    (hd : denoteR aromB (·.2) c.toChain = some g) :
    ∃ toks st, smilesTokenize c.text = .ok toks ∧ parse false toks = .ok st ∧
      st.atoms = g.atoms.map (fun b => strip b.1) ∧ st.types = g.atoms.map (fun b => tyOf b.1) ∧
      st.bonds = g.bonds := text_to_graphB c h g hd

/-- non-trivial instances: `c1cc[nH]c1` and `[13CH3][C@H](N)C(=O)[O-]` (text, well-formedness) -/
example : exPyrrole.text = [99, 49, 99, 99, 91, 110, 72, 93, 99, 49] := rfl
example : exPyrrole.wf := exPyrrole_wf
example : exAla.wf := exAla_wf

end ChythonModel.Props.C03
