import ChythonModel.Model.C06Rings
import ChythonModel.Spec.CycleBasis
import ChythonModel.Proofs.C06Gauss
import ChythonModel.Proofs.C06Skin
import ChythonModel.Proofs.C06Components
import ChythonModel.Proofs.C06Canonic
import ChythonModel.Proofs.C06Marks
import ChythonModel.Proofs.C06Count
import ChythonModel.Proofs.C06RingVec
import ChythonModel.Proofs.C06SkinCycles
import ChythonModel.Proofs.C06Arom
import ChythonModel.Proofs.C06Mol
import ChythonModel.Spec.CycleBasisMin
import ChythonModel.Proofs.C06Exchange
import ChythonModel.Proofs.C06Min
import ChythonModel.Model.C06Pid
import ChythonModel.Proofs.C06PidMain
import ChythonModel.Proofs.C06PidBfsFuel
import ChythonModel.Proofs.C06PidTotal
/-!
# C06 — ring perception returns a minimum cycle basis that ring marks agree with

Every theorem is about the definitions the driver `Drivers/C06.lean` runs (`Model/C06Rings.lean`,
`Spec/CycleBasis.lean`). Proof bodies live in `Proofs/C06*.lean`; this file states the obligations.

Functional models, proved for all inputs: `_connected_components` (`components_partition`), `_skin_graph`
(`skin_terminates`, `skin_is_two_core`), `rings_count` (`rings_count_cyclomatic`), `_canonic_ring`
(`canonic_ring_spec`, `canonic_ring_invariant`), `atoms_rings`/`atoms_rings_sizes`/ring marks (`marks_agree`).
Relational clause: `check_sssr_sound` (with `gauss_rank_sound`) — whatever ring list the checker accepts is a set
of simple cycles of existing non-coordinate bonds, GF(2)-independent, with |E|−|V|+c members.

Round 5: the whole heuristic `_sssr` (`_bfs`, `_make_pid`, `_c_set`, `_rings_filter`, `_connected_rings`, `_get_unique_chord`,
`_is_condensed_ring`) is modelled in `Model/C06Pid.lean`; for every well-formed graph its model emits only simple cycles of
the input graph, no ring twice, exactly `rings_count` of them, and never crashes (`sssr_model_rings_are_simple_cycles`,
`sssr_never_crashes` and the theorems before them).

**Minimality** ("minimum total size", "size multiset independent of numbering") has no ∀-theorem about the heuristic — the
statement is false of the code (recorded gaps, known finding). It is a per-run verdict of a second proved checker: the
exchange criterion over GF(2) (`exchange_criterion`, `minimal_wrt_family`, `minimal_wrt_family_iff`), applied to Horton's
candidate family (`sssr_minimal_wrt_horton`); that some minimum cycle basis is drawn from that family is the explicit, named
hypothesis `HortonComplete` of `sssr_minimum_of_horton_complete`. The greedy reference `minBasis` (certified by
`min_basis_is_cycle_basis`) is kept as a cross-check of the verdict.
-/
namespace ChythonModel.Props.C06
open ChythonModel.Model.C06 ChythonModel.Spec.CycleBasis ChythonModel.Proofs.C06

/-- the executable simple-cycle test decides the declarative clause -/
theorem isCycleOf_iff (g : Adj) (r : List Nat) : isCycleOf g r = true ↔ IsSimpleCycle g r := by
  simp [isCycleOf, IsSimpleCycle, and_assoc]

/-- Gaussian elimination over GF(2) is sound: if it succeeds, no non-trivial combination of the vectors is zero -/
theorem gauss_rank_sound (vs : List Nat) (h : indepCheck vs = true) : Independent vs :=
  indepCheck_sound h

/-- **checker soundness**: a ring list accepted by `checkSssr` consists of simple cycles of existing bonds of `g`
(for `g = notSpecial m`: non-coordinate bonds), its edge-incidence vectors are linearly independent over GF(2),
and it has exactly `|E| − |V| + c` members. -/
theorem check_sssr_sound (g : Adj) (rings : List (List Nat)) (h : checkSssr g rings = true) :
    (∀ r ∈ rings, IsSimpleCycle g r) ∧
    Independent (rings.map (ringVec (edgeList g))) ∧
    cyclomatic g = some (rings.length : Int) := by
  simp only [checkSssr, Bool.and_eq_true, List.all_eq_true, beq_iff_eq] at h
  obtain ⟨⟨h1, h2⟩, h3⟩ := h
  exact ⟨fun r hr => (isCycleOf_iff g r).1 (h1 r hr), indepCheck_sound h3, h2⟩

/-- **checker completeness**: the checker rejects nothing that satisfies the three clauses — it decides them, so a
correct ring set can never raise an alarm through the checker -/
theorem check_sssr_complete (g : Adj) (rings : List (List Nat))
    (h1 : ∀ r ∈ rings, IsSimpleCycle g r) (h2 : Independent (rings.map (ringVec (edgeList g))))
    (h3 : cyclomatic g = some (rings.length : Int)) : checkSssr g rings = true := by
  simp only [checkSssr, Bool.and_eq_true, List.all_eq_true, beq_iff_eq]
  exact ⟨⟨fun r hr => (isCycleOf_iff g r).2 (h1 r hr), h3⟩, (indepCheck_iff _).2 h2⟩

/-- **what a green relational check certifies about a molecule**: if the checker accepts the ring list reported for a
well-formed molecule `m` (run on `not_special_connectivity`), then the list has exactly `rings_count` members — bonds minus
atoms plus components, coordinate bonds ignored —, every member is a simple cycle all of whose bonds exist in `m` with
order ≠ 8, and the members are linearly independent over GF(2). -/
theorem certified_ring_set (m : ChythonModel.Model.Mol) (hwf : m.WF = true) (rings : List (List Nat))
    (hc : checkSssr (notSpecial m) rings = true) :
    ringsCount m = some (rings.length : Int) ∧
    (∀ r ∈ rings, 3 ≤ r.length ∧ r.Nodup ∧
      ∀ ab ∈ cyclePairs r, ∃ bd, m.bond? ab.1 ab.2 = some bd ∧ bd.order ≠ 8) ∧
    Independent (rings.map (ringVec (edgeList (notSpecial m)))) := by
  obtain ⟨h1, h2, h3⟩ := check_sssr_sound _ _ hc
  refine ⟨?_, fun r hr => ⟨(h1 r hr).1, (h1 r hr).2.1, ring_bonds_exist hwf (h1 r hr)⟩, h2⟩
  rw [ringsCount_eq_cyclomatic m hwf]; exact h3

/-- a simple cycle uses each of its bonds once -/
theorem cycle_edges_distinct (r : List Nat) (h3 : 3 ≤ r.length) (hnd : r.Nodup) : (cycleEdges r).Nodup :=
  cycleEdges_nodup r h3 hnd

/-- **meaning of the vectors in `check_sssr_sound`**: for a simple cycle whose bonds all occur in the duplicate-free
edge list `E`, bit `i` of `ringVec E r` is set iff the `i`-th bond of `E` is a bond of the cycle — `ringVec E r` is the
GF(2) edge-incidence vector of the ring, and `Independent` is linear independence in the cycle space. -/
theorem ring_vec_is_incidence_vector (E : List (Nat × Nat)) (hE : E.Nodup) (r : List Nat) (h3 : 3 ≤ r.length)
    (hnd : r.Nodup) (hsub : ∀ e ∈ cycleEdges r, e ∈ E) (i : Nat) (hi : i < E.length) :
    (ringVec E r).testBit i = true ↔ E[i] ∈ cycleEdges r :=
  ringVec_testBit E hE r h3 hnd hsub i hi

example : ringVec [(1, 2), (1, 4), (2, 3), (3, 4), (1, 3)] [1, 2, 3, 4] = 0b01111 ∧
    cycleEdges [1, 2, 3, 4] = [(1, 2), (2, 3), (3, 4), (1, 4)] := by decide

/-- the verdict the driver reports is `ok` exactly when the Boolean checker accepts -/
theorem verdict_ok_iff (g : Adj) (rings : List (List Nat)) : checkSssrV g rings = .ok ↔ checkSssr g rings = true := by
  unfold checkSssrV checkSssr
  cases hf : (List.range rings.length).find? fun i => !isCycleOf g (rings.getD i []) with
  | some i =>
    have hi := List.find?_some hf
    have hm := List.mem_of_find?_eq_some hf
    simp only [List.mem_range] at hm
    simp only [Bool.not_eq_eq_eq_not, Bool.not_true] at hi
    have : rings.all (isCycleOf g) = false := by
      rw [List.all_eq_false]
      refine ⟨rings[i], List.getElem_mem hm, ?_⟩
      simpa [List.getD_eq_getElem?_getD, List.getElem?_eq_getElem hm] using hi
    simp [this]
  | none =>
    have hall : rings.all (isCycleOf g) = true := by
      rw [List.all_eq_true]
      intro r hr
      obtain ⟨i, hi, rfl⟩ := List.getElem_of_mem hr
      have := List.find?_eq_none.1 hf i (List.mem_range.2 hi)
      simpa [List.getD_eq_getElem?_getD, List.getElem?_eq_getElem hi] using this
    simp only [hall, Bool.true_and]
    cases hc : cyclomatic g with
    | none => simp
    | some mu =>
      by_cases hmu : (rings.length : Int) = mu
      · subst hmu
        cases hi : indepCheck (rings.map (ringVec (edgeList g))) <;> simp
      · have : ¬ (mu = (rings.length : Int)) := fun e => hmu e.symm
        simp [hmu, this]

/-- the reference basis used for the size-multiset clause is always a checked cycle basis of the graph -/
theorem min_basis_is_cycle_basis (g : Adj) (B : List (List Nat)) (h : minBasis g = some B) :
    (∀ r ∈ B, IsSimpleCycle g r) ∧ Independent (B.map (ringVec (edgeList g))) ∧
    cyclomatic g = some (B.length : Int) := by
  unfold minBasis at h
  split at h
  · cases h
  · next mu hmu =>
    simp only at h
    split at h
    · next hc => simp only [Option.some.injEq] at h; subst h; exact check_sssr_sound g _ hc
    · cases h

/-- hypotheses are satisfiable: the two four-rings of bicyclo[2.2.0]hexane are accepted, and a dependent set is not -/
example :
    let g : Adj := [(1, [2, 6, 4]), (2, [1, 3]), (3, [2, 4]), (4, [3, 5, 1]), (5, [4, 6]), (6, [5, 1])]
    checkSssr g [[1, 2, 3, 4], [1, 4, 5, 6]] = true ∧ checkSssr g [[1, 2, 3, 4], [2, 3, 4, 1]] = false ∧
    checkSssr g [[1, 2, 3, 4]] = false ∧ checkSssr g [[1, 2, 3, 4], [1, 3, 5, 6]] = false := by decide

/-! ## the PID-matrix stage of `_sssr` (`Model/C06Pid.lean`): what the heuristic's model returns, for every graph -/

/-- `_bfs`: every reported path is a walk of the graph (consecutive atoms bonded) with at least two atoms — any input -/
theorem bfs_paths_are_walks (g : Adj) (ps : List Path) (h : ChythonModel.Model.C06.bfsPaths g = some ps) :
    ∀ p ∈ ps, Walk g p ∧ 2 ≤ p.length :=
  bfsPaths_walks g ps h

/-- the `while True:` loop of `_bfs` ends within the model's fuel on every non-empty graph (the only other way for the model
to answer `none` is Python's `KeyError` of `set().pop()` on an empty graph) -/
theorem bfs_terminates (g : Adj) (hne : g ≠ []) : (ChythonModel.Model.C06.bfsPaths g).isSome = true :=
  bfsPaths_isSome g hne

/-- `_make_pid`: whatever is stored under `pid1[i][j]` / `pid2[i][j]` (first loop and the Floyd–Warshall-like triple loop
with its path concatenations) is a walk of the graph from `i` to `j` -/
theorem make_pid_stores_walks (g : Adj) (hsym : symAdj g = true) (paths : List Path)
    (hp : ∀ p ∈ paths, Walk g p ∧ 2 ≤ p.length) (p1 : Pid1) (p2 : Pid2) (d : Dist)
    (h : makePid paths = some (p1, p2, d)) : PidOK g p1 p2 :=
  makePid_ok g (sym_of_symAdj hsym) paths hp h

/-- `_make_pid` never produces the degenerate "ring" that walks one bond twice: `pid2` holds no two-atom path and every
cell of `pid1` holds at most one (the bond itself) -/
theorem make_pid_no_double_bond (g : Adj) (hwf : wfAdj g = true) (hsym : symAdj g = true) (paths : List Path)
    (hp : ∀ p ∈ paths, Walk g p ∧ 2 ≤ p.length) (p1 : Pid1) (p2 : Pid2) (d : Dist)
    (h : makePid paths = some (p1, p2, d)) : NoDoubleBond p1 p2 :=
  ⟨makePid_one_short g (sym_of_symAdj hsym) paths hp h,
    makePid_p2_long g (sym_of_symAdj hsym) (no_loop_of_wfAdj hwf) paths hp h⟩

/-- **every candidate ring is a simple cycle**: each ring the generator `_c_set(*_make_pid(_bfs(_skin_graph(bonds))))`
yields is a closed path of the *input* graph without repeated atom, consecutive atoms bonded, ≥ 3 atoms -/
theorem candidates_are_simple_cycles (g : Adj) (hwf : wfAdj g = true) (hsym : symAdj g = true)
    (cands : List (Option Ring)) (h : pidCandidates g = some cands) : ∀ r, some r ∈ cands → IsSimpleCycle g r :=
  sssrTrace_cands_cycles hwf hsym (p2LongFor_of_wf hwf hsym) 0 h

/-- **the candidate generator never raises**: on a well-formed symmetric graph whose pruned graph is not empty (i.e. that has a
ring) `_skin_graph`, `_bfs` and `_make_pid` all return, and no element of the sequence `_c_set` generates is an exception —
`_canonic_ring` is only applied to closed trails of ≥ 3 atoms and an odd `c_num` always comes with a `pid2` cell -/
theorem candidate_generator_never_raises (g : Adj) (hwf : wfAdj g = true) (hsym : symAdj g = true)
    (hskin : ∀ s, skinGraph g = some s → s ≠ []) : ∃ cands, pidCandidates g = some cands ∧ none ∉ cands :=
  pidCandidates_total hwf hsym hskin

example :
    let g : Adj := [(1, [2, 3, 4]), (2, [1, 3]), (3, [2, 1, 4]), (4, [3, 1, 5]), (5, [4])]
    ∀ s, skinGraph g = some s → s ≠ [] := by decide

/-- `_rings_filter` returns exactly `n_sssr` rings, pairwise different, each one produced by the candidate generator
(it never invents a ring: the merged contours of `_connected_rings` are only used as a filter) -/
theorem rings_filter_spec (cands : List (Option Ring)) (n : Nat) (out : List Ring) (h : ringsFilter cands n = .ok out) :
    out.length = n ∧ out.Nodup ∧ ∀ r ∈ out, some r ∈ cands :=
  ⟨ringsFilter_length_any h, ringsFilter_nodup h, ringsFilter_subset h⟩

/-- **`_sssr` never crashes**: on a well-formed symmetric graph with a non-empty pruned graph the model of `_sssr(bonds, n)`
answers `ok …` or `notReached` (the library's `ImplementationError('SSSR count not reached')`), for every `n` — the only
other exception it can raise is `StopIteration` of `next(rings)` when the candidate generator yields nothing at all.
(`_ring_scissors`, `_canonic_ring`, `_ring_adjacency`, `_get_unique_chord` inside `_connected_rings` / `_is_condensed_ring`
are only ever applied where they are defined; merged contours stay duplicate-free rings of ≥ 3 atoms.) -/
theorem sssr_never_crashes (g : Adj) (hwf : wfAdj g = true) (hsym : symAdj g = true)
    (hskin : ∀ s, skinGraph g = some s → s ≠ []) (n : Nat) (h : sssrPid g n = .raised) : pidCandidates g = some [] :=
  sssrPid_raised_only_without_candidates hwf hsym hskin h

/-- the filter stage alone: with at least one candidate, all of them duplicate-free rings of ≥ 3 atoms, `_rings_filter`
does not raise anything but `ImplementationError` -/
theorem rings_filter_never_crashes (cands : List (Option Ring)) (hc : ∀ x ∈ cands, ∃ r, x = some r ∧ GoodRing r)
    (hne : cands ≠ []) (n : Nat) : ringsFilter cands n ≠ .raised :=
  ringsFilter_no_raise hc hne n

/-- **`_sssr` on any graph**: whenever the model of `_sssr(bonds, n)` returns, it returns `n` pairwise different rings and
every one of them is a simple cycle of `bonds` -/
theorem sssr_pid_rings_are_simple_cycles (g : Adj) (hwf : wfAdj g = true) (hsym : symAdj g = true) (n : Nat)
    (out : List Ring) (h : sssrPid g n = .ok out) : (∀ r ∈ out, IsSimpleCycle g r) ∧ out.Nodup ∧ out.length = n :=
  sssrPid_spec hwf hsym h

/-- **`Rings.sssr` of a molecule**: for every well-formed molecule, whenever the model of `mol.sssr` returns a ring list,
every ring is a simple cycle all of whose bonds exist in the molecule with order ≠ 8, no ring is listed twice, and the
number of rings is `rings_count` = the cyclomatic number `|E| − |V| + c` of the molecule without its coordinate bonds
(never more). Two of the checker's three clauses (`check_sssr_sound`) are thereby theorems about the model of the
heuristic; GF(2)-independence and minimality remain per-run verdicts of the proved checkers. -/
theorem sssr_model_rings_are_simple_cycles (m : ChythonModel.Model.Mol) (hwf : m.WF = true) (out : List Ring)
    (h : sssrModel m = .ok out) :
    (∀ r ∈ out, IsSimpleCycle (notSpecial m) r ∧
      ∀ ab ∈ cyclePairs r, ∃ bd, m.bond? ab.1 ab.2 = some bd ∧ bd.order ≠ 8) ∧
    out.Nodup ∧
    ∃ rc : Int, ringsCount m = some rc ∧ cyclomatic (notSpecial m) = some rc ∧ out.length = rc.toNat ∧
      (out.length : Int) ≤ max rc 0 := by
  obtain ⟨h1, h2, rc, h3, h4⟩ := sssrModel_spec m hwf h
  refine ⟨fun r hr => ⟨h1 r hr, ring_bonds_exist hwf (h1 r hr)⟩, h2, rc, h3, ?_, h4, by omega⟩
  rw [← ringsCount_eq_cyclomatic m hwf]; exact h3

/-- **what is left to the per-run checker**: on the ring list the model of `mol.sssr` returns, `checkSssr` accepts exactly when
the rings are GF(2)-independent — the simple-cycle and count clauses hold by `sssr_model_rings_are_simple_cycles`
(`rings_count ≥ 0` is the only side condition; it is what `rings_count_cyclomatic` computes for a real molecule) -/
theorem sssr_model_checker_verdict_is_independence (m : ChythonModel.Model.Mol) (hwf : m.WF = true) (out : List Ring)
    (h : sssrModel m = .ok out) (hnn : ∀ rc, ringsCount m = some rc → 0 ≤ rc) :
    checkSssr (notSpecial m) out = true ↔ Independent (out.map (ringVec (edgeList (notSpecial m)))) := by
  constructor
  · exact fun hc => (check_sssr_sound _ _ hc).2.1
  · intro hi
    obtain ⟨h1, _, rc, h3, h4, h5, _⟩ := sssr_model_rings_are_simple_cycles m hwf out h
    refine check_sssr_complete _ _ (fun r hr => (h1 r hr).1) hi ?_
    have := hnn rc h3
    rw [h4]
    congr 1
    omega

/-- non-vacuous: bicyclo[1.1.0]butane with a methyl group (the tail is pruned, four candidates are generated, two rings are
kept); and a three-ring whose second ring would close over a coordinate bond: one ring is reported -/
example :
    let g : Adj := [(1, [2, 3, 4]), (2, [1, 3]), (3, [2, 1, 4]), (4, [3, 1, 5]), (5, [4])]
    wfAdj g = true ∧ symAdj g = true ∧
    pidCandidates g = some [some [1, 2, 3], some [1, 3, 4], some [1, 3, 4], some [1, 3, 4]] ∧
    sssrPid g 2 = .ok [[1, 2, 3], [1, 3, 4]] ∧ sssrPid g 3 = .notReached := by decide

example :
    let b1 : ChythonModel.Model.Bond := ⟨1, none⟩
    let b8 : ChythonModel.Model.Bond := ⟨8, none⟩
    let m : ChythonModel.Model.Mol := ⟨[(1, {z := 6}), (2, {z := 6}), (3, {z := 6}), (4, {z := 26})],
      [(1, [(2, b1), (3, b1), (4, b8)]), (2, [(1, b1), (3, b1)]), (3, [(2, b1), (1, b1), (4, b1)]), (4, [(1, b8), (3, b1)])]⟩
    m.WF = true ∧ sssrModel m = .ok [[1, 2, 3]] := by decide

/-! ## minimality: the exchange criterion over GF(2) and the checker `checkMinimalWrt` -/

/-- **exchange criterion (matroid greedy optimality over GF(2))**: `B` a list of weighted vectors; every member `(w, v)` of
the family `F` is a GF(2) sum of members of `B` of weight `≤ w` (`SpanLE`). Then no independent `B'` drawn from `F` with as
many members as `B` (i.e. no other basis of the same space taken from `F`) has smaller total weight than `B`. -/
theorem exchange_criterion (B F : List WVec) (hB : Independent (B.map (·.2))) (hF : ∀ c ∈ F, SpanLE B c.1 c.2)
    (B' : List WVec) (hsub : ∀ c ∈ B', c ∈ F) (hB' : Independent (B'.map (·.2))) (hlen : B'.length = B.length) :
    totalLen B ≤ totalLen B' :=
  exchange_minimal B F hB hF B' hsub hB' hlen

/-- the executable membership test decides `SpanLE` on an independent `B` (sound for every `B`) -/
theorem in_span_le_decides (B : List WVec) (w v : Nat) :
    (inSpanLE B w v = true → SpanLE B w v) ∧
    (Independent (B.map (·.2)) → SpanLE B w v → inSpanLE B w v = true) :=
  ⟨inSpanLE_sound, fun hB h => inSpanLE_complete hB h⟩

/-- **`checkMinimalWrt` is a proved checker**: if it accepts, `B` is minimum among the independent same-size sub-families
of `F` -/
theorem minimal_wrt_family (B F : List WVec) (hB : Independent (B.map (·.2))) (hc : checkMinimalWrt B F = true)
    (B' : List WVec) (hsub : ∀ c ∈ B', c ∈ F) (hB' : Independent (B'.map (·.2))) (hlen : B'.length = B.length) :
    totalLen B ≤ totalLen B' :=
  checkMinimalWrt_sound B F hB hc B' hsub hB' hlen

/-- … and it rejects nothing that is minimal: for independent `B` spanning `F` the checker accepts **iff** no independent
same-size `B' ⊆ B ++ F` is lighter (so a rejection is a proved "not minimal", never a false alarm of the checker) -/
theorem minimal_wrt_family_iff (B F : List WVec) (hB : Independent (B.map (·.2)))
    (hspan : ∀ c ∈ F, Span (B.map (·.2)) c.2) :
    checkMinimalWrt B F = true ↔
      ∀ B' : List WVec, (∀ c ∈ B', c ∈ B ++ F) → Independent (B'.map (·.2)) → B'.length = B.length →
        totalLen B ≤ totalLen B' :=
  checkMinimalWrt_iff B F hB hspan

/-- **what the verdict `minw=1` of the driver certifies**: a ring list accepted by `checkSssr` and by `checkMinimalHorton`
has minimum total size among all independent ring lists of the same length drawn from Horton's candidate family -/
theorem sssr_minimal_wrt_horton (g : Adj) (rings : List (List Nat)) (hc : checkSssr g rings = true)
    (hm : checkMinimalHorton g rings = true) (R' : List (List Nat)) (hsub : ∀ r ∈ R', r ∈ hortonFamily g)
    (hi' : Independent (R'.map (ringVec (edgeList g)))) (hlen : R'.length = rings.length) :
    totalSize rings ≤ totalSize R' :=
  sssr_minimal_wrt_horton_proof g rings (check_sssr_sound g rings hc).2.1 hm R' hsub hi' hlen

/-- **minimum cycle basis, modulo Horton completeness** (`HortonComplete g`: the explicit, named, unproved hypothesis that
some minimum cycle basis is drawn from `hortonFamily g`): under it an accepted ring list is a minimum cycle basis — its
total size is ≤ that of *every* cycle basis of `g`. -/
theorem sssr_minimum_of_horton_complete (g : Adj) (rings : List (List Nat)) (hH : HortonComplete g)
    (hc : checkSssr g rings = true) (hm : checkMinimalHorton g rings = true) (R : List (List Nat))
    (hR : IsCycleBasis g R) : totalSize rings ≤ totalSize R :=
  sssr_minimum_of_horton_complete_proof g rings hH (check_sssr_sound g rings hc) hm R hR

/-- non-vacuous: in bicyclo[2.2.0]hexane the two four-rings pass, the basis {four-ring, six-ring} is a cycle basis that the
exchange checker rejects (the other four-ring of the family is not a sum of members of size ≤ 4) -/
example :
    let g : Adj := [(1, [2, 6, 4]), (2, [1, 3]), (3, [2, 4]), (4, [3, 5, 1]), (5, [4, 6]), (6, [5, 1])]
    checkSssr g [[1, 2, 3, 4], [1, 4, 5, 6]] = true ∧ checkMinimalHorton g [[1, 2, 3, 4], [1, 4, 5, 6]] = true ∧
    checkSssr g [[1, 2, 3, 4], [1, 2, 3, 4, 5, 6]] = true ∧
    checkMinimalHorton g [[1, 2, 3, 4], [1, 2, 3, 4, 5, 6]] = false ∧ (hortonFamily g).length = 10 := by decide

/-! ## `_connected_components` -/

/-- On a well-formed symmetric adjacency dict the BFS terminates within the model's fuel and returns a partition
of the atoms into non-empty duplicate-free blocks; two atoms share a block iff they are connected. -/
theorem components_partition (g : Adj) (hwf : wfAdj g = true) (hsym : symAdj g = true) :
    ∃ cs, connectedComponents g = some cs ∧
      (∀ a, a ∈ keys g ↔ ∃ c ∈ cs, a ∈ c) ∧
      cs.Pairwise (fun c d => ∀ a, a ∈ c → a ∉ d) ∧
      (∀ c ∈ cs, c ≠ [] ∧ c.Nodup) ∧
      (∀ c ∈ cs, ∀ a ∈ c, ∀ b, b ∈ c ↔ Reach g a b) :=
  components_partition_proof g hwf hsym

example : wfAdj [(1, [2, 3]), (2, [1, 3]), (3, [1, 2]), (4, [5]), (5, [4])] = true ∧
    symAdj [(1, [2, 3]), (2, [1, 3]), (3, [1, 2]), (4, [5]), (5, [4])] = true ∧
    connectedComponents [(1, [2, 3]), (2, [1, 3]), (3, [1, 2]), (4, [5]), (5, [4])] = some [[1, 2, 3], [4, 5]] := by
  decide

/-! ## `rings_count` -/

/-- handshake lemma on the model's adjacency: `sum(len(x) for x in bonds.values())` is twice the number of bonds -/
theorem degree_sum_twice_bonds (g : Adj) (hwf : wfAdj g = true) (hsym : symAdj g = true) :
    degreeSum g = 2 * (edgeList g).length := degreeSum_eq_two_edges g hwf hsym

/-- removing the coordinate (order 8) bonds of a well-formed molecule leaves a well-formed symmetric adjacency,
so every theorem with `wfAdj`/`symAdj` hypotheses applies to `not_special_connectivity` -/
theorem not_special_wellformed (m : ChythonModel.Model.Mol) (h : m.WF = true) :
    wfAdj (notSpecial m) = true ∧ symAdj (notSpecial m) = true := notSpecial_wf m h

/-- **`rings_count` is the cyclomatic number** `|E| − |V| + c` of the molecule without its coordinate bonds, and it
is a number (the component search terminates), for every well-formed molecule -/
theorem rings_count_cyclomatic (m : ChythonModel.Model.Mol) (h : m.WF = true) :
    ringsCount m = cyclomatic (notSpecial m) ∧ (ringsCount m).isSome = true := by
  refine ⟨ringsCount_eq_cyclomatic m h, ?_⟩
  have hw := (notSpecial_wf m h).1
  have := components_fuel_suffices (notSpecial m) hw
  simpa [ringsCount, ringsCountAdj] using this

/-- non-vacuous: a three-ring whose atom 1 also carries a coordinate bond to atom 4 that closes a second ring
through 4–3; the coordinate bond is ignored, one ring is counted -/
example :
    let b1 : ChythonModel.Model.Bond := ⟨1, none⟩
    let b8 : ChythonModel.Model.Bond := ⟨8, none⟩
    let m : ChythonModel.Model.Mol := ⟨[(1, {z := 6}), (2, {z := 6}), (3, {z := 6}), (4, {z := 26})],
      [(1, [(2, b1), (3, b1), (4, b8)]), (2, [(1, b1), (3, b1)]), (3, [(2, b1), (1, b1), (4, b1)]), (4, [(1, b8), (3, b1)])]⟩
    m.WF = true ∧ ringsCount m = some 1 ∧ ringsCountAdj (fullAdj m) = some 2 := by decide

/-! ## `_skin_graph` -/

/-- the `while True:` loop of `_skin_graph` always terminates within the model's fuel (any input) -/
theorem skin_terminates (g : Adj) : (skinGraph g).isSome = true := skinGraph_isSome g

/-- `_skin_graph` returns the 2-core: a subgraph of the input in which every atom keeps ≥ 2 neighbours, and it is
the largest such — any atom set `S` whose members all have ≥ 2 neighbours inside `S` (in particular the atoms of
any cycle) survives with all its internal bonds. -/
theorem skin_is_two_core (g s : Adj) (hn : (keys g).Nodup) (h : skinGraph g = some s) :
    (∀ p ∈ s, 2 ≤ p.2.length) ∧
    (∀ p ∈ s, ∃ q ∈ g, q.1 = p.1 ∧ ∀ k ∈ p.2, k ∈ q.2) ∧
    (keys s).Nodup ∧
    (∀ S : List Nat, (∀ a ∈ S, 2 ≤ ((nbrsOf g a).filter (S.contains ·)).length) →
      ∀ a ∈ S, a ∈ keys s ∧ ∀ b ∈ S, b ∈ nbrsOf g a → b ∈ nbrsOf s a) :=
  ⟨skin_min_degree h, skin_sub h, skin_keys_nodup hn h, fun S hS => skin_keeps hn h S hS⟩

/-- **pruning loses no ring**: on a well-formed symmetric graph the simple cycles of the input are exactly the simple
cycles of `_skin_graph`'s result, so `_sssr` may search the pruned graph -/
theorem skin_keeps_all_cycles (g s : Adj) (hwf : wfAdj g = true) (hsym : symAdj g = true)
    (h : skinGraph g = some s) (r : List Nat) : IsSimpleCycle g r ↔ IsSimpleCycle s r :=
  skin_preserves_cycles g s hwf hsym h r

/-- non-vacuous: cyclobutane with a two-atom tail; the tail is pruned, the ring (S = [1,2,3,4]) survives -/
example :
    let g : Adj := [(1, [2, 4, 5]), (2, [1, 3]), (3, [2, 4]), (4, [3, 1]), (5, [1, 6]), (6, [5])]
    skinGraph g = some [(1, [2, 4]), (2, [1, 3]), (3, [2, 4]), (4, [3, 1])] ∧
    (∀ a ∈ [1, 2, 3, 4], 2 ≤ ((nbrsOf g a).filter ([1, 2, 3, 4].contains ·)).length) := by decide

/-! ## `_canonic_ring` -/

/-- On a simple ring (≥ 3 distinct atoms) `_canonic_ring` returns the same cyclic sequence read from its minimum in
the direction whose second atom is the smaller neighbour. -/
theorem canonic_ring_spec (r : List Nat) (h3 : 3 ≤ r.length) (hnd : r.Nodup) :
    ∃ c, canonicRing r = some c ∧ IsDihedral r c ∧ c.head? = minOf r ∧ c.getD 1 0 < c.getD (c.length - 1) 0 :=
  canonic_ring_spec_proof r h3 hnd

/-- The canonical form does not depend on where and in which direction the ring is written: equal rings are
recognised as equal (`c in seen_rings`, `c == mc` in `_rings_filter`/`_is_condensed_ring`). -/
theorem canonic_ring_invariant (r r' : List Nat) (h3 : 3 ≤ r.length) (hnd : r.Nodup) (h : IsDihedral r r') :
    canonicRing r' = canonicRing r :=
  canonic_ring_invariant_proof r r' h3 hnd h

/-- error branches of the Python (`min(())` → ValueError, `ring[1]` on a 1-tuple → IndexError) are `none` -/
theorem canonic_ring_error_branches : canonicRing [] = none ∧ ∀ x, canonicRing [x] = none := canonic_ring_raises

example : canonicRing [5, 3, 9, 1, 7] = some [1, 7, 5, 3, 9] ∧ canonicRing [3, 5, 7, 1, 9] = some [1, 7, 5, 3, 9] ∧
    IsDihedral [5, 3, 9, 1, 7] [3, 5, 7, 1, 9] := by
  refine ⟨by decide, by decide, 2, by decide, Or.inr (by decide)⟩

/-! ## `atoms_rings`, `atoms_rings_sizes`, ring marks of `calc_labels` -/

/-- `atoms_rings[n]` lists exactly the reported rings through `n`; `n` is a key iff there is one -/
theorem atoms_rings_spec (sssr : List Ring) (n : Nat) :
    (∀ r, r ∈ ((atomsRings sssr).lookup n).getD [] ↔ r ∈ sssr ∧ n ∈ r) ∧
    ((atomsRings sssr).any (·.1 == n) = true ↔ ∃ r ∈ sssr, n ∈ r) :=
  ⟨atomsRings_mem sssr n, atomsRings_key sssr n⟩

/-- `atoms_rings_sizes[n]` is the duplicate-free set of sizes of the reported rings through `n` -/
theorem atoms_rings_sizes_spec (sssr : List Ring) (n : Nat) :
    (∀ s, s ∈ ((atomsRingsSizes sssr).lookup n).getD [] ↔ ∃ r ∈ sssr, n ∈ r ∧ r.length = s) ∧
    (((atomsRingsSizes sssr).lookup n).getD []).Nodup :=
  ⟨atomsRingsSizes_mem sssr n, atomsRingsSizes_nodup sssr n⟩

/-- **marks agree**: for every adjacency row `p` of the molecule, `calc_labels` writes `atom.in_ring` iff a reported
ring passes through the atom, `atom.ring_sizes` = the set of sizes of those rings, and for each neighbour `k`
`bond.in_ring` iff some reported ring contains both end points. -/
theorem marks_agree (m : ChythonModel.Model.Mol) (sssr : List Ring) :
    ringMarks m sssr = m.adj.map (markOf sssr) ∧
    ∀ p ∈ m.adj,
      (markOf sssr p).n = p.1 ∧
      ((markOf sssr p).inRing = true ↔ ∃ r ∈ sssr, p.1 ∈ r) ∧
      (∀ s, s ∈ (markOf sssr p).ringSizes ↔ ∃ r ∈ sssr, p.1 ∈ r ∧ r.length = s) ∧
      (markOf sssr p).ringSizes.Nodup ∧
      (markOf sssr p).bonds.map (·.1) = p.2.map (·.1) ∧
      (∀ kb ∈ (markOf sssr p).bonds, (kb.2 = true ↔ ∃ r ∈ sssr, p.1 ∈ r ∧ kb.1 ∈ r)) :=
  ⟨ringMarks_eq m sssr, fun p _ => markOf_spec sssr p⟩

/-- non-vacuous: cyclopropane with a methyl group, reported ring (1,2,3) -/
example :
    let m : ChythonModel.Model.Mol := ⟨[(1, {z := 6}), (2, {z := 6}), (3, {z := 6}), (4, {z := 6})],
      [(1, [(2, ⟨1, none⟩), (3, ⟨1, none⟩), (4, ⟨1, none⟩)]), (2, [(1, ⟨1, none⟩), (3, ⟨1, none⟩)]),
       (3, [(2, ⟨1, none⟩), (1, ⟨1, none⟩)]), (4, [(1, ⟨1, none⟩)])]⟩
    ringMarks m [[1, 2, 3]] =
      [⟨1, true, [3], [(2, true), (3, true), (4, false)]⟩, ⟨2, true, [3], [(1, true), (3, true)]⟩,
       ⟨3, true, [3], [(2, true), (1, true)]⟩, ⟨4, false, [], [(1, false)]⟩] := by decide

/-! ## `aromatic_rings` -/

/-- `aromatic_rings` is the sub-list (same order) of the reported rings all of whose looked-up bonds
(`ring[0]–ring[-1]`, then consecutive atoms) exist and have order 4; and it does not raise when the reported rings
are non-empty and bonded -/
theorem aromatic_rings_spec (m : ChythonModel.Model.Mol) (sssr : List Ring) :
    (∀ out, aromaticRings m sssr = some out →
      out.Sublist sssr ∧ ∀ r, r ∈ out ↔ r ∈ sssr ∧ r ≠ [] ∧ AllOrder4 m r) ∧
    ((∀ r ∈ sssr, r ≠ [] ∧ ∀ ab ∈ ringBondPairs r, (m.bond? ab.1 ab.2).isSome = true) →
      (aromaticRings m sssr).isSome = true) :=
  ⟨fun _ h => aromaticRings_spec h, aromaticRings_isSome⟩

/-- non-vacuous: a three-ring with aromatic bonds fused to a three-ring with one single bond; a ring with a missing
bond makes the Python raise (`none`) -/
example :
    let a : ChythonModel.Model.Bond := ⟨4, none⟩
    let s : ChythonModel.Model.Bond := ⟨1, none⟩
    let m : ChythonModel.Model.Mol := ⟨[(1, {z := 6}), (2, {z := 6}), (3, {z := 6}), (4, {z := 6})],
      [(1, [(2, a), (3, a)]), (2, [(1, a), (3, a), (4, s)]), (3, [(1, a), (2, a), (4, a)]), (4, [(2, s), (3, a)])]⟩
    aromaticRings m [[1, 2, 3], [2, 3, 4]] = some [[1, 2, 3]] ∧ aromaticRings m [[1, 2, 4]] = none := by decide

end ChythonModel.Props.C06
