import ChythonModel.Model.C06Rings
import ChythonModel.Spec.CycleBasis
/-!
# C06 — ring perception returns a minimum cycle basis that ring marks agree with
-/
namespace ChythonModel.Props.C06
open ChythonModel.Model.C06 ChythonModel.Spec.CycleBasis

/-- the executable simple-cycle test decides the declarative clause -/
theorem isCycleOf_iff (g : Adj) (r : List Nat) : isCycleOf g r = true ↔ IsSimpleCycle g r := by
  simp [isCycleOf, IsSimpleCycle, and_assoc]

end ChythonModel.Props.C06
