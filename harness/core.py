"""Core of the check runner (DESIGN.md §3.1).

One run of `./check Cxx --tier T`:
  1. regenerate the Gen/*.lean files the property depends on from /repo's working tree (translators)
  2. lake build the property's modules and its driver
  3. audit: forbidden tokens, `#print axioms` of every theorem in Props/Cxx.lean
  4. correspondence / relational checks (model vs implementation)
  5. failing-input search when 1-4 broke
  6. standing probes of known findings and of fixed findings (regression corpus)
  7. classify, print KNOWN-FINDING / VIOLATION lines, write evidence/Cxx.json
Exit codes: 0 held, 1 violation, 2 infrastructure error / timeout.
"""
import fcntl
import hashlib
import json
import os
import random
import re
import subprocess
import sys
import time
import traceback
from pathlib import Path

VERIF = Path(__file__).resolve().parent.parent
REPO = Path(os.environ.get('CHYTHON_REPO', '/repo'))
LEAN = VERIF / 'lean'
EVID = VERIF / 'evidence'
REPLAYS = VERIF / 'replays'
ALLOWED_AXIOMS = {'propext', 'Classical.choice', 'Quot.sound'}
FORBIDDEN = [r'\bsorry\b', r'\badmit\b', r'^\s*axiom\b', r'\bnative_decide\b', r'\bbv_decide\b',
             r'\bimplemented_by\b', r'\bunsafe\b', r'maxHeartbeats\s+0\b', r'\bextern\b']


class Broken:
    """A proof obligation / translator / correspondence stream that no longer checks."""

    def __init__(self, kind, name, detail=''):
        self.kind, self.name, self.detail = kind, name, detail

    def as_dict(self):
        return {'kind': self.kind, 'name': self.name, 'detail': self.detail[:4000]}


class Failure:
    """A concrete input on which the *property* fails on the real code."""

    def __init__(self, signature, what, input):
        self.signature, self.what, self.input = signature, what, input

    def as_dict(self):
        return {'signature': self.signature, 'what': self.what, 'input': self.input}


class Ctx:
    def __init__(self, pid, tier, seed):
        self.pid, self.tier, self.seed = pid, tier, seed
        self.rng = random.Random(seed)
        self.t0 = time.time()
        self.broken = []          # list[Broken]
        self.failures = []        # list[Failure]
        self.cov = {'evaluations': 0, 'distinct_nontrivial': 0, 'samples': [], 'programs': 0,
                    'disagreements_checked': 0, 'distribution': {}}
        self.notes = []
        self._distinct = set()

    # -- measured coverage -------------------------------------------------------------------
    def count(self, case_key, nontrivial=True, n=1):
        """Record one evaluated case. `case_key` is hashed to count DISTINCT non-trivial cases."""
        self.cov['evaluations'] += n
        if nontrivial:
            h = hashlib.blake2b(repr(case_key).encode(), digest_size=8).digest()
            self._distinct.add(h)

    def sample(self, obj, limit=6):
        if len(self.cov['samples']) < limit:
            self.cov['samples'].append(obj)

    def dist(self, key, n=1):
        d = self.cov['distribution']
        d[key] = d.get(key, 0) + n

    def broke(self, kind, name, detail=''):
        self.broken.append(Broken(kind, name, detail))

    def fail(self, signature, what, input):
        self.failures.append(Failure(signature, what, input))

    def elapsed(self):
        return time.time() - self.t0

    @property
    def quick(self):
        return self.tier == 'quick'


# ------------------------------------------------------------------------------------------------
# Lean side
# ------------------------------------------------------------------------------------------------

def write_if_changed(path: Path, text: str):
    path.parent.mkdir(parents=True, exist_ok=True)
    if path.exists() and path.read_text() == text:
        return False
    tmp = path.with_suffix(path.suffix + '.tmp%d' % os.getpid())
    tmp.write_text(text)
    os.replace(tmp, path)
    return True


class LeanLock:
    def __enter__(self):
        self.f = open(LEAN / '.build.lock', 'w')
        fcntl.flock(self.f, fcntl.LOCK_EX)
        return self

    def __exit__(self, *a):
        fcntl.flock(self.f, fcntl.LOCK_UN)
        self.f.close()


def lake_build(targets, timeout=1500):
    """Build module/exe targets. Returns (ok, output)."""
    cmd = ['lake', 'build'] + list(targets)
    with LeanLock():
        p = subprocess.run(cmd, cwd=LEAN, capture_output=True, text=True, timeout=timeout)
    return p.returncode == 0, p.stdout + p.stderr, ' '.join(cmd)


_DECL = re.compile(r'^\s*(?:@\[[^\]]*\]\s*)*(?:private\s+|protected\s+)?(theorem|lemma|def|example|instance|abbrev|structure|inductive)\s+([^\s:({\[]+)?')


def enclosing_decl(path: Path, line: int):
    try:
        lines = path.read_text().splitlines()
    except OSError:
        return None
    for i in range(min(line, len(lines)) - 1, -1, -1):
        m = _DECL.match(lines[i])
        if m:
            return (m.group(1), m.group(2) or '<anonymous>')
    return None


def parse_build_errors(out):
    """Map `error: path:line:col` lines to enclosing declarations."""
    res = []
    for m in re.finditer(r'error: ([^\s:]+\.lean):(\d+):(\d+): (.*)', out):
        p = Path(m.group(1))
        if not p.is_absolute():
            p = LEAN / p
        d = enclosing_decl(p, int(m.group(2)))
        res.append({'file': str(p.relative_to(LEAN)) if str(p).startswith(str(LEAN)) else str(p),
                    'line': int(m.group(2)), 'decl': d[1] if d else None, 'msg': m.group(4)[:300]})
    return res


def strip_comments(src):
    # nested block comments /- -/ and line comments --
    out, i, depth, n = [], 0, 0, len(src)
    while i < n:
        if src.startswith('/-', i):
            depth += 1
            i += 2
        elif depth and src.startswith('-/', i):
            depth -= 1
            i += 2
        elif depth:
            if src[i] == '\n':
                out.append('\n')
            i += 1
        elif src.startswith('--', i):
            while i < n and src[i] != '\n':
                i += 1
        elif src[i] == "'" and i + 2 < n and src[i + 2] == "'" and src[i + 1] != '\\':
            out.append("'c'")  # char literal such as '"' must not open a string
            i += 3
        elif src[i] == "'" and i + 3 < n and src[i + 1] == '\\' and src[i + 3] == "'":
            out.append("'c'")
            i += 4
        elif src[i] == '"':
            j = i + 1
            while j < n and src[j] != '"':
                j += 2 if src[j] == '\\' else 1
            out.append('""')
            out.append('\n' * src.count('\n', i, j))
            i = j + 1
        else:
            out.append(src[i])
            i += 1
    return ''.join(out)


def module_path(mod):
    return LEAN / (mod.replace('.', '/') + '.lean')


def reachable_modules(root_mod):
    seen, todo = [], [root_mod]
    while todo:
        m = todo.pop()
        if m in seen:
            continue
        p = module_path(m)
        if not p.exists():
            continue
        seen.append(m)
        for mm in re.findall(r'^\s*(?:public\s+)?import\s+(ChythonModel\.[\w.]+)', p.read_text(), re.M):
            todo.append(mm)
    return seen


def forbidden_tokens(mods):
    hits = []
    for m in mods:
        src = strip_comments(module_path(m).read_text())
        for ln, line in enumerate(src.splitlines(), 1):
            for pat in FORBIDDEN:
                if re.search(pat, line):
                    hits.append(f'{m}:{ln}: {line.strip()[:120]}')
    return hits


def theorem_names(mod):
    """Fully qualified names of every `theorem` in a Props module (namespace-aware, simple)."""
    src = strip_comments(module_path(mod).read_text())
    ns, names = [], []
    for line in src.splitlines():
        m = re.match(r'^\s*namespace\s+(\S+)', line)
        if m:
            ns.append(m.group(1))
            continue
        m = re.match(r'^\s*end\s+(\S+)\s*$', line)
        if m and ns and ns[-1] == m.group(1):
            ns.pop()
            continue
        m = re.match(r'^\s*(?:@\[[^\]]*\]\s*)*(?:protected\s+)?theorem\s+([^\s:({\[]+)', line)
        if m:
            names.append('.'.join(ns + [m.group(1)]))
    return names


def axiom_audit(pid, prop_mod):
    """Generate Audit/Cxx.lean with `#print axioms` for every theorem; run it; parse."""
    names = theorem_names(prop_mod)
    text = f'import {prop_mod}\n' + ''.join(f'#print axioms {n}\n' for n in names)
    audit = LEAN / 'Audit' / f'{pid}.lean'
    write_if_changed(audit, text)
    cmd = ['lake', 'env', 'lean', str(audit.relative_to(LEAN))]
    with LeanLock():  # reads compiled dependencies: must not race with another check rebuilding a shared module
        p = subprocess.run(cmd, cwd=LEAN, capture_output=True, text=True, timeout=900)
    out = p.stdout + p.stderr
    report = {}
    for m in re.finditer(r"'([^']+)' depends on axioms: \[([^\]]*)\]", out, re.S):
        report[m.group(1)] = sorted(a.strip() for a in m.group(2).replace('\n', ' ').split(',') if a.strip())
    for m in re.finditer(r"'([^']+)' does not depend on any axioms", out):
        report[m.group(1)] = []
    return names, report, out, ' '.join(cmd)


def run_driver(pid, lines, timeout=1200):
    """Pipe request lines to the compiled driver of the property; returns response lines."""
    exe = LEAN / '.lake' / 'build' / 'bin' / f'drv_{pid.lower()}'
    data = ''.join(l if l.endswith('\n') else l + '\n' for l in lines)
    if exe.exists():
        cmd = [str(exe)]
    else:
        cmd = ['lake', 'env', 'lean', '--run', f'Drivers/{pid}.lean']
    p = subprocess.run(cmd, cwd=LEAN, input=data, capture_output=True, text=True, timeout=timeout)
    if p.returncode != 0:
        raise RuntimeError(f'driver {cmd} failed rc={p.returncode}: {p.stderr[-2000:]}')
    return p.stdout.splitlines()


def leanchecker(mods, timeout=3000):
    cmd = ['lake', 'env', 'leanchecker'] + list(mods)
    with LeanLock():
        p = subprocess.run(cmd, cwd=LEAN, capture_output=True, text=True, timeout=timeout)
    return p.returncode == 0, (p.stdout + p.stderr)[-3000:], ' '.join(cmd)


# ------------------------------------------------------------------------------------------------
# known findings
# ------------------------------------------------------------------------------------------------

def load_findings(pid):
    """known_findings/<Cxx>.json — committed, never written at run time."""
    p = VERIF / 'known_findings' / f'{pid}.json'
    if not p.exists():
        return []
    return [f for f in json.loads(p.read_text())['findings'] if f['property'] == pid]


# ------------------------------------------------------------------------------------------------
# main flow
# ------------------------------------------------------------------------------------------------

def sha(path: Path):
    return hashlib.sha256(path.read_bytes()).hexdigest()[:16]


def run_check(plugin, pid, tier, seed):
    ctx = Ctx(pid, tier, seed)
    checker_cmds = []
    gen_hashes = {}
    obligations, discharged, axioms_used = 0, 0, {}
    infra_error = None
    prop_mod = f'ChythonModel.Props.{pid}'
    try:
        # 1. regenerate
        try:
            for path in plugin.generate(ctx) or []:
                gen_hashes[str(Path(path).relative_to(LEAN))] = sha(Path(path))
        except Exception as e:  # translator cannot handle the changed source
            ctx.broke('translator', type(e).__name__, traceback.format_exc())
        # 2. build
        targets = [prop_mod] + [f'ChythonModel.{m}' for m in getattr(plugin, 'EXTRA_MODULES', [])]
        if getattr(plugin, 'HAS_DRIVER', True):
            targets.append(f'drv_{pid.lower()}')
        ok, out, cmd = lake_build(targets)
        checker_cmds.append('cd lean && ' + cmd)
        build_ok = ok
        if not ok:
            errs = parse_build_errors(out)
            if not errs:
                infra_error = 'lake build failed without a located error:\n' + out[-3000:]
            seen = set()
            for e in errs:
                key = (e['file'], e['decl'])
                if key in seen:
                    continue
                seen.add(key)
                ctx.broke('theorem', f"{e['file']}:{e['decl']}", f"line {e['line']}: {e['msg']}")
        # 2b. witnesses of known findings (negations of full statements): informational only — if the
        #     code is repaired these stop being provable, which must never raise an alarm.
        fm = getattr(plugin, 'FINDINGS_MODULE', None)
        if fm and module_path(fm).exists():
            fok, fout, fcmd = lake_build([fm])
            ctx.cov['finding_witnesses'] = {'module': fm, 'theorems': theorem_names(fm), 'still_provable': fok}
            if not fok:
                ctx.notes.append(f'{fm} no longer builds: a known finding is no longer reproduced by the model '
                                 '(informational; not an alarm)')
        # 3. audit
        mods = reachable_modules(prop_mod)
        hits = forbidden_tokens(mods)
        for h in hits:
            ctx.broke('audit', 'forbidden-token', h)
        names = theorem_names(prop_mod)
        obligations = len(names)
        if build_ok:
            names, report, aout, acmd = axiom_audit(pid, prop_mod)
            checker_cmds.append('cd lean && ' + acmd)
            for n in names:
                ax = report.get(n)
                if ax is None:
                    ctx.broke('audit', n, 'no #print axioms line: ' + aout[-500:])
                elif not set(ax) <= ALLOWED_AXIOMS:
                    ctx.broke('audit', n, 'axioms ' + ','.join(ax))
                else:
                    discharged += 1
                    for a in ax:
                        axioms_used[a] = axioms_used.get(a, 0) + 1
            if tier == 'thorough' and not os.environ.get('VERIF_NO_LEANCHECKER'):
                ok, lout, lcmd = leanchecker(mods)
                checker_cmds.append('cd lean && ' + lcmd)
                if not ok:
                    ctx.broke('audit', 'leanchecker', lout)
        # 4. correspondence (only meaningful when the driver built; plugins decide)
        ctx.build_ok = build_ok
        try:
            plugin.correspond(ctx)
        except subprocess.TimeoutExpired:
            raise
        except Exception:
            ctx.broke('correspondence', 'harness-exception', traceback.format_exc())
        # 5. search (a failure that a standing known finding already lists must not switch the search off:
        #    only an UNLISTED concrete failing input makes the search unnecessary)
        _known_now = {f['signature'] for f in load_findings(pid) if f['status'] == 'known'}
        if ctx.broken and not any(fl.signature not in _known_now for fl in ctx.failures):
            try:
                plugin.search(ctx)
            except Exception:
                ctx.notes.append('search raised: ' + traceback.format_exc()[-1500:])
        elif tier == 'thorough' and hasattr(plugin, 'search') and getattr(plugin, 'SEARCH_ALWAYS_IN_THOROUGH', False):
            plugin.search(ctx)
        # 6. standing probes
        findings = load_findings(pid)
        known_lines, regress = [], []
        for f in findings:
            if 'probe' not in f:
                continue
            try:
                fails, what = plugin.probe(f['probe'])
            except Exception:
                fails, what = None, 'probe raised ' + traceback.format_exc()[-800:]
            f['_fails'], f['_what'] = fails, what
            if f['status'] == 'known' and fails:
                known_lines.append(f)
            elif f['status'] == 'fixed' and fails:
                ctx.fail(f['signature'], 'regression of fixed finding: ' + str(what), f['probe'])
            elif fails is None:
                ctx.notes.append(f"probe for {f['signature']} could not run: {what}")
    except subprocess.TimeoutExpired as e:
        infra_error = f'timeout: {e}'
        findings, known_lines = [], []
    except Exception:
        infra_error = traceback.format_exc()
        findings, known_lines = [], []

    # 7. classify
    known_sigs = {f['signature'] for f in findings if f['status'] == 'known'}
    printed = set()
    for f in known_lines:
        print(f"KNOWN-FINDING: property={pid} {f['signature']} — {f['what']}")
        printed.add(f['signature'])
    violations = []
    REPLAYS.mkdir(exist_ok=True)
    new_failures = []
    for fl in ctx.failures:
        if fl.signature in known_sigs:
            if fl.signature not in printed:
                print(f"KNOWN-FINDING: property={pid} {fl.signature} — {fl.what}")
                printed.add(fl.signature)
        else:
            new_failures.append(fl)
    if new_failures:
        seen = set()
        for i, fl in enumerate(new_failures):
            if fl.signature in seen:
                continue
            seen.add(fl.signature)
            if len(seen) > 8:  # keep the report readable; every signature is still listed in the evidence file
                continue
            rp = REPLAYS / f'{pid}_{tier}_{seed}_{len(seen)}.json'
            rp.write_text(json.dumps({'property': pid, 'kind': 'failing-input', 'signature': fl.signature,
                                      'what': fl.what, 'input': fl.input,
                                      'broken': [b.as_dict() for b in ctx.broken],
                                      'cmd': f'./check {pid} --replay {rp.relative_to(VERIF)}'}, indent=1, default=str))
            violations.append(f'VIOLATION property={pid} replay={rp.relative_to(VERIF)}')
    elif ctx.broken and infra_error is None:
        rp = REPLAYS / f'{pid}_{tier}_{seed}_unproved.json'
        rp.write_text(json.dumps({'property': pid, 'kind': 'no-longer-checks',
                                  'broken': [b.as_dict() for b in ctx.broken],
                                  'note': 'the named theorem(s)/correspondence stream(s) no longer check; the '
                                          'failing-input search found no concrete counterexample',
                                  'cmd': f'./check {pid} --tier {tier}'}, indent=1, default=str))
        violations.append(f'VIOLATION property={pid} replay={rp.relative_to(VERIF)} no-failing-input-found')
    for v in violations:
        print(v)

    # evidence
    # 8. source drift: the code under the hand-written models differs from the tree they were validated against
    #    (corpus/source_digests.json).  That is no alarm; it buys more effort before 'everything explored held' is reported:
    #    the same check is repeated with further seeds of the generated streams in child processes.  Only a concrete failing
    #    input or a broken obligation found there is reported (their VIOLATION lines and replay files are passed on).
    drift_keys, drift_base, escalated = [], None, []
    try:
        from .drift import drift as _drift
        drift_keys, drift_base = _drift(REPO, VERIF)
    except Exception:
        ctx.notes.append('source drift could not be computed: ' + traceback.format_exc()[-600:])
    if drift_keys and not violations and infra_error is None and not os.environ.get('VERIF_CHILD') \
            and not os.environ.get('VERIF_NO_ESCALATE'):
        extra = [seed + 101, seed + 202] if tier == 'quick' else [seed + 101]
        procs = [(s_, subprocess.Popen([str(VERIF / 'check'), pid, '--tier', tier], cwd=VERIF, text=True,
                                       stdout=subprocess.PIPE, stderr=subprocess.STDOUT,
                                       env=dict(os.environ, VERIF_SEED=str(s_), VERIF_CHILD='1'))) for s_ in extra]
        for s_, pr in procs:
            try:
                o_, _ = pr.communicate(timeout=5400)
            except subprocess.TimeoutExpired:
                pr.kill()
                o_ = 'timeout'
            vl = [l for l in o_.splitlines() if l.startswith('VIOLATION')]
            escalated.append({'seed': s_, 'rc': pr.returncode, 'violations': vl, 'last': (o_.strip().splitlines() or [''])[-1][:300]})
            if pr.returncode == 1 and vl:
                for l in vl:
                    print(l)
                violations.extend(vl)

    cov = ctx.cov
    cov['distinct_nontrivial'] = len(ctx._distinct)
    cov['source_drift'] = {'baseline_repo_head': drift_base, 'changed_units': drift_keys[:60], 'n_changed': len(drift_keys),
                           'escalation_runs': escalated}
    level = plugin.LEVEL
    cov.update({
        'obligations': obligations, 'discharged': discharged,
        'checker_cmd': ' ; '.join(checker_cmds) or 'none (build did not start)',
        'trusted_base': list(getattr(plugin, 'TRUSTED', [])) + [
            'Lean 4.33 kernel' + (' + leanchecker re-check' if tier == 'thorough' else ''),
            'axioms used by the property theorems: ' + (', '.join(f'{k} ({v} thms)' for k, v in sorted(axioms_used.items())) or 'none'),
            'translators harness/gen/*, correspondence harness, CachedMethods shim, CPython 3.12'],
        'rule': getattr(plugin, 'RULE', ''),
        'generated_tables': gen_hashes,
        'broken': [b.as_dict() for b in ctx.broken],
        'known_findings_reported': sorted(printed),
        'violation_signatures': sorted({fl.signature for fl in new_failures})[:200],
        'notes': ctx.notes,
        'exhaustive': bool(getattr(ctx, 'exhaustive', False)),
    })
    if not cov['samples']:
        cov['samples'] = ['(no case was evaluated)']
    ev = {'property_id': pid, 'tier': tier, 'seed': seed, 'level': level, 'coverage': cov,
          'assumptions': list(getattr(plugin, 'ASSUMPTIONS', [])),
          'wall_s': round(ctx.elapsed(), 2), 'violations': len(violations)}
    EVID.mkdir(exist_ok=True)
    if os.environ.get('VERIF_CHILD'):   # an escalation run of another check process: never touch the registered evidence file
        (REPLAYS / f'evidence_{pid}_{tier}_{seed}.json').write_text(json.dumps(ev, indent=1, default=str) + '\n')
    else:
        (EVID / f'{pid}.json').write_text(json.dumps(ev, indent=1, default=str) + '\n')
    if infra_error:
        print('INFRA-ERROR:', infra_error, file=sys.stderr)
        return 2
    status = 'VIOLATION' if violations else 'ok'
    print(f'{pid} {tier} seed={seed}: {status}; obligations {discharged}/{obligations}, '
          f"evaluations {cov['evaluations']}, distinct non-trivial {cov['distinct_nontrivial']}, "
          f"disagreements {cov['disagreements_checked']}, broken {len(ctx.broken)}, {ctx.elapsed():.1f}s")
    return 1 if violations else 0
