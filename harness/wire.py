"""Molecule <-> flat int list (the wire format of lean/ChythonModel/Model/Graph.lean).

`N` then per atom `id z iso(0=None) charge radical implH(-1=None) stereo(-1|0|1) deg` + deg x `nbr order bstereo`.
Atoms in `_atoms` dict order, neighbours in `_bonds[n]` dict order (the orders the algorithms iterate in).
"""


def tri(v):
    return -1 if v is None else int(bool(v))


def mol_to_ints(mol):
    out = [len(mol._atoms)]
    for n, a in mol._atoms.items():
        ms = mol._bonds[n]
        h = a._implicit_hydrogens
        out += [n, a.atomic_number, a._isotope or 0, a._charge, int(a._is_radical), -1 if h is None else h,
                tri(a._stereo), len(ms)]
        for m, b in ms.items():
            out += [m, int(b), tri(getattr(b, '_stereo', None))]
    return out


def mol_to_line(mol):
    return ' '.join(map(str, mol_to_ints(mol)))


def ints_to_mol(xs, calc=False):
    """Rebuild a MoleculeContainer with exactly this dict order (no hydrogens/labels recalculated unless calc)."""
    from chython import MoleculeContainer
    from chython.containers.bonds import Bond
    from chython.periodictable import Element
    it = iter(xs)
    n_atoms = next(it)
    mol = MoleculeContainer()
    rows = []
    for _ in range(n_atoms):
        n, z, iso, ch, rad, h, st, deg = (next(it) for _ in range(8))
        nb = [(next(it), next(it), next(it)) for _ in range(deg)]
        a = Element.from_atomic_number(z)(iso or None, charge=ch, is_radical=bool(rad),
                                          implicit_hydrogens=None if h < 0 else h,
                                          stereo=None if st < 0 else bool(st))
        mol._atoms[n] = a
        mol._bonds[n] = {}
        rows.append((n, nb))
    for n, nb in rows:
        for m, o, s in nb:
            if n in mol._bonds[m]:
                mol._bonds[n][m] = mol._bonds[m][n]
            else:
                b = Bond(o)
                b._stereo = None if s < 0 else bool(s)
                mol._bonds[n][m] = b
    if calc:
        mol.calc_labels()
    return mol, list(it)
