"""Structured molecule generators (DESIGN §3.3). All randomness flows from the `random.Random` passed in.

 corpus_smiles()            the 4200 drug-like SMILES shipped in the repo (pach/lipophilicity.csv)
 corpus(rng, k)             k parsed corpus molecules (sampled), cached per process
 test_files()               molecules of the repository's own test/*.sdf files
 handmade()                 small hand-picked molecules covering charges, isotopes, radicals, stereo, metals, multi-component
 small_graphs(n_max)        exhaustive connected labelled graphs (degree <= 4) as edge lists
 decorate(rng, edges, n)    element / charge / bond-order decoration of a skeleton -> MoleculeContainer (may be valence-invalid)
 ring_assembly(rng)         fused / spiro / bridged assemblies of 3-8 membered rings, macrocycles
 renumber(rng, mol)         same structure, random new atom numbers AND random insertion order of atoms and bonds
 rebuild(mol)               same atoms/bonds through the public constructor API (independent rebuild)
"""
import csv
import itertools
from functools import lru_cache

from .core import REPO


@lru_cache(None)
def corpus_smiles():
    with open(REPO / 'pach' / 'lipophilicity.csv') as f:
        return [r['smiles'] for r in csv.DictReader(f)]


_parsed = {}


def parse(smi):
    from chython import smiles
    if smi not in _parsed:
        try:
            _parsed[smi] = smiles(smi)
        except Exception:
            _parsed[smi] = None
    m = _parsed[smi]
    return None if m is None else m.copy()


def corpus(rng, k):
    smis = corpus_smiles()
    idx = rng.sample(range(len(smis)), min(k, len(smis)))
    out = []
    for i in idx:
        m = parse(smis[i])
        if m is not None:
            out.append((f'corpus[{i}]', m))
    return out


HANDMADE = [
    'C', 'CC', 'C=C', 'C#C', 'CCO', 'CC(=O)O', 'CC(=O)[O-]', 'C[N+](C)(C)C', '[NH4+]', '[Na+].[Cl-]', 'c1ccccc1',
    'c1ccncc1', 'c1cc[nH]c1', 'c1ccoc1', 'c1ccsc1', 'C1CC1', 'C1CCC1', 'C1CCCCC1', 'C1CC2CC1CC2', 'C12CC1C2',
    'C1CC11CC1', 'c1ccc2ccccc2c1', 'c1ccc2c(c1)ccc1ccccc12', 'N[C@@H](C)C(=O)O', 'N[C@H](C)C(=O)O', 'C/C=C/C', 'C/C=C\\C',
    'CC=[C@]=CC', '[13CH4]', '[2H]O[2H]', '[CH3]', 'C[CH2] |^1:1|', 'O=[N+][O-]', 'CS(=O)(=O)C', 'OP(=O)(O)O',
    'ClC(Cl)(Cl)Cl', 'BrCCBr', 'IC#CI', 'FC(F)(F)c1ccccc1', 'C1=CC=CC=C1', 'O=C1C=CC(=O)C=C1', 'C[Si](C)(C)C',
    'B(O)(O)c1ccccc1', '[Fe+2]', 'Cl[Pt](Cl)(N)N', 'C[Mg]Br', 'CCCCCCCCCCCCCCCC', 'C1CCCCCCCCCCC1',
    'C[C@H]1CC[C@@H](C)CC1', 'F[C@](Cl)(Br)I', 'OC[C@H]1OC(O)[C@H](O)[C@@H](O)[C@@H]1O', 'c1ccc(cc1)-c1ccccc1',
    '[O-][n+]1ccccc1', 'c1cc[n+](C)cc1', '[cH-]1cccc1', 'c1cc[o+]cc1', 'C1=CC2=CC=CC2=C1', 'c1cnc2[nH]ccc2c1',
    'N#Cc1ccccc1', 'CN=[N+]=[N-]', 'CC(C)(C)c1ccc(O)cc1', 'S1SSSSSSS1', 'C1CC1C1CC1', '[H][H]', '[H]C([H])([H])[H]',
    'CC.CC', 'c1ccccc1.O', 'C(=O)=O', 'N#N', '[C-]#[O+]', 'C=C=C', 'OO', 'NN', 'SS',
]


def handmade():
    out = []
    for s in HANDMADE:
        m = parse(s)
        if m is not None:
            out.append((s, m))
    return out


def test_files():
    """molecules from test/*.sdf (best effort)."""
    from chython import SDFRead
    out = []
    for p in sorted((REPO / 'test').glob('*.sdf')):
        try:
            with SDFRead(str(p)) as f:
                for i, m in enumerate(f):
                    out.append((f'{p.name}[{i}]', m))
        except Exception:
            continue
    return out


def small_graphs(n):
    """all connected labelled graphs on vertices 1..n with max degree 4, as sorted edge tuples (exhaustive)."""
    verts = list(range(1, n + 1))
    pairs = list(itertools.combinations(verts, 2))
    for mask in range(1 << len(pairs)):
        edges = [pairs[i] for i in range(len(pairs)) if mask >> i & 1]
        if len(edges) < n - 1:
            continue
        deg = {v: 0 for v in verts}
        for a, b in edges:
            deg[a] += 1
            deg[b] += 1
        if max(deg.values(), default=0) > 4:
            continue
        # connectivity
        adj = {v: [] for v in verts}
        for a, b in edges:
            adj[a].append(b)
            adj[b].append(a)
        seen, st = {1}, [1]
        while st:
            x = st.pop()
            for y in adj[x]:
                if y not in seen:
                    seen.add(y)
                    st.append(y)
        if len(seen) == n:
            yield tuple(edges)


def unlabeled_small_graphs(n):
    """one representative per isomorphism class (brute-force canonical form; n <= 7)."""
    seen = set()
    for edges in small_graphs(n):
        best = None
        for perm in itertools.permutations(range(1, n + 1)):
            p = dict(zip(range(1, n + 1), perm))
            key = tuple(sorted(tuple(sorted((p[a], p[b]))) for a, b in edges))
            if best is None or key < best:
                best = key
        if best not in seen:
            seen.add(best)
            yield best


def from_edges(edges, elements=None, orders=None, charges=None, n_atoms=None, calc=True):
    """Build a molecule from an edge list through the public API."""
    from chython import MoleculeContainer
    from chython.periodictable import Element
    m = MoleculeContainer()
    verts = sorted({v for e in edges for v in e}) if n_atoms is None else list(range(1, n_atoms + 1))
    for v in verts:
        el = (elements or {}).get(v, 'C')
        a = Element.from_symbol(el)(charge=(charges or {}).get(v, 0))
        m.add_atom(a, v, _skip_calculation=True)
    for i, (a, b) in enumerate(edges):
        m.add_bond(a, b, (orders or {}).get((a, b), 1), _skip_calculation=True)
    if calc:
        m.fix_structure()
    return m


def decorate(rng, edges, n_atoms=None, hetero=0.3, multiple=0.25, charge=0.1):
    verts = sorted({v for e in edges for v in e}) if n_atoms is None else list(range(1, n_atoms + 1))
    elements = {v: (rng.choice(['N', 'O', 'S', 'P', 'F', 'Cl', 'B', 'Si']) if rng.random() < hetero else 'C') for v in verts}
    orders = {e: (rng.choice([2, 2, 3]) if rng.random() < multiple else 1) for e in edges}
    charges = {v: (rng.choice([-1, 1]) if rng.random() < charge else 0) for v in verts}
    return from_edges(edges, elements, orders, charges, n_atoms)


def ring_assembly(rng, max_rings=5):
    """fused / spiro / bridged / linked assemblies of 3-8 membered rings (+ occasional macrocycle), carbon skeleton."""
    edges, nxt = [], 1

    def new_ring(size, start_atoms):
        nonlocal nxt
        atoms = list(start_atoms)
        while len(atoms) < size:
            atoms.append(nxt)
            nxt += 1
        return atoms

    size = rng.choice([3, 4, 5, 5, 6, 6, 6, 7, 8, rng.randint(9, 16)])
    ring = new_ring(size, [])
    rings = [ring]
    edges += [(ring[i], ring[(i + 1) % size]) for i in range(size)]
    for _ in range(rng.randint(0, max_rings - 1)):
        base = rng.choice(rings)
        size = rng.choice([3, 4, 5, 5, 6, 6, 6, 7, 8])
        mode = rng.choice(['fused', 'fused', 'spiro', 'bridged', 'linked'])
        eset = {frozenset(e) for e in edges}
        if mode == 'fused':
            i = rng.randrange(len(base))
            a, b = base[i], base[(i + 1) % len(base)]
            ring = new_ring(size, [a, b])
            path = ring[1:] + [ring[0]]  # b ... a
            new = [(path[k], path[k + 1]) for k in range(len(path) - 1)]
        elif mode == 'spiro':
            a = rng.choice(base)
            ring = new_ring(size, [a])
            new = [(ring[i], ring[(i + 1) % size]) for i in range(size)]
        elif mode == 'bridged' and len(base) >= 5:
            i = rng.randrange(len(base))
            j = (i + rng.randint(2, len(base) - 2)) % len(base)
            a, b = base[i], base[j]
            k = rng.randint(1, 3)
            chain = [a] + [nxt + t for t in range(k)] + [b]
            nxt += k
            ring = chain
            new = [(chain[t], chain[t + 1]) for t in range(len(chain) - 1)]
        else:
            a = rng.choice(base)
            ring = new_ring(size, [])
            new = [(ring[i], ring[(i + 1) % size]) for i in range(size)] + [(a, ring[0])]
        new = [e for e in new if frozenset(e) not in eset and e[0] != e[1]]
        edges += new
        rings.append(ring)
    # respect degree <= 4
    deg = {}
    out = []
    for a, b in edges:
        if deg.get(a, 0) < 4 and deg.get(b, 0) < 4:
            deg[a] = deg.get(a, 0) + 1
            deg[b] = deg.get(b, 0) + 1
            out.append((a, b))
    return out


def renumber(rng, mol, lo=1, hi=None):
    """Same structure with random new numbers and random insertion order of atoms and of bonds.
    Returns (new_mol, mapping old->new). Built via remap + reinsertion into fresh dicts (no public recalculation),
    then labels recomputed; implicit H, stereo marks and coordinates are carried over unchanged."""
    nums = list(mol._atoms)
    hi = hi or max(len(nums) * 3, 10)
    new = rng.sample(range(lo, hi + 1), len(nums))
    mapping = dict(zip(nums, new))
    c = mol.copy()
    c.remap(mapping)
    order = list(c._atoms)
    rng.shuffle(order)
    bonds = [(n, m, b) for n, m, b in c.bonds()]
    rng.shuffle(bonds)
    atoms = {n: c._atoms[n] for n in order}
    adj = {n: {} for n in order}
    for n, m, b in bonds:
        if rng.random() < 0.5:
            n, m = m, n
        adj[n][m] = b
        adj[m][n] = b
    c._atoms = atoms
    c._bonds = adj
    c.flush_cache()
    c._changed = None
    c._backup = None
    c.calc_labels()
    return c, mapping


def rebuild(mol, recalc_h=False):
    """Independent rebuild through the public constructor API (same numbers, same order)."""
    from chython import MoleculeContainer
    from chython.containers.bonds import Bond
    r = MoleculeContainer()
    for n, a in mol.atoms():
        r.add_atom(a.copy(hydrogens=not recalc_h, stereo=True), n, _skip_calculation=True)
    for n, m, b in mol.bonds():
        r.add_bond(n, m, b.copy(stereo=True), _skip_calculation=True)
    r.fix_structure(recalculate_hydrogens=recalc_h)
    return r
