"""Source drift: which functions of chython differ from the tree the committed models were validated against?

`corpus/source_digests.json` (written by `tools/mkdigests.py` at the reviewed /repo HEAD, committed) holds one digest per function /
method / class body / module top level of every .py file under chython/ (AST dump without positions and docstrings, so comments,
blank lines and formatting never count) and one per .pyx file (comment- and blank-stripped text).  `drift()` recomputes them on the
working tree.  A difference is NOT a violation and breaks nothing by itself: it only tells core that the code under the hand-written
models has changed since they were last validated, so the check spends more effort (more seeds of the generated streams and the
failing-input search) before it reports that everything explored held.
"""
import ast
import hashlib
import json
import re
from pathlib import Path


def _h(s):
    return hashlib.blake2b(s.encode(), digest_size=8).hexdigest()


def _strip_doc(node):
    b = getattr(node, 'body', None)
    if b and isinstance(b[0], ast.Expr) and isinstance(getattr(b[0], 'value', None), ast.Constant) and isinstance(b[0].value.value, str):
        node.body = b[1:] or [ast.Pass()]


def _digests_py(path, rel, out):
    try:
        tree = ast.parse(path.read_text())
    except SyntaxError:
        out[rel + '::<unparsable>'] = _h(path.read_text())
        return
    for n in ast.walk(tree):
        if isinstance(n, (ast.FunctionDef, ast.AsyncFunctionDef, ast.ClassDef, ast.Module)):
            _strip_doc(n)

    def visit(node, prefix):
        rest = []
        for ch in node.body:
            if isinstance(ch, (ast.FunctionDef, ast.AsyncFunctionDef)):
                out[f'{rel}::{prefix}{ch.name}'] = _h(ast.dump(ch, annotate_fields=False, include_attributes=False))
            elif isinstance(ch, ast.ClassDef):
                visit(ch, f'{prefix}{ch.name}.')
                rest.append(ast.dump(ast.ClassDef(name=ch.name, bases=ch.bases, keywords=ch.keywords, body=[], decorator_list=ch.decorator_list),
                                     annotate_fields=False, include_attributes=False))
            else:
                rest.append(ast.dump(ch, annotate_fields=False, include_attributes=False))
        out[f'{rel}::{prefix}<body>'] = _h('\n'.join(rest))
    visit(tree, '')


def digests(repo: Path):
    out = {}
    root = repo / 'chython'
    for p in sorted(root.rglob('*.py')):
        rel = str(p.relative_to(repo))
        if '/test/' in rel or rel.endswith('/test.py'):
            continue
        _digests_py(p, rel, out)
    for p in sorted(root.rglob('*.pyx')):
        txt = '\n'.join(l.rstrip() for l in (re.sub(r'#.*', '', l) for l in p.read_text().splitlines()) if l.strip())
        out[str(p.relative_to(repo)) + '::<text>'] = _h(txt)
    return out


def drift(repo: Path, verif: Path):
    """-> (list of changed keys, baseline head) ; ([], None) when there is no baseline file."""
    b = verif / 'corpus' / 'source_digests.json'
    if not b.exists():
        return [], None
    base = json.loads(b.read_text())
    now = digests(repo)
    old = base['functions']
    changed = sorted(k for k in set(old) | set(now) if old.get(k) != now.get(k))
    return changed, base.get('repo_head')
