import argparse
import importlib
import json
import os
import sys

from . import core


def main():
    ap = argparse.ArgumentParser()
    ap.add_argument('pid')
    ap.add_argument('--tier', default=os.environ.get('VERIF_TIER', 'quick'), choices=['quick', 'thorough'])
    ap.add_argument('--replay')
    a = ap.parse_args()
    pid = a.pid.upper()
    seed = int(os.environ.get('VERIF_SEED', '0') or 0)
    plugin = importlib.import_module(f'harness.props.{pid.lower()}')
    if a.replay:
        rp = json.loads(open(a.replay).read())
        if rp.get('kind') == 'no-longer-checks':
            print(json.dumps(rp, indent=1))
            print('This replay names proof obligations / correspondence streams; re-run:', rp.get('cmd'))
            sys.exit(0)
        fails, what = plugin.probe(rp['input'])
        print('input:', json.dumps(rp['input'], default=str))
        print('observed:', what)
        print('property', 'FAILS' if fails else 'holds', 'on this input')
        sys.exit(1 if fails else 0)
    sys.exit(core.run_check(plugin, pid, a.tier, seed))


if __name__ == '__main__':
    main()
