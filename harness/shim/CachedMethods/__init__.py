# -*- coding: utf-8 -*-
#
#  Copyright 2019-2026 Ramil Nugmanov <stsouko@live.ru>
#  This file is part of CachedMethods.
#
#  CachedMethods is free software; you can redistribute it and/or modify
#  it under the terms of the GNU Lesser General Public License as published by
#  the Free Software Foundation; either version 3 of the License, or
#  (at your option) any later version.
#
#  This program is distributed in the hope that it will be useful,
#  but WITHOUT ANY WARRANTY; without even the implied warranty of
#  MERCHANTABILITY or FITNESS FOR A PARTICULAR PURPOSE. See the
#  GNU Lesser General Public License for more details.
#
#  You should have received a copy of the GNU Lesser General Public License
#  along with this program; if not, see <https://www.gnu.org/licenses/>.
#
from collections.abc import Mapping
from functools import wraps
from threading import Lock


_SENTINEL = object()


def _freeze(value):
    if isinstance(value, list):
        return tuple(value)
    elif isinstance(value, set):
        return frozenset(value)
    elif isinstance(value, dict):
        return FrozenDict(value)
    return value


class FrozenDict(Mapping):
    """
    unmutable dict
    """
    __slots__ = '__d'

    def __init__(self, *args, **kwargs):
        self.__d = dict(*args, **kwargs)

    def __iter__(self):
        return iter(self.__d)

    def __len__(self):
        return len(self.__d)

    def __getitem__(self, key):
        return self.__d[key]

    def __repr__(self):
        return repr(self.__d)

    def copy(self):
        """mutable copy of dict"""
        return self.__d.copy()


class cached_property:
    """
    A property that is only computed once per instance and then replaces itself
    with an ordinary attribute. Deleting the attribute resets the property.
    Thread-safe for Python 3.14+ free-threaded (no-GIL) builds.
    """

    def __init__(self, func):
        self.__doc__ = getattr(func, "__doc__")
        self.func = func
        self.lock = Lock()
        name = func.__name__
        if name.startswith('__') and not name.endswith('__'):
            name = f'_{func.__qualname__.split(".")[-2]}{name}'
        self.name = name

    def __get__(self, obj, cls):
        if obj is None:
            return self
        # Fast path: check without lock
        value = obj.__dict__.get(self.name, _SENTINEL)
        if value is not _SENTINEL:
            return value
        with self.lock:
            # Double-check after acquiring lock
            value = obj.__dict__.get(self.name, _SENTINEL)
            if value is not _SENTINEL:
                return value
            value = _freeze(self.func(obj))
            obj.__dict__[self.name] = value
            return value


def cached_method(func):
    """
    cache methods without arguments.
    Thread-safe for Python 3.14+ free-threaded (no-GIL) builds.
    """
    name = f'__cached_method_{func.__name__}'
    lock_name = f'__cached_method_lock_{func.__name__}'

    @wraps(func)
    def wrapper(self):
        # Fast path: check without lock
        value = self.__dict__.get(name, _SENTINEL)
        if value is not _SENTINEL:
            return value
        # Get or create per-instance lock
        lock = self.__dict__.setdefault(lock_name, Lock())
        with lock:
            # Double-check after acquiring lock
            value = self.__dict__.get(name, _SENTINEL)
            if value is not _SENTINEL:
                return value
            value = _freeze(func(self))
            self.__dict__[name] = value
            return value
    return wrapper


def cached_args_method(func):
    """
    cache methods results with hashable args.
    Thread-safe for Python 3.14+ free-threaded (no-GIL) builds.
    """
    name = f'__cached_args_method_{func.__name__}'
    lock_name = f'__cached_args_method_lock_{func.__name__}'

    @wraps(func)
    def wrapper(self, *args):
        # Fast path: check without lock
        cache = self.__dict__.get(name)
        if cache is not None:
            value = cache.get(args, _SENTINEL)
            if value is not _SENTINEL:
                return value
        # Get or create per-instance lock
        lock = self.__dict__.setdefault(lock_name, Lock())
        with lock:
            # Double-check after acquiring lock
            cache = self.__dict__.get(name)
            if cache is not None:
                value = cache.get(args, _SENTINEL)
                if value is not _SENTINEL:
                    return value
            else:
                cache = {}
                self.__dict__[name] = cache
            value = _freeze(func(self, *args))
            cache[args] = value
            return value
    return wrapper


class class_cached_property:
    """
    cache property result in class level. usable for dynamic class attrs calculation.
    Thread-safe for Python 3.14+ free-threaded (no-GIL) builds.

    required __class_cache__ dict attr:

    class X:
        __class_cache__ = {}

        @class_cached_property
        def my_attr(self):
            return sth
    """
    def __init__(self, func):
        self.__doc__ = getattr(func, '__doc__')
        self.func = func
        self.lock = Lock()
        name = func.__name__
        if name.startswith('__') and not name.endswith('__'):
            name = f'_{func.__qualname__.split(".")[-2]}{name}'
        self.name = name

    def __get__(self, obj, cls):
        if obj is None:
            return self
        # Fast path: check instance dict
        # (verif shim: slotted instances have no __dict__; chython's Element classes are slotted)
        try:
            value = obj.__dict__.get(self.name, _SENTINEL)
        except AttributeError:
            value = _SENTINEL
        if value is not _SENTINEL:
            return value
        # Check class cache without lock
        class_cache = cls.__class_cache__.get(cls)
        if class_cache is not None:
            value = class_cache.get(self.name, _SENTINEL)
            if value is not _SENTINEL:
                try:
                    obj.__dict__[self.name] = value
                except AttributeError:
                    pass
                return value
        with self.lock:
            # Double-check class cache after acquiring lock
            class_cache = cls.__class_cache__.get(cls)
            if class_cache is not None:
                value = class_cache.get(self.name, _SENTINEL)
                if value is not _SENTINEL:
                    try:
                        obj.__dict__[self.name] = value
                    except AttributeError:
                        pass
                    return value
            else:
                class_cache = {}
                cls.__class_cache__[cls] = class_cache

            value = _freeze(self.func(obj))
            class_cache[self.name] = value

        try:
            obj.__dict__[self.name] = value
        except AttributeError:
            pass
        return value


__all__ = ['cached_property', 'cached_method', 'cached_args_method', 'class_cached_property', 'FrozenDict']
