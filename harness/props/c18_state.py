"""C18 — property-level oracles over atom STATES and atom HISTORIES (round 5).

Two families, both judged on the real code only (no Lean model is consulted here):

* `state_grid_predicates(sym)` — the quantifier of the property taken literally: every tabulated isotope (and "no isotope")
  x charge -4..4 x radical flag of one element as a molecule atom, looked for by the query atom that describes exactly that
  state, by the query atoms that differ from it in exactly one field, and by the wildcard queries, through BOTH real matchers
  (accelerated bit layout and reference `__eq__`).  The expectation is the documented meaning of a query atom (same element;
  isotope unspecified or equal; charge equal; radical flag equal; hydrogens unspecified or listed), so a combination that one of
  the two encoders mis-writes is seen as "own query does not find it" or "a differing query finds it".

* `history_predicates(sym, rng)` — what the property says about `atomic_mass`, `isotope = n`, the charge / radical setters and
  `valence_rules(v)` does not depend on the order in which an atom object was labelled and asked.  One live object is driven
  through a history (reads interleaved with re-assignments, rejected assignments, copies); after every step every observable of
  the object is compared with (a) the value computed from the class tables for its CURRENT state and (b) a freshly constructed
  object with the same state.  Histories: the complete isotope walk of every element forwards and backwards (exhaustive),
  plus seeded random histories.  The same histories run on a one-atom molecule (`molecular_mass`, `with mol:` re-labelling,
  `copy`, pack/unpack) and on query atoms (setter history, then matched).
"""

CHARGES = tuple(range(-4, 5))
HS = (0, 1, 2, 3, 4, None)
PACK_HS = (0, 1, 2, 3, 4, 5, 6, None)


_EXT = []


def _ext():
    if not _EXT:
        from ..gen import pyx2py
        pyx2py.install()
        _EXT.append(True)


# ------------------------------------------------------------------------------------------------
# states x matchers
# ------------------------------------------------------------------------------------------------

def _mol(cls, iso, c, r, h):
    from chython import MoleculeContainer
    m = MoleculeContainer()
    m.add_atom(cls(iso, charge=c, is_radical=r), 1, _skip_calculation=True)
    m.calc_labels()
    m._atoms[1]._implicit_hydrogens = h
    return m


def _query(atom):
    from chython import QueryContainer
    q = QueryContainer('')
    q.add_atom(atom, 1)
    return q


def _both(q, m):
    """(accelerated finds, reference finds) or the exception name"""
    try:
        acc = any(True for _ in q.get_mapping(m))
    except Exception as e:
        acc = 'raises ' + type(e).__name__
    try:
        ref = any(True for _ in q.get_mapping(m, _cython=False))
    except Exception as e:
        ref = 'raises ' + type(e).__name__
    return acc, ref


def words3(q, m):
    """(bits3 of the one-atom molecule, mask3 of the one-atom query) read back from the packed buffers the real encoders return"""
    import struct
    try:
        b3 = struct.unpack_from('QQQQIII', m._cython_compiled_structure, 4)[2]
    except Exception as e:
        b3 = 'E:' + type(e).__name__
    try:
        m3 = struct.unpack_from('QQQQIIIII', q._cython_compiled_query[0], 4)[2]
    except Exception as e:
        m3 = 'E:' + type(e).__name__
    return b3, m3


def state_grid_cases(sym, cross=True, pack_all_h=False):
    """every isotope|None x charge x radical of `sym` as a one-atom molecule (hydrogen count rotating 0..4/None) against its own
    query atom, the query atoms differing in exactly one field, and the wildcards; yields one dict per (molecule, query) pair."""
    from chython import MoleculeContainer
    from chython.periodictable import Element, QueryElement, AnyElement, ListElement
    _ext()
    cls = Element.from_symbol(sym)
    qcls = QueryElement.from_symbol(sym)
    isos = [None] + sorted(cls.isotopes_distribution.fget(None))
    tab = isos[1:]
    qcache = {}

    def Q(iso, c, r, h=None):
        k = (iso, c, r, h)
        if k not in qcache:
            qcache[k] = _query(qcls(iso, charge=c, is_radical=r) if h is None else qcls(iso, charge=c, is_radical=r, implicit_hydrogens=h))
        return k, qcache[k]

    wild = {}
    k = 0
    for iso in isos:
        for c in CHARGES:
            for r in (False, True):
                h = HS[k % len(HS)]
                k += 1
                base = {'symbol': sym, 'iso': iso, 'charge': c, 'radical': r, 'h': h}
                try:
                    m = _mol(cls, iso, c, r, h)
                except Exception as e:
                    yield dict(base, query='build', qstate=None, expect=True, acc='raises ' + type(e).__name__, ref=None, bits3=None, mask3=None)
                    continue
                tests = [('own', Q(iso, c, r), True)]
                if cross:
                    tests.append(('any-isotope', Q(None, c, r), True))
                    tests.append(('radical-flipped', Q(iso, c, not r), False))
                    c2 = (c + 5) % 9 - 4
                    tests.append((f'charge={c2}', Q(iso, c2, r), False))
                    other = tab[0] if iso is None else (tab[(tab.index(iso) + 1) % len(tab)] if len(tab) > 1 else None)
                    if other is not None:
                        tests.append((f'isotope={other}', Q(other, c, r), False))
                    if h is not None:
                        tests.append((f'own-h={h}', Q(iso, c, r, h), True))
                        tests.append((f'own-h={(h + 1) % 5}', Q(iso, c, r, (h + 1) % 5), False))
                    if (c, r) not in wild:
                        wild[(c, r)] = (_query(AnyElement(charge=c, is_radical=r)), _query(ListElement([sym, 'Og' if sym != 'Og' else 'H'], charge=c, is_radical=r)))
                    tests.append(('AnyElement', (None, wild[(c, r)][0]), True))
                    tests.append(('ListElement', (None, wild[(c, r)][1]), True))
                for name, (qstate, q), expect in tests:
                    acc, ref = _both(q, m)
                    b3, m3 = words3(q, m) if qstate is not None else (None, None)
                    yield dict(base, query=name, qstate=qstate, expect=expect, acc=acc, ref=ref, bits3=b3, mask3=m3)
                # the same state through the pack format (5-bit isotope offset, 4-bit charge, radical bit, 3-bit hydrogens, 7 = unknown);
                # after the matcher tests (the compiled structure is cached on the molecule), hydrogens 0..6/None of its own rotation
                for hp in (PACK_HS if pack_all_h else (PACK_HS[k % len(PACK_HS)],)):
                    m._atoms[1]._implicit_hydrogens = hp
                    try:
                        u = MoleculeContainer.unpack(m.pack()).atom(1)
                        got = (u.isotope, u.charge, u.is_radical, u.implicit_hydrogens, u.atomic_number)
                    except Exception as e:
                        got = 'raises ' + type(e).__name__
                    yield dict(base, h=hp, query='pack-unpack', qstate=None, expect=(iso, c, r, hp, cls.atomic_number.fget(None)), acc=got, ref=None, bits3=None, mask3=None)


def grid_detail(x):
    if x['query'] == 'pack-unpack':
        ok = x['acc'] == x['expect']
        d = f"{x['symbol']}:iso={x['iso']}:charge={x['charge']}:radical={x['radical']}:h={x['h']}:pack-unpack"
        return d, d + ('' if ok else f":expected (isotope, charge, radical, hydrogens, number)={x['expect']}:got={x['acc']}"), ok
    ok = x['acc'] is x['expect'] and x['ref'] is x['expect']
    d = f"{x['symbol']}:iso={x['iso']}:charge={x['charge']}:radical={x['radical']}:h={x['h']}:query={x['query']}"
    return d, d + ('' if ok else f":expected={x['expect']}:accelerated={x['acc']}:reference={x['ref']}"), ok


def grid_pred(x):
    return 'pack-state-grid' if x['query'] == 'pack-unpack' else 'matcher-state-grid'


def state_grid_predicates(sym, cross=True, pack_all_h=False):
    """yields (predicate, detail, ok): both REAL matchers give the documented answer for the pair; the pack image is the state"""
    for x in state_grid_cases(sym, cross, pack_all_h):
        _, detail, ok = grid_detail(x)
        yield (grid_pred(x), detail, ok)


def bits_request(x):
    """driver request line for one grid case with a QueryElement query"""
    t = lambda v: 'N' if v is None else str(v)
    qi, qc, qr, qh = x['qstate']
    return f"BITS {x['symbol']} {t(x['iso'])} {x['charge']} {int(x['radical'])} {t(x['h'])} 0 0 {t(qi)} {qc} {int(qr)} {t(qh)}"


def bits_real(x):
    """what the real code shows for that case, in the driver's response format (last column: the documented answer)"""
    f = lambda v: '-' if not isinstance(v, bool) else str(int(v))
    return f"{x['bits3']} {x['mask3']} {f(x['acc'])} {f(x['ref'])} {int(x['expect'])}"


# ------------------------------------------------------------------------------------------------
# histories
# ------------------------------------------------------------------------------------------------

def table_mass(cls, iso):
    """the mass the tables give for an atom of class `cls` labelled `iso` (None = natural abundance mean)"""
    mass = cls.isotopes_masses.fget(None)
    dist = cls.isotopes_distribution.fget(None)
    if iso is None:
        return sum(x * mass[i] for i, x in dist.items())
    return mass[iso]


def _rules(a, v):
    from chython.exceptions import ValenceError
    try:
        return a.valence_rules(v)
    except ValenceError:
        return 'ValenceError'
    except Exception as e:
        return 'raises ' + type(e).__name__


def observe(a):
    """every observable the property names, of one atom object, as comparable values"""
    try:
        mass = a.atomic_mass
    except Exception as e:
        mass = 'raises ' + type(e).__name__
    return {'isotope': a.isotope, 'charge': a.charge, 'is_radical': a.is_radical, 'mass': mass,
            'number': a.atomic_number, 'symbol': a.atomic_symbol, 'mdl': a.mdl_isotope, 'repr': repr(a),
            'rules': [_rules(a, v) for v in range(0, 9)]}


def _close(x, y):
    if isinstance(x, float) and isinstance(y, float):
        return abs(x - y) <= 1e-9
    return x == y


def check_state(cls, a, state):
    """list of (what, got, want) mismatches of object `a` against the expected `state` = (isotope, charge, radical)"""
    iso, c, r = state
    bad = []
    o = observe(a)
    if (o['isotope'], o['charge'], o['is_radical']) != (iso, c, r):
        bad.append(('state', (o['isotope'], o['charge'], o['is_radical']), state))
        return bad
    try:
        want = table_mass(cls, iso)
    except Exception as e:
        want = 'raises ' + type(e).__name__
    if not _close(o['mass'], want):
        bad.append(('atomic_mass vs tables', o['mass'], want))
    fresh = cls(iso, charge=c, is_radical=r)
    f = observe(fresh)
    for k in ('mass', 'number', 'symbol', 'mdl', 'repr', 'rules'):
        if not _close(o[k], f[k]):
            bad.append((f'{k} vs fresh object', o[k], f[k]))
    if not (a == fresh and fresh == a):
        bad.append(('== fresh object', False, True))
    from chython.periodictable import QueryElement, DynamicElement
    try:
        q = QueryElement.from_atom(a)
        d = DynamicElement.from_atom(a)
        got = ((q.isotope, q.charge, q.is_radical, q.atomic_number), (d.isotope, d.charge, d.is_radical, d.p_charge, d.p_is_radical, d.atomic_number))
    except Exception as e:
        got = 'raises ' + type(e).__name__
    wantv = ((iso, c, r, o['number']), (iso, c, r, c, r, o['number']))
    if got != wantv:
        bad.append(('Query/Dynamic variant from_atom', got, wantv))
    else:
        # the dynamic variant of the walked object against that of a fresh one with the product state (charge + 1 wrapped, radical flipped)
        other = cls(iso, charge=(c + 5) % 9 - 4, is_radical=not r)
        try:
            d2 = DynamicElement.from_atoms(a, other)
            dc = d2.copy()
            got = (d2.isotope, d2.charge, d2.is_radical, d2.p_charge, d2.p_is_radical, d2.is_dynamic, dc == d2, hash(dc) == hash(d2),
                   d2 == DynamicElement.from_atoms(fresh, other), d2 == d, DynamicElement.from_atoms(a, fresh) == d)
        except Exception as e:
            got = 'raises ' + type(e).__name__
        wantd = (iso, c, r, other.charge, not r, True, True, True, True, False, True)
        if got != wantd:
            bad.append(('DynamicElement.from_atoms / copy / == / hash', got, wantd))
    if iso is not None:  # the same label given as an offset from the reference isotope
        try:
            b = cls(delta_isotope=iso - o['mdl'], charge=c, is_radical=r)
            got = (b.isotope, b == a, _close(observe(b)['mass'], want))
        except Exception as e:
            got = 'raises ' + type(e).__name__
        if got != (iso, True, True):
            bad.append((f'constructor with delta_isotope={iso - o["mdl"]}', got, (iso, True, True)))
    import copy as _copy
    cc = _copy.copy(a)
    if (cc.isotope, cc.charge, cc.is_radical) != state or not cc == a:
        bad.append(('copy.copy()', (cc.isotope, cc.charge, cc.is_radical), state))
    cp = a.copy()
    if not _close(observe(cp)['mass'], want) or (cp.isotope, cp.charge, cp.is_radical) != state:
        bad.append(('copy()', (cp.isotope, cp.charge, cp.is_radical, observe(cp)['mass']), state + (want,)))
    return bad


def run_history(cls, ops):
    """execute a history on ONE live atom object; returns (first mismatch or None, number of checks).
    ops: ['new', iso, charge, radical] first, then ['iso', v] | ['charge', v] | ['rad', v] | ['read'] | ['copy'] (continue on the copy)
    | ['rules', v].  A value the setter must reject leaves the state unchanged (ValueError / TypeError)."""
    dist = cls.isotopes_distribution.fget(None)
    head = ops[0]
    a = cls(head[1], charge=head[2], is_radical=head[3])
    state = (head[1], head[2], head[3])
    n = 0
    for step, op in enumerate(ops):
        kind = op[0]
        if kind == 'iso':
            v = op[1]
            valid = v is None or (isinstance(v, int) and v in dist)
            try:
                a.isotope = v
                raised = None
            except (ValueError, TypeError) as e:
                raised = type(e).__name__
            except Exception as e:
                return (step, f'isotope = {v!r}', 'raises ' + type(e).__name__, 'ValueError/TypeError or accepted'), n
            if valid and raised:
                return (step, f'isotope = {v!r}', 'raises ' + raised, 'accepted (tabulated isotope)'), n
            if not valid and not raised:
                return (step, f'isotope = {v!r}', 'accepted', 'rejected (not a tabulated isotope)'), n
            if valid:
                state = (v, state[1], state[2])
        elif kind == 'charge':
            v = op[1]
            valid = isinstance(v, int) and -4 <= v <= 4
            try:
                a.charge = v
                raised = None
            except (ValueError, TypeError) as e:
                raised = type(e).__name__
            if valid == bool(raised):
                return (step, f'charge = {v!r}', raised or 'accepted', 'accepted' if valid else 'rejected'), n
            if valid:
                state = (state[0], v, state[2])
        elif kind == 'rad':
            a.is_radical = op[1]
            state = (state[0], state[1], op[1])
        elif kind == 'copy':
            src = a
            a = a.copy()
            bad = check_state(cls, src, state)
            if bad:
                return (step, 'source of copy()',) + bad[0][1:], n
        elif kind == 'rules':
            _rules(a, op[1])
        elif kind == 'read':
            try:
                a.atomic_mass
            except Exception:
                pass
        n += 1
        if kind in ('new', 'iso', 'charge', 'rad', 'copy'):
            bad = check_state(cls, a, state)
            if bad:
                w, got, want = bad[0]
                return (step, w, got, want), n
    return None, n


def walk_histories(cls):
    """the exhaustive part: one object through the whole isotope table, a read after every assignment, both directions,
    each isotope also entered from 'natural' and left to 'natural', and the charge/radical grid on a once-read object."""
    isos = sorted(cls.isotopes_distribution.fget(None))
    up = [['new', None, 0, False], ['read']]
    for i in isos:
        up += [['iso', i], ['read']]
    up += [['iso', None], ['read']]
    yield 'walk-up', up
    down = [['new', isos[-1], 0, False], ['read']]
    for i in reversed(isos):
        down += [['iso', i], ['read']]
    down += [['iso', None], ['read']]
    yield 'walk-down', down
    star = [['new', None, 0, False], ['read']]
    for i in isos:
        star += [['iso', i], ['read'], ['iso', None], ['read']]
    yield 'walk-star', star
    grid = [['new', None, 0, False], ['read'], ['rules', 0]]
    for c in CHARGES:
        for r in (False, True):
            grid += [['charge', c], ['rad', r], ['rules', 1]]
    yield 'walk-charge-radical', grid
    rej = [['new', isos[0], 1, True], ['read'], ['iso', max(isos) + 1], ['iso', 0], ['iso', -1], ['iso', 1.5], ['iso', 'x'],
           ['charge', 5], ['charge', -5], ['charge', 1.0], ['read'], ['copy'], ['iso', None], ['read']]
    yield 'walk-rejected', rej


def random_history(cls, rng, length):
    dist = sorted(cls.isotopes_distribution.fget(None))
    pick = lambda: rng.choice(dist + [None])
    ops = [['new', pick(), rng.choice(CHARGES), rng.random() < 0.3]]
    for _ in range(length):
        x = rng.random()
        if x < 0.30:
            ops.append(['read'])
        elif x < 0.55:
            ops.append(['iso', pick()])
        elif x < 0.63:
            ops.append(['iso', rng.choice([0, -3, max(dist) + rng.randint(1, 9), min(dist) - 1 if min(dist) > 1 else 999, 2.0, '13'])])
        elif x < 0.75:
            ops.append(['charge', rng.choice(CHARGES)])
        elif x < 0.79:
            ops.append(['charge', rng.choice([5, -5, 9, 0.5])])
        elif x < 0.87:
            ops.append(['rad', rng.random() < 0.5])
        elif x < 0.94:
            ops.append(['rules', rng.randint(0, 8)])
        else:
            ops.append(['copy'])
    return ops


def molecule_history(cls, full=False):
    """the same re-labelling through a container: `molecular_mass` read, `with mol: atom.isotope = n`, read again; the copy, the
    pack/unpack image and a rebuilt molecule must weigh what the tables say."""
    import pickle
    from chython import MoleculeContainer
    from chython.periodictable import H
    _ext()
    isos = sorted(cls.isotopes_distribution.fget(None))
    m = MoleculeContainer()
    m.add_atom(cls(), 1, _skip_calculation=True)
    m.calc_labels()
    m._atoms[1]._implicit_hydrogens = 0
    seq = [None] + isos + [None] + isos[::-1][:2] if full else [None, isos[-1], isos[0], None]
    for k, iso in enumerate(seq):
        if k:
            with m:
                m.atom(1).isotope = iso
        h = m.atom(1).implicit_hydrogens   # the transaction recalculates the hydrogens of the re-labelled atom
        tests = [('atom(1).atomic_mass', lambda: m.atom(1).atomic_mass, table_mass(cls, iso)),
                 ('hash(atom(1)) == hash(atom of a freshly built molecule)', lambda: hash(m.atom(1)) == hash(_mol(cls, iso, 0, False, h).atom(1)), True),
                 ('atom(1).copy(hydrogens=True) keeps label and hydrogens', lambda: (m.atom(1).copy(hydrogens=True).isotope, m.atom(1).copy(hydrogens=True).implicit_hydrogens, m.atom(1).copy().implicit_hydrogens), (iso, h, None))]
        if h is not None:
            want = table_mass(cls, iso) + h * table_mass(H, None)
            tests += [('molecular_mass', lambda: m.molecular_mass, want), ('copy().molecular_mass', lambda: m.copy().molecular_mass, want)]
            if k % 3 == 1 or k == len(seq) - 1:
                tests.append(('unpack(pack()).molecular_mass', lambda: MoleculeContainer.unpack(m.pack()).molecular_mass, want))
                tests.append(('pickle round trip molecular_mass', lambda: pickle.loads(pickle.dumps(m)).molecular_mass, want))
                tests.append(('pickled atom atomic_mass', lambda: pickle.loads(pickle.dumps(m.atom(1))).atomic_mass, table_mass(cls, iso)))
        for name, get, want in tests:
            try:
                got = get()
            except Exception as e:
                got = 'raises ' + type(e).__name__
            yield (f'{name} after labels {seq[:k + 1]}', _close(got, want) if isinstance(want, float) else got == want, got, want)


def query_history(cls, qcls, full=False):
    """a query atom driven through its setters and then used: it must select exactly what a freshly built query atom of the same
    state selects (both matchers)."""
    _ext()
    isos = sorted(cls.isotopes_distribution.fget(None))
    qa = qcls()
    steps = []
    states = [(isos[0], 0, False), (isos[-1], 1, True), (None, -1, True), (isos[len(isos) // 2], -4, False), (None, 0, False)]
    for iso, c, r in states if full else states[1:4]:
        qa.isotope = iso
        qa.charge = c
        qa.is_radical = r
        steps.append((iso, c, r))
        for miso in dict.fromkeys([iso, None, isos[0], isos[-1]] if full else [iso, None, isos[0]]):
            for mr in (False, True):
                m = _mol(cls, miso, c, mr, 0)
                expect = mr == r and (iso is None or iso == miso)
                got = _both(_query(qa.copy()), m)
                fresh = _both(_query(qcls(iso, charge=c, is_radical=r)), m)
                yield (f'query atom after {steps} against isotope={miso} radical={mr}', got == fresh == (expect, expect), got, (expect, expect))


def history_predicates(sym, rng, n_random=3, length=16, full=True):
    """yields (predicate, detail, ok, ops|None)"""
    from chython.periodictable import Element, QueryElement
    cls = Element.from_symbol(sym)
    for name, ops in walk_histories(cls):
        bad, n = run_history(cls, ops)
        yield ('history-' + name, sym + ('' if bad is None else f':step={bad[0]}:{bad[1]}:got={bad[2]!r}:want={bad[3]!r}'), bad is None, ops, n)
    for k in range(n_random):
        ops = random_history(cls, rng, length)
        bad, n = run_history(cls, ops)
        yield ('history-random', f'{sym}:{ops!r}' + ('' if bad is None else f':step={bad[0]}:{bad[1]}:got={bad[2]!r}:want={bad[3]!r}'), bad is None, ops, n)
    for what, ok, got, want in molecule_history(cls, full):
        yield ('history-molecule', f'{sym}:{what}' + ('' if ok else f':got={got!r}:want={want!r}'), ok, None, 1)
    for what, ok, got, want in query_history(cls, QueryElement.from_symbol(sym), full):
        yield ('history-query-atom', f'{sym}:{what}' + ('' if ok else f':got={got!r}:want={want!r}'), ok, None, 1)


# ------------------------------------------------------------------------------------------------
# correspondence with the Lean model of the atom object (Drivers/C18.lean, request HIST)
# ------------------------------------------------------------------------------------------------

def val_token(v):
    if v is None:
        return 'N'
    if isinstance(v, bool):
        return 'T' if v else 'F'
    if isinstance(v, int):
        return f'I{v}'
    return 'X'


def hist_request(sym, ops):
    head = ops[0]
    toks = [f'HIST {sym} {val_token(head[1])} {val_token(head[2])} {val_token(head[3])}']
    for op in ops[1:]:
        k = op[0]
        toks.append({'iso': 'i:', 'charge': 'c:', 'rad': 'r:'}[k] + val_token(op[1]) if k in ('iso', 'charge', 'rad')
                    else 'm' if k == 'read' else 'k' if k == 'copy' else f'v:{op[1]}')
    return ' '.join(toks)


def _rule_token(rules):
    if isinstance(rules, str):
        return 'v=-' if rules == 'ValenceError' else 'v=' + rules
    return 'v=' + '|'.join(f'{h};' + ','.join(f'{o}.{z}.{n}' for (o, z), n in d.items()) for _, d, h in rules)


def hist_real(cls, ops):
    """the same history on the real object, as the driver's response tokens (mass as a float: compared with a tolerance of
    10^-11 u against the model's exact rational, every other token verbatim)"""
    head = ops[0]
    try:
        a = cls(head[1], charge=head[2], is_radical=head[3])
    except (ValueError, TypeError) as e:
        return ['new:' + type(e).__name__]
    out = ['new:ok']
    for op in ops[1:]:
        k = op[0]
        try:
            if k == 'iso':
                a.isotope = op[1]
                out.append('ok')
            elif k == 'charge':
                a.charge = op[1]
                out.append('ok')
            elif k == 'rad':
                a.is_radical = op[1]
                out.append('ok')
            elif k == 'copy':
                a = a.copy()
                out.append('ok')
            elif k == 'read':
                try:
                    out.append(('m', a.atomic_mass))
                except KeyError:
                    out.append('m=KeyError')
            elif k == 'rules':
                out.append(_rule_token(_rules(a, op[1])))
        except (ValueError, TypeError) as e:
            out.append(type(e).__name__)
    out.append(f'state={"N" if a.isotope is None else int(a.isotope)},{int(a.charge)},{int(a.is_radical)}')
    return out


def hist_agree(real, model_line):
    mt = model_line.split(' ')
    if len(mt) != len(real):
        return False
    for r, m in zip(real, mt):
        if isinstance(r, tuple):
            if not m.startswith('m=') or not m[2:].isdigit() or abs(r[1] * 1e12 - int(m[2:])) > 10:
                return False
        elif r != m:
            return False
    return True


def model_histories(cls, rng, n_random, length):
    """histories for the model correspondence: the walks, and random ones that also use bool / wrong-typed values"""
    for name, ops in walk_histories(cls):
        yield name, ops
    dist = sorted(cls.isotopes_distribution.fget(None))
    for _ in range(n_random):
        ops = random_history(cls, rng, length)
        for op in ops[1:]:
            if op[0] in ('iso', 'charge') and rng.random() < 0.08:
                op[1] = rng.choice([True, False, None, 1.0])
            elif op[0] == 'rad' and rng.random() < 0.15:
                op[1] = rng.choice([None, 1, 0, 'x'])
        if rng.random() < 0.15:
            ops[0] = ['new', rng.choice([None, dist[0], max(dist) + 1, 0, True, 2.5]), rng.choice([0, 4, -4, 5, None, 1.0]), rng.choice([False, True, None, 1])]
        yield 'random', ops
