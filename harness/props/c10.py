"""C10 — binary pack format: lossless round trip, stable published layout (proof).

Tie: G = the two `common_isotopes` tables, `elements`, and the per-element isotope data (Gen/PackTables.lean);
K = the Lean model `Model/Pack.lean` (encode / decode / attach / packLen / reaction framing / half floats) and
`Model/PackStereo.lean` (the cumulene / cis-trans perception that `pack` and `unpack` read: `perceive`, `packFull`, `unpackFull`) against the
REAL `MoleculeContainer.pack/unpack/pack_len`, `ReactionContainer.pack/unpack/pack_len` running on the pyx2py
rendering of `_pack_v2.pyx` / `_unpack_v0v2.pyx`: bytes vs bytes, decoded fields vs decoded fields, on structured
molecules that reach every format limit, on corpus molecules, and on the 4200 published packs of pach/SI.zip.
Search / probe: a property-level oracle on the real code only (`unpack(pack(m))` field by field, bytes vs an independent
bit-level writer of the documented layout, `pack_len`, reaction roles) — it never consults the Lean model.
"""
import csv
import io
import math
import struct
import zipfile
import zlib
from fractions import Fraction

from .. import core
from ..core import REPO
from ..gen import gen_packtables, gen_packstereo

LEVEL = 'proof'
LEVEL_TEXT = ('The round trip decode(encode m) = m, bit-for-bit conformance of encode with the documented layout, the 3-bit '
              'order stream and 12-bit pair stream for every length, pack_len, the reaction framing and the half-float '
              'conversion are universally quantified Lean theorems about the executable model that the driver runs; the '
              'model is tied to today\'s source by regenerated tables and by byte-exact differential testing against the real '
              'pack/unpack on limit-reaching molecules and all published packs. Since round 5 the cumulene / cis-trans perception '
              'that pack and unpack read is inside the model (packFull / unpackFull take nothing from chython): it is proved total '
              'on well-formed graphs, its output is proved to be chains of cumulated double bonds in the sense of a chemistry spec, '
              'and the cis/trans label round trip is a theorem with hypotheses on the molecule only (format limits, marks on '
              'perceived stereogenic bonds, no hypervalent centre inside a chain; the complement is a known finding with a Lean '
              'witness). Proof is the right level because the format is pure bit arithmetic over a finite record layout and the '
              'perception is pure graph logic.')
LEVEL_NOTE = ('Lean kernel; the model is a hand transcription of the two .pyx files validated by correspondence; the real '
              'side runs the pyx2py rendering (no Cython in the sandbox: compiled-C behaviour such as uninitialised reads is '
              'outside); zlib trusted. The stereo perception the format relies on (`cumulenes`, `stereogenic_cumulenes`, '
              '`_stereo_cis_trans_terminals/_centers`) is inside the model since round 5 (`packFull`/`unpackFull`), compared '
              'verbatim with the real cached properties and proved total on well-formed graphs (`perception_total`).')
TECHNIQUE = 'Lean 4 executable model + induction / loop invariants / kernel-evaluated bit lemmas + byte-exact and dict-exact differential testing'
RULE = ('structured molecules built to hit each format limit (atom numbers 1..4095, degree 0..15, every bond-count residue mod 8, '
        'every element x every tabulated isotope, charge -4..4, H None/0..6, atom/allene/cis-trans stereo, half-range and '
        'arbitrary double coordinates), chains of 1..7 cumulated double bonds with every end pattern (substituted, H only, explicit H, '
        'metal / dative metal, triple bond), hetero-cumulenes, rings, atoms with > 2 neighbours inside a chain, random double-bond-rich '
        'graphs, each in random atom / neighbour order and numbering with marks on the perceived stereogenic bonds, '
        'corpus and hand-made molecules with random renumbering, reactions over role counts '
        'incl. empty sides, all half bit patterns, and the published packs; a case is non-trivial when the molecule has at '
        'least one bond or exercises a non-default atom field; distinct by (stream, canonical request line)')
TRUSTED = ['pyx2py rendering of _pack_v2.pyx/_unpack_v0v2.pyx (C integer widths, casts, frexp/ldexp)',
           'gen_packtables / gen_packstereo translators', 'zlib', 'Spec/PackLayout.lean written by hand from the format docstring',
           'Spec/Cumulene.lean written by hand from the IUPAC definition of cumulated double bonds']
ASSUMPTIONS = ['doubles entering double_to_float16 are finite (NaN/inf excluded)',
               'compiled-C undefined behaviour (reads of uninitialised `seen[]`, out-of-bounds) is not modelled',
               'the label round-trip theorem assumes every marked bond is the centre of a perceived stereogenic unit (MarksOK, a class '
               'invariant of chython) and that no atom is a key of two units (KeysDisjoint; its failure is the known finding '
               'C10/roundtrip/bond-stereo/shared-atom); both are evaluated by the driver on every real molecule with marks']
HAS_DRIVER = True
EXTRA_MODULES = []
FINDINGS_MODULE = 'ChythonModel.Findings.C10'

_state = {'suspects': []}


def generate(ctx):
    path, rows, pack_iso, unpack_iso, elems = gen_packtables.generate()
    _state.update(rows=rows, pack_iso=pack_iso, unpack_iso=unpack_iso, elems=elems)
    return [path, gen_packstereo.generate()]


# ------------------------------------------------------------------------------------------------
# real side
# ------------------------------------------------------------------------------------------------

_ready = False


def setup():
    global _ready
    if not _ready:
        from ..gen import pyx2py
        pyx2py.install(['chython.containers._pack_v2', 'chython.containers._unpack_v0v2'])
        _ready = True


def tri(v):
    return -1 if v is None else int(bool(v))


def dyadic(x):
    """finite float -> (neg, m, e) with |x| = m * 2**e exactly"""
    num, den = float(x).as_integer_ratio()
    neg = 1 if math.copysign(1.0, x) < 0 else 0
    return neg, abs(num), -(den.bit_length() - 1)


def build(atoms, bonds, calc=False):
    """atoms: list of dicts {n, z, iso, charge, radical, h, stereo, x, y} in dict order;
    bonds: list of (n, m, order) in insertion order (each side's neighbour dict gets the key when the bond is added)."""
    from chython import MoleculeContainer
    from chython.containers.bonds import Bond
    from chython.periodictable import Element
    mol = MoleculeContainer()
    for a in atoms:
        el = Element.from_atomic_number(a['z'])(a.get('iso'), charge=a.get('charge', 0), is_radical=bool(a.get('radical', False)),
                                                implicit_hydrogens=a.get('h'), stereo=a.get('stereo'),
                                                x=float(a.get('x', 0.)), y=float(a.get('y', 0.)))
        if a.get('iso_raw') is not None:
            el._isotope = a['iso_raw']
        mol._atoms[a['n']] = el
        mol._bonds[a['n']] = {}
    for n, m, o in bonds:
        b = Bond(o)
        mol._bonds[n][m] = b
        mol._bonds[m][n] = b
    if calc:
        mol.calc_labels()
    return mol


def mol_to_json(mol):
    """self-contained description of a molecule for replays (floats as hex)"""
    atoms = [{'n': n, 'z': a.atomic_number, 'iso': a._isotope, 'charge': a._charge, 'radical': bool(a._is_radical),
              'h': a._implicit_hydrogens, 'stereo': a._stereo, 'x': float(a.x).hex(), 'y': float(a.y).hex(),
              'nbrs': [[m, int(b), getattr(b, '_stereo', None)] for m, b in mol._bonds[n].items()]}
             for n, a in mol._atoms.items()]
    return {'atoms': atoms}


def mol_from_json(j):
    """rebuild with exactly the same dict orders (atoms and each neighbour dict); bond stereo restored"""
    from chython import MoleculeContainer
    from chython.containers.bonds import Bond
    from chython.periodictable import Element
    mol = MoleculeContainer()
    for a in j['atoms']:
        el = Element.from_atomic_number(a['z'])(None, charge=a['charge'], is_radical=a['radical'],
                                                implicit_hydrogens=a['h'], stereo=a['stereo'],
                                                x=float.fromhex(a['x']), y=float.fromhex(a['y']))
        el._isotope = a['iso']
        mol._atoms[a['n']] = el
        mol._bonds[a['n']] = {}
    for a in j['atoms']:
        for m, o, s in a['nbrs']:
            if a['n'] in mol._bonds.get(m, {}):
                mol._bonds[a['n']][m] = mol._bonds[m][a['n']]
            else:
                b = Bond(o)
                b._stereo = s
                mol._bonds[a['n']][m] = b
    return mol


def mol_req(mol):
    """flat ints of the driver's <mol>"""
    out = [len(mol._atoms)]
    for n, a in mol._atoms.items():
        ms = mol._bonds[n]
        h = a._implicit_hydrogens
        out += [n, a.atomic_number, a._isotope or 0, tri(a._stereo), *dyadic(a.x), *dyadic(a.y), -1 if h is None else h,
                a._charge, int(a._is_radical), len(ms)]
        for m, b in ms.items():
            out += [m, int(b), tri(getattr(b, '_stereo', None))]
    if any(getattr(b, '_stereo', None) is not None for *_, b in mol.bonds()):
        try:
            t = mol._stereo_cis_trans_terminals
        except Exception:
            t = {}
    else:
        t = {}
    out.append(len(t))
    for k, (tn, tm) in t.items():
        out += [k, tn, tm]
    return out


def err_kind(e):
    if isinstance(e, ValueError):
        s = str(e)
        for key, kind in (('Empty molecules', 'empty'), ('Big molecules', 'big'), ('To many neighbors', 'neighbors'),
                          ('invalid pack header', 'header'), ('byte must be in range', 'count')):
            if key in s:
                return kind
        return 'ValueError'
    if isinstance(e, KeyError):
        return 'key'
    if isinstance(e, IndexError):
        return 'overread'
    if isinstance(e, TypeError):
        return 'table'
    return 'crash:' + type(e).__name__


def real_pack(mol):
    try:
        return 'ok', list(mol.pack(compressed=False))
    except Exception as e:
        return 'err', err_kind(e)


def atom_fields(n, a, nbrs):
    return {'num': n, 'z': a.atomic_number, 'iso': a._isotope or 0, 'stereo': tri(a._stereo), 'x': a._xy.x, 'y': a._xy.y,
            'h': -1 if a._implicit_hydrogens is None else a._implicit_hydrogens, 'charge': a._charge,
            'radical': int(a._is_radical), 'nbrs': [(m, int(b), tri(getattr(b, '_stereo', None))) for m, b in nbrs.items()]}


def real_decode_raw(data):
    """the extension's own output (before the Python glue re-attaches cis/trans)"""
    from chython.containers._unpack_v0v2 import unpack
    if not data:
        return 'err', 'overread'
    if data[0] not in (0, 2):
        return 'err', 'header'
    try:
        mol, ct, size = unpack(bytes(data))
    except Exception as e:
        return 'err', err_kind(e)
    return 'ok', {'size': size, 'atoms': [atom_fields(n, a, mol._bonds[n]) for n, a in mol._atoms.items()],
                  'ct': [(n, m, int(s)) for n, m, s in ct]}, mol


def parse_decoded(it):
    size, na = next(it), next(it)
    atoms = []
    for _ in range(na):
        num, z, iso, st, xb, xn, xm, xe, yb, yn, ym, ye, h, ch, rad, deg = (next(it) for _ in range(16))
        nb = [(next(it), next(it), next(it)) for _ in range(deg)]
        atoms.append({'num': num, 'z': z, 'iso': iso, 'stereo': st, 'xbits': xb, 'x': (xn, xm, xe), 'ybits': yb,
                      'y': (yn, ym, ye), 'h': h, 'charge': ch, 'radical': rad, 'nbrs': nb})
    nct = next(it)
    ct = [(next(it), next(it), next(it)) for _ in range(nct)]
    return {'size': size, 'atoms': atoms, 'ct': ct}


def same_float(dy, v):
    neg, m, e = dy
    if Fraction(m) * Fraction(2) ** e != abs(Fraction(v)):
        return False
    return (math.copysign(1.0, v) < 0) == bool(neg)


def diff_decoded(model, real, bond_stereo=True):
    """first difference between a parsed model <decoded> and the real decoded fields, or None"""
    if model['size'] != real['size']:
        return f"size {model['size']} != {real['size']}"
    if len(model['atoms']) != len(real['atoms']):
        return f"atom count {len(model['atoms'])} != {len(real['atoms'])}"
    for i, (a, b) in enumerate(zip(model['atoms'], real['atoms'])):
        for k in ('num', 'z', 'iso', 'stereo', 'h', 'charge', 'radical'):
            if a[k] != b[k]:
                return f'atom[{i}].{k} {a[k]} != {b[k]}'
        for k in ('x', 'y'):
            if not same_float(a[k], b[k]):
                return f'atom[{i}].{k} {a[k]} != {b[k]!r}'
        na = a['nbrs'] if bond_stereo else [(m, o) for m, o, _ in a['nbrs']]
        nb = b['nbrs'] if bond_stereo else [(m, o) for m, o, _ in b['nbrs']]
        if na != nb:
            return f'atom[{i}].nbrs {na} != {nb}'
    if model['ct'] != real['ct']:
        return f"cis/trans {model['ct']} != {real['ct']}"
    return None


def parse_resp(line):
    ws = line.split()
    if not ws:
        return 'err', 'no-response'
    if ws[0] == 'err':
        return 'err', ws[1] if len(ws) > 1 else ''
    return 'ok', [int(w) for w in ws[1:]]


# ------------------------------------------------------------------------------------------------
# independent writer of the documented layout + round-trip oracle (search / probe; no Lean model here)
# ------------------------------------------------------------------------------------------------

_published = []


def published_common():
    """FROZEN published table (`mdl_isotope` per Z) read from Spec/PackLayout.lean — not from /repo; `common[z]` of the
    format description is `published[z] - 16`"""
    if not _published:
        import re
        src = core.module_path('ChythonModel.Spec.PackLayout').read_text()
        m = re.search(r'def publishedCommonIsotopes : List Nat :=\s*\[([^\]]*)\]', src)
        _published.extend(int(x) - 16 for x in m.group(1).split(','))
        assert len(_published) == 119
    return _published


def half_trunc_bits(x):
    """spec of `to half precision`: |x| truncated toward zero onto the binary16 grid, as 16 bits; None outside the half range"""
    if x == 0:
        return 0
    ax = abs(Fraction(x))
    if ax >= 65536:
        return None
    sign = 0x8000 if x < 0 else 0
    if ax < Fraction(1, 2 ** 14):
        mant = int(ax * 2 ** 24)
        return (sign | mant) if mant else 0   # the sign of a zero is not part of the property
    e = 0
    while Fraction(2) ** (e + 1) <= ax:
        e += 1
    while Fraction(2) ** e > ax:
        e -= 1
    return sign | ((e + 15) << 10) | (int(ax / Fraction(2) ** e * 1024) - 1024)


def half_value(bits):
    return struct.unpack('>e', bytes([bits >> 8, bits & 255]))[0]


class Bits:
    def __init__(self):
        self.b = []

    def put(self, width, value):
        if value < 0 or value >> width:
            raise OverflowError(f'{value} does not fit {width} bits')
        self.b += [(value >> (width - 1 - i)) & 1 for i in range(width)]

    def pad(self):
        while len(self.b) % 8:
            self.b.append(0)

    def bytes(self):
        assert len(self.b) % 8 == 0
        return bytes(int(''.join(map(str, self.b[i:i + 8])), 2) for i in range(0, len(self.b), 8))


def spec_bytes(mol, common):
    """the version-2 layout written from the format docstring (big endian bit fields), independent of the model"""
    w = Bits()
    bonds = [(n, m, b) for n, m, b in mol.bonds()]
    ct = [(n, m, b) for n, m, b in bonds if b._stereo is not None]
    w.put(8, 2)
    w.put(12, len(mol._atoms))
    w.put(12, len(ct))
    for n, a in mol._atoms.items():
        deg = len(mol._bonds[n])
        w.put(12, n)
        w.put(4, deg)
        if a._stereo is None:
            w.put(4, 0)
        elif deg == 2:
            w.put(2, 0)
            w.put(2, 3 if a._stereo else 2)
        else:
            w.put(2, 3 if a._stereo else 2)
            w.put(2, 0)
        w.put(5, 0 if a._isotope is None else a._isotope - common[a.atomic_number])
        w.put(7, a.atomic_number)
        for v in (a.x, a.y):
            hb = half_trunc_bits(v)
            w.put(16, 0 if hb is None else hb)
        w.put(3, 7 if a._implicit_hydrogens is None else a._implicit_hydrogens)
        w.put(4, a._charge + 4)
        w.put(1, int(a._is_radical))
    for n in mol._atoms:
        for m in mol._bonds[n]:
            w.put(12, m)
    for n, m, b in bonds:
        w.put(3, int(b) - 1)
    w.pad()
    if ct:
        terms = mol._stereo_cis_trans_terminals
        for n, m, b in ct:
            tn, tm = terms[n]
            w.put(12, tn)
            w.put(12, tm)
            w.put(7, 0)
            w.put(1, int(b._stereo))
    return w.bytes()


def in_limits(mol):
    """the format limits of the property's quantifier"""
    if not mol._atoms:
        return False
    for n, a in mol._atoms.items():
        if not (1 <= n <= 4095) or len(mol._bonds[n]) > 15 or not (-4 <= a._charge <= 4):
            return False
        if a._implicit_hydrogens is not None and not (0 <= a._implicit_hydrogens <= 6):
            return False
        for v in (a.x, a.y):   # coordinates outside the half range are documented to be stored as 0: not compared
            if not math.isfinite(v):
                return False
    return True


def struct_limits(mol):
    """the documented limits without the coordinate range (the hypothesis WF of the Lean theorems)"""
    if not mol._atoms or len(mol._atoms) > 4095:
        return False
    common = _state.get('pack_iso') or gen_packtables.tables()[0]
    for n, a in mol._atoms.items():
        if not (1 <= n <= 4095) or len(mol._bonds[n]) > 15 or not (-4 <= a._charge <= 4):
            return False
        if a._implicit_hydrogens is not None and not (0 <= a._implicit_hydrogens <= 6):
            return False
        if a._isotope is not None and not (1 <= a._isotope - common[a.atomic_number] <= 31):
            return False
        if any(int(b) not in (1, 2, 3, 4, 8) for b in mol._bonds[n].values()):
            return False
    return True


def public_unpackers():
    """every public way to turn pack bytes back into a molecule"""
    import chython
    from chython import MoleculeContainer
    import chython.containers as cont
    return [('MoleculeContainer.unpack', MoleculeContainer.unpack), ('MoleculeContainer.unpach', MoleculeContainer.unpach),
            ('chython.unpack', chython.unpack), ('chython.unpach', chython.unpach),
            ('chython.containers.unpack', cont.unpack), ('chython.containers.unpach', cont.unpach)]


def oracle_mol(mol, common=None):
    """property oracle on the real code. Returns list of (signature, what)."""
    from chython import MoleculeContainer
    setup()
    common = published_common()   # the published table, frozen in /verif: never the code's own table
    out = []
    try:
        data = mol.pack(compressed=False)
    except Exception as e:
        return [('C10/pack-raises/' + type(e).__name__, f'pack raised {e!r}')]
    try:
        spec = spec_bytes(mol, common)
        norm = bytearray(data)
        for k in range(len(mol._atoms)):   # -0.0 and +0.0 are the same coordinate
            for off in (4, 6):
                if 4 + 9 * k + off + 1 < len(norm) and norm[4 + 9 * k + off] == 0x80 and norm[4 + 9 * k + off + 1] == 0:
                    norm[4 + 9 * k + off] = 0
        if spec != bytes(norm):
            data_ = bytes(norm)
            i = next((k for k in range(min(len(spec), len(data_))) if spec[k] != data_[k]), min(len(spec), len(data_)))
            out.append(('C10/layout/' + block_of(mol, i), f'byte {i}: packed {data_[i:i + 1].hex()} but the documented layout gives '
                        f'{spec[i:i + 1].hex()} (lengths {len(data)}/{len(spec)})'))
    except OverflowError as e:
        out.append(('C10/layout/field-overflow', str(e)))
    for compressed in (False, True):
        blob = zlib.compress(data, 9) if compressed else data
        try:
            if compressed and mol.pack() != blob and zlib.decompress(mol.pack()) != data:
                out.append(('C10/compressed-differs', 'pack() does not decompress to pack(compressed=False)'))
            u = MoleculeContainer.unpack(blob, compressed=compressed, skip_labels_calculation=True)
            ln = MoleculeContainer.pack_len(blob, compressed=compressed)
        except Exception as e:
            out.append(('C10/unpack-raises/' + type(e).__name__, f'unpack/pack_len raised {e!r}'))
            continue
        if ln != len(mol._atoms):
            out.append(('C10/pack_len', f'pack_len {ln} != {len(mol._atoms)} atoms'))
        d = diff_mols(mol, u)
        if d:
            sig = 'C10/roundtrip/' + d[0]
            if d[0] == 'bond-stereo' and shared_stereo_atoms(mol):
                sig += '/shared-atom'
            out.append((sig, d[1]))
    # the other public writers give the same bytes
    try:
        if zlib.decompress(bytes(mol)) != data or mol.pach(compressed=False) != data or zlib.decompress(mol.pach()) != data:
            out.append(('C10/entry-point/pach-or-bytes', 'bytes(mol) / mol.pach() differ from mol.pack()'))
    except Exception as e:
        out.append(('C10/entry-point/pach-or-bytes', f'bytes(mol) / mol.pach() raised {e!r}'))
    # the documented options: within the limits `check=False` writes the same bytes; `version=2` is the only version (anything else is
    # the documented ValueError); `order` is ignored by version 2
    try:
        if (mol.pack(compressed=False, check=False) != data or mol.pach(compressed=False, check=False, version=2) != data
                or mol.pack(compressed=False, version=2, order=list(mol._atoms)[::-1]) != data):
            out.append(('C10/entry-point/options', 'pack(check=False) / pack(version=2, order=…) differ from pack()'))
        try:
            mol.pack(compressed=False, version=3)
            out.append(('C10/entry-point/options', 'pack(version=3) did not raise'))
        except ValueError:
            pass
    except Exception as e:
        out.append(('C10/entry-point/options', f'pack with explicit options raised {e!r}'))
    # stable layout: bytes written from the format description alone (a pack published earlier), format versions 2 and 0,
    # must decode to this molecule through every public reader, compressed or not
    if len(mol._atoms) <= 400:
        try:
            spec2 = spec_bytes(mol, common)
        except OverflowError:
            spec2 = None
        if spec2 is not None:
            for ver, sb in ((2, spec2), (0, to_v0(mol, spec2))):
                for nm, fn in public_unpackers():
                    for compressed in (False, True):
                        try:
                            u = fn(zlib.compress(sb, 9) if compressed else sb, compressed=compressed)
                        except Exception as e:
                            out.append((f'C10/published-v{ver}/{nm}/raises', f'{nm}(compressed={compressed}) of the documented version-{ver} '
                                        f'bytes raised {e!r}'))
                            break
                        d = diff_mols(mol, u) if type(u).__name__ == 'MoleculeContainer' else ('type', f'returned {type(u).__name__}')
                        if d and d[0] == 'bond-stereo' and shared_stereo_atoms(mol):
                            out.append(('C10/roundtrip/bond-stereo/shared-atom', f'{nm} of the documented version-{ver} bytes: {d[1]}'))
                            break
                        if d:
                            out.append((f'C10/published-v{ver}/{nm}/{d[0]}', f'{nm}(compressed={compressed}) of the documented '
                                        f'version-{ver} bytes: {d[1]}'))
                            break
                try:
                    if MoleculeContainer.pack_len(sb, compressed=False) != len(mol._atoms):
                        out.append((f'C10/published-v{ver}/pack_len', 'pack_len of the documented bytes is wrong'))
                except Exception as e:
                    out.append((f'C10/published-v{ver}/pack_len', f'pack_len raised {e!r}'))
    return out


def shared_stereo_atoms(mol):
    """atoms that are a dictionary key (end or centre atom) of two different cis/trans units of the REAL perception:
    two stereogenic double bonds that share an atom (needs an atom with > 2 neighbours and two double bonds)"""
    try:
        paths = [p for p in mol.stereogenic_cumulenes if len(p) % 2 == 0]
    except Exception:
        return set()
    seen, shared = {}, set()
    for k, p in enumerate(paths):
        i = len(p) // 2
        for x in {p[0], p[-1], p[i - 1], p[i]}:
            if x in seen and seen[x] != k:
                shared.add(x)
            seen[x] = k
    return shared


def block_of(mol, i):
    na = len(mol._atoms)
    nb = sum(len(x) for x in mol._bonds.values()) // 2
    if i < 4:
        return 'header'
    if i < 4 + 9 * na:
        return 'atom-byte%d' % ((i - 4) % 9)
    if i < 4 + 9 * na + 3 * nb:
        return 'connection-table'
    if i < 4 + 9 * na + 3 * nb + (3 * nb + 7) // 8:
        return 'bond-orders'
    return 'cis-trans'


def diff_mols(a, b):
    """field-by-field comparison of the original and the unpacked molecule (what the property lists)"""
    if list(a._atoms) != list(b._atoms):
        return 'atom-numbers', f'atom numbers/order {list(a._atoms)[:12]} != {list(b._atoms)[:12]}'
    for n, x in a._atoms.items():
        y = b._atoms[n]
        for k, f in (('element', lambda t: t.atomic_number), ('isotope', lambda t: t._isotope), ('charge', lambda t: t._charge),
                     ('radical', lambda t: bool(t._is_radical)), ('hydrogens', lambda t: t._implicit_hydrogens),
                     ('atom-stereo', lambda t: t._stereo)):
            if f(x) != f(y):
                return k, f'atom {n}: {k} {f(x)!r} -> {f(y)!r}'
        for k, f in (('x', lambda t: t.x), ('y', lambda t: t.y)):
            hb = half_trunc_bits(f(x))
            if hb is not None:
                exp = half_value(hb)
                if f(y) != exp:
                    return 'coordinate', f'atom {n}: {k} {f(x)!r} -> {f(y)!r}, half truncation is {exp!r}'
        if list(a._bonds[n]) != list(b._bonds[n]):
            return 'neighbour-order', f'atom {n}: neighbours {list(a._bonds[n])} -> {list(b._bonds[n])}'
        for m, bd in a._bonds[n].items():
            bu = b._bonds[n][m]
            if int(bd) != int(bu):
                return 'bond-order', f'bond {n}-{m}: order {int(bd)} -> {int(bu)}'
            if bd._stereo != bu._stereo:
                return 'bond-stereo', f'bond {n}-{m}: stereo {bd._stereo} -> {bu._stereo}'
            if b._bonds[m][n] is not bu:
                return 'bond-sharing', f'bond {n}-{m}: the two directions are different objects after unpack'
    return None


# ------------------------------------------------------------------------------------------------
# generators
# ------------------------------------------------------------------------------------------------

def half_coords(rng, k):
    """coordinates over the whole half range: exact half values, arbitrary doubles, boundaries"""
    edge = [0.0, -0.0, 1.0, -1.0, 65504.0, -65504.0, 65519.99, 65535.9, 2.0 ** -24, 2.0 ** -25, -2.0 ** -25, 2.0 ** -14,
            2.0 ** -14 - 2.0 ** -24, 2.0 ** -15, 1023.5, 1023.9999, 2047.99, 0.1, -0.1, 1 / 3, 5e-8, 6e-8, 3e-8, 1e-30,
            1.0000001, 0.99999999, 32768.0, 65520.0, 65536.0, 1e6, -1e6, 5e-324, 2.0 ** -1000]
    out = []
    for _ in range(k):
        c = rng.random()
        if c < 0.25:
            out.append(rng.choice(edge))
        elif c < 0.5:
            b = rng.randrange(0, 0x7c00) | rng.choice([0, 0x8000])
            out.append(half_value(b))
        elif c < 0.8:
            out.append(rng.choice([-1, 1]) * math.ldexp(rng.random() + 0.5, rng.randint(-27, 17)))
        else:
            out.append(rng.uniform(-30, 30))
    return out


def gen_limits(ctx):
    """molecules built to reach each format limit. Yields (name, mol)."""
    rng = ctx.rng
    rows = _state.get('rows') or gen_packtables.element_rows()
    # every element with every tabulated isotope (and None), grouped in chains
    pairs = [(z, iso) for z, sym, mdl, isos in rows for iso in [None] + isos]
    step = 40 if not ctx.quick else 60
    for i in range(0, len(pairs), step):
        chunk = pairs[i:i + step]
        nums = rng.sample(range(1, 4096), len(chunk))
        xs, ys = half_coords(rng, len(chunk)), half_coords(rng, len(chunk))
        atoms = [{'n': n, 'z': z, 'iso': iso, 'charge': rng.randint(-4, 4), 'radical': rng.random() < 0.3,
                  'h': rng.choice([None, 0, 1, 2, 3, 4, 5, 6]), 'stereo': rng.choice([None, None, True, False]),
                  'x': x, 'y': y}
                 for n, (z, iso), x, y in zip(nums, chunk, xs, ys)]
        bonds = [(nums[k], nums[k + 1], rng.choice([1, 2, 3, 4, 8])) for k in range(len(nums) - 1)]
        rng.shuffle(bonds)
        yield f'isotopes[{i}]', build(atoms, bonds)
    # every bond-count residue mod 8 (0..26 bonds), every order code in every stream phase
    for nb in range(0, 27 if ctx.quick else 60):
        nums = rng.sample(range(1, 4096), nb + 1)
        atoms = [{'n': n, 'z': 6, 'x': x, 'y': y} for n, x, y in zip(nums, half_coords(rng, nb + 1), half_coords(rng, nb + 1))]
        bonds = [(nums[rng.randrange(0, k + 1)], nums[k + 1], rng.choice([1, 2, 3, 4, 8])) for k in range(nb)]
        yield f'bonds[{nb}]', build(atoms, bonds)
    # every bond order (1,2,3,4,8) at every position of the order stream: 40 = lcm(8,5) bonds, emission order = chain order,
    # order at position i is ORD[(i + k) % 5]; k = 0..4 puts every order on every position mod 8 and mod 5
    ORD = [1, 2, 3, 4, 8]
    for k in range(5):
        for nb in (40, 43):
            atoms = [{'n': i + 1, 'z': 6} for i in range(nb + 1)]
            yield f'orders[{k},{nb}]', build(atoms, [(i + 1, i + 2, ORD[(i + k) % 5]) for i in range(nb)])
    # all bonds of one order, every length 1..17 (final flush in every phase with every code)
    for o in ORD:
        for nb in range(1, 18):
            yield f'uniform[{o},{nb}]', build([{'n': i + 1, 'z': 6} for i in range(nb + 1)], [(i + 1, i + 2, o) for i in range(nb)])
    # degree 0..15 hubs, atom numbers at the limits
    for deg in list(range(0, 16)):
        hub = rng.choice([1, 255, 256, 4095, rng.randint(257, 4094)])
        others = rng.sample([k for k in range(1, 4096) if k != hub], deg)
        order = [hub] + others
        rng.shuffle(order)
        atoms = [{'n': n, 'z': rng.choice([6, 7, 8, 15, 16, 26, 78]), 'stereo': rng.choice([None, True, False]),
                  'h': rng.choice([None, 0, 1, 6]), 'charge': rng.choice([-4, 0, 4])} for n in order]
        bonds = [(hub, o, rng.choice([1, 2, 3, 4, 8])) if rng.random() < 0.5 else (o, hub, rng.choice([1, 2, 3, 4, 8])) for o in others]
        yield f'hub[{deg}]', build(atoms, bonds)
    # exhaustive field grid on a single atom: charge x H x radical, stereo x degree(1,2,3)
    for ch in range(-4, 5):
        for h in (None, 0, 1, 2, 3, 4, 5, 6):
            for rad in (False, True):
                yield f'field[{ch},{h},{rad}]', build([{'n': 1 + (ch + 4) * 455, 'z': 7, 'charge': ch, 'h': h, 'radical': rad}], [])
    for st in (None, True, False):
        for deg in (0, 1, 2, 3, 4):
            atoms = [{'n': 10, 'z': 6, 'stereo': st}] + [{'n': 20 + k, 'z': 6} for k in range(deg)]
            yield f'stereo[{st},{deg}]', build(atoms, [(10, 20 + k, 1) for k in range(deg)])
    # dense random graphs with random numbering (ring closures: back-connections in every position)
    for k in range(6 if ctx.quick else 40):
        n = rng.randint(2, 40)
        nums = rng.sample(range(1, 4096), n)
        atoms = [{'n': v, 'z': rng.randint(1, 118), 'charge': rng.randint(-4, 4), 'h': rng.choice([None, 0, 1, 2, 3]),
                  'x': x, 'y': y} for v, x, y in zip(nums, half_coords(rng, n), half_coords(rng, n))]
        pairs_ = [(a, b) for i, a in enumerate(nums) for b in nums[i + 1:]]
        rng.shuffle(pairs_)
        deg = {v: 0 for v in nums}
        bonds = []
        for a, b in pairs_[:rng.randint(0, min(len(pairs_), 3 * n))]:
            if deg[a] < 15 and deg[b] < 15:
                deg[a] += 1
                deg[b] += 1
                bonds.append((a, b, rng.choice([1, 1, 2, 3, 4, 8])) if rng.random() < 0.5 else (b, a, rng.choice([1, 2])))
        yield f'dense[{k}]', build(atoms, bonds)


def lattice(n, steps):
    """n atoms 1..n, bond k -- k+s for every s in steps: large packs (offsets beyond 65535 bytes)"""
    atoms = [{'n': k + 1, 'z': 6 + (k % 3)} for k in range(n)]
    bonds = [(k + 1, k + s + 1, 1 + ((k + s) % 3)) for k in range(n) for s in steps if k + s < n]
    return build(atoms, bonds)


def polyene(k):
    from chython import smiles
    return smiles('C' + '/C=C' * k + '/C')


def gen_big(ctx):
    yield 'polyene[300]', polyene(300)      # more than 255 cis/trans records (12-bit count field)
    yield 'lattice[4095;1]', lattice(4095, (1,))
    yield 'lattice[4095;1,16,256]', lattice(4095, (1, 16, 256))
    if not ctx.quick:
        yield 'lattice[3000;1,2,3,4,5,6]', lattice(3000, (1, 2, 3, 4, 5, 6))
        yield 'lattice[4095;1,2,3,4,5,6,7]', lattice(4095, (1, 2, 3, 4, 5, 6, 7))


STEREO_SMILES = ['C/C=C/C', 'C/C=C\\C', 'C/C=C/C=C\\C', 'F/C=C/C=C/C=C\\Cl', 'C/C=C=C=C/C', 'C/C=C=C=C\\C', 'CC=[C@]=CC',
                 'CC=[C@@]=CC', 'N[C@@H](C)C(=O)O', 'N[C@H](C)C(=O)O', 'F[C@](Cl)(Br)I', 'C[C@H]1CC[C@@H](C)CC1',
                 'OC[C@H]1OC(O)[C@H](O)[C@@H](O)[C@@H]1O', 'C/C=C/[C@H](O)/C=C\\C', 'C1CCC/C=C/CC1', 'C/C(F)=C(/Cl)Br',
                 '[2H]/C=C/[13CH3]', 'C/N=N/C', 'C/C=N/O', 'C[S@](=O)CC', 'C/C=C/C.C/C=C\\C', 'CC(C)=C=C=C(C)C',
                 'C/C(Cl)=C=C=C(/C)Cl', 'Cl/C=C/C=C=C=C/C=C\\Br']


def gen_real(ctx):
    """molecules from the real readers: stereo, corpus, hand-made; each also randomly renumbered up to 4095"""
    from .. import molgen
    rng = ctx.rng
    mols = []
    for s in STEREO_SMILES:
        m = molgen.parse(s)
        if m is not None:
            mols.append(('stereo:' + s, m))
    mols += [('hand:' + s, m) for s, m in molgen.handmade()]
    mols += molgen.corpus(rng, 60 if ctx.quick else 600)
    for name, m in mols:
        yield name, m
        try:
            if name.startswith('stereo:'):   # terminals and atom numbers above 255 / 2048 in every cis/trans record
                r, _ = molgen.renumber(rng, m, lo=3000, hi=4095)
            else:
                r, _ = molgen.renumber(rng, m, lo=1, hi=rng.choice([4095, 4095, 300, None]))
        except Exception:
            continue
        # coordinates over the half range on the renumbered copy
        from chython.periodictable.base.vector import Vector
        for a, x, y in zip(r._atoms.values(), half_coords(rng, len(r._atoms)), half_coords(rng, len(r._atoms))):
            a._xy = Vector(x, y)   # a fresh Vector: Element.copy shares it with the cached parse
        yield name + ':renum', r


# ------------------------------------------------------------------------------------------------
# correspondence
# ------------------------------------------------------------------------------------------------

def line(op, ints):
    return op + ' ' + ' '.join(map(str, ints))


def nontrivial(mol):
    if any(mol._bonds.values()):
        return True
    return any(a._isotope or a._charge or a._is_radical or a._stereo is not None or a.x or a.y for a in mol._atoms.values())


class Batch:
    """collects driver requests with a continuation that checks each response against the real code"""

    def __init__(self, ctx):
        self.ctx, self.lines, self.conts = ctx, [], []

    def add(self, stream, op, ints, cont, nontriv=True):
        ln = line(op, ints)
        self.lines.append(ln)
        self.conts.append((stream, cont))
        self.ctx.count((stream, ln), nontrivial=nontriv)
        self.ctx.dist('stream:' + stream)

    def run(self):
        if not self.lines:
            return
        resp = core.run_driver('C10', self.lines)
        if len(resp) != len(self.lines):
            self.ctx.broke('correspondence', 'driver-protocol', f'{len(resp)} responses for {len(self.lines)} requests')
            return
        for ln, r, (stream, cont) in zip(self.lines, resp, self.conts):
            try:
                d = cont(parse_resp(r))
            except Exception as e:  # harness bug or unexpected real-side exception: a disagreement to triage, never silent
                d = f'checker raised {type(e).__name__}: {e}'
            if d:
                self.ctx.cov['disagreements_checked'] += 1
                if sum(1 for b in self.ctx.broken if b.name == stream) < 5:
                    self.ctx.broke('correspondence', stream, f'{d}\nrequest: {ln[:1500]}\nmodel: {r[:600]}')
        self.lines, self.conts = [], []


def add_mol_cases(batch, name, mol, sample=False):
    """pack / unpack / unpack+attach / pack_len of one molecule, model vs real"""
    ctx = batch.ctx
    nt = nontrivial(mol)
    req = mol_req(mol)
    rp = real_pack(mol)
    ctx.dist('atoms<=%d' % (10 ** len(str(max(len(mol._atoms), 1)))))
    ctx.dist('bonds%%8=%d' % ((sum(len(x) for x in mol._bonds.values()) // 2) % 8))
    sus = ({'kind': 'smiles', 'smiles': 'C' + '/C=C' * 300 + '/C'} if name.startswith('polyene[') else
           {'kind': 'mol', 'name': name, 'mol': mol_to_json(mol)} if not name.startswith('lattice[') else
           {'kind': 'lattice', 'atoms': len(mol._atoms), 'steps': [int(v) for v in name.split(';')[1].rstrip(']').split(',')]})

    def c_pack(res):
        if res[0] != rp[0] or res[1] != rp[1]:
            _state['suspects'].append(sus)
            if res[0] == rp[0] == 'ok':
                i = next((k for k in range(min(len(res[1]), len(rp[1]))) if res[1][k] != rp[1][k]), -1)
                return f'pack bytes differ at {i} ({block_of(mol, i) if i >= 0 else "length"}): model {res[1][i:i + 4]} real {rp[1][i:i + 4]} [{name}]'
            return f'pack outcome: model {res[0]} {str(res[1])[:60]} real {rp[0]} {str(rp[1])[:60]} [{name}]'
        return None
    batch.add('pack', 'pack', req, c_pack, nt)
    if len(mol._atoms) <= 1500:
        # the same real bytes against `packFull`: terminals from the MODEL's perception, nothing taken from chython
        batch.add('pack-full', 'packf', req, c_pack, nt)
    lim = struct_limits(mol)
    ctx.dist('within-format-limits' if lim else 'outside-format-limits')

    def c_wf(res):
        ctx.dist('wfb=%s' % (res[1][0] if res[0] == 'ok' else res))
        if lim and res != ('ok', [1]):
            return f'the theorems\' hypothesis WF does not hold for a molecule within the format limits [{name}]: {res}'
        return None
    batch.add('wf-hypothesis', 'wf', req, c_wf, nt)
    if len(mol._atoms) <= 1500:
        add_perception_cases(batch, name, mol, req, lim, sus)
    if sample:
        ctx.sample({'request': line('pack', req)[:300], 'real': (rp[0] + ' ' + ' '.join(map(str, rp[1])))[:300] if rp[0] == 'ok' else rp})
    if rp[0] != 'ok':
        ctx.dist('pack-error:' + str(rp[1]))
        return
    data = rp[1]
    rd = real_decode_raw(data)

    def c_unpack(res):
        if res[0] != rd[0]:
            _state['suspects'].append(sus)
            return f'unpack outcome: model {res} real {rd[:2]} [{name}]'
        if res[0] == 'ok':
            d = diff_decoded(parse_decoded(iter(res[1])), rd[1])
            if d:
                _state['suspects'].append(sus)
                return f'unpack: {d} [{name}]'
        return None
    batch.add('unpack', 'unpack', data, c_unpack, nt)

    # the glue: header test, cis/trans re-attachment with the real `_stereo_cis_trans_centers`
    from chython import MoleculeContainer
    try:
        u, size = MoleculeContainer.unpack(bytes(data), compressed=False, skip_labels_calculation=True, _return_pack_length=True)
        ru = ('ok', {'size': size, 'atoms': [atom_fields(n, a, u._bonds[n]) for n, a in u._atoms.items()],
                     'ct': rd[1]['ct'] if rd[0] == 'ok' else []})
        centers = u._stereo_cis_trans_centers if ru[1]['ct'] else {}
    except Exception as e:
        ru, centers = ('err', err_kind(e)), {}
    creq = [len(centers)] + [v for k, (p, q) in centers.items() for v in (k, p, q)]

    def c_unpacka(res):
        if res[0] != ru[0]:
            _state['suspects'].append(sus)
            return f'unpack+attach outcome: model {res[0]} real {ru[0]} {ru[1] if ru[0] == "err" else ""} [{name}]'
        if res[0] == 'ok':
            d = diff_decoded(parse_decoded(iter(res[1])), ru[1])
            if d:
                _state['suspects'].append(sus)
                return f'unpack+attach: {d} [{name}]'
        return None
    if centers:
        ctx.dist('cis-trans-molecules')
        try:
            own = mol._stereo_cis_trans_centers
        except Exception:
            own = {}
        oreq = [len(own)] + [v for k, (p, q) in own.items() for v in (k, p, q)]

        shared = bool(shared_stereo_atoms(mol))

        def c_cok(res):
            ctx.dist('centersOKb=%s%s' % (res[1][0] if res[0] == 'ok' else res, '/shared-atom' if shared else ''))
            if lim and res != ('ok', [1]) and not shared:
                return f'hypothesis CentersOK of the stereo round-trip theorem does not hold for the real centers dictionary [{name}]: {res}'
            return None
        batch.add('centers-hypothesis', 'cok', oreq + req, c_cok, nt)
    batch.add('unpack+attach', 'unpacka', creq + data, c_unpacka, nt)
    if len(mol._atoms) <= 1500:
        # `unpackFull`: the centres dictionary is perceived by the model on the decoded molecule
        batch.add('unpack-full', 'unpackf', data, c_unpacka, nt)

    try:
        rl = ('ok', [MoleculeContainer.pack_len(bytes(data), compressed=False)])
    except Exception as e:
        rl = ('err', err_kind(e))

    def c_len(res):
        if tuple(res) != rl and list(res) != list(rl):
            _state['suspects'].append(sus)
            return f'pack_len: model {res} real {rl} [{name}]'
        return None
    batch.add('pack_len', 'packlen', data, c_len, nt)


def real_perceived(mol):
    """the five cached properties of the REAL perception, flattened like the driver's <perceived>"""
    try:
        cum = list(mol.cumulenes)
        sg = mol.stereogenic_cumulenes
        t, c, al = mol._stereo_cis_trans_terminals, mol._stereo_cis_trans_centers, mol._stereo_allenes_terminals
    except KeyError:
        return 'err', 'key'
    except Exception as e:
        return 'err', 'crash:' + type(e).__name__
    out = [len(cum)]
    for p_ in cum:
        out += [len(p_), *p_]
    out.append(len(sg))
    for p_, (n1, m1, n2, m2) in sg.items():
        out += [len(p_), *p_, n1, m1, -1 if n2 is None else n2, -1 if m2 is None else m2]
    for d in (t, c, al):
        out.append(len(d))
        for k, (a, b) in d.items():
            out += [k, a, b]
    return 'ok', out


def add_perception_cases(batch, name, mol, req, lim, sus):
    """model `perceive` vs the real cached properties (lists and dict key order compared verbatim), and the executable
    hypotheses of the stereo round-trip theorem on molecules that carry cis/trans marks"""
    ctx = batch.ctx
    rp = real_perceived(mol)
    if rp[0] == 'ok':
        ncum = rp[1][0]
        ctx.dist('perceive:cumulenes=%s' % ('0' if not ncum else '1' if ncum == 1 else '2+'))
        lens = []
        it = iter(rp[1][1:])
        for _ in range(ncum):
            k = next(it)
            lens.append(k)
            for _ in range(k):
                next(it)
        for k in set(lens):
            ctx.dist('perceive:path-len=%d' % min(k, 9))
    marked = any(getattr(b, '_stereo', None) is not None for *_, b in mol.bonds())

    def c_perc(res):
        if res[0] != rp[0] or list(res[1]) != list(rp[1]):
            _state['suspects'].append(sus)
            return f'perception: model {res[0]} {str(res[1])[:300]} real {rp[0]} {str(rp[1])[:300]} [{name}]'
        return None
    batch.add('perceive', 'perceive', req, c_perc, bool(rp[0] == 'ok' and rp[1][0]))
    if marked and rp[0] == 'ok':
        shared = bool(shared_stereo_atoms(mol))

        def c_hyp(res):
            ctx.dist('perceived-hypotheses=%s' % (' '.join(map(str, res[1])) if res[0] == 'ok' else res))
            if res[0] != 'ok':
                return f'perception hypotheses: model {res} [{name}]'
            t, k, d, hyp = res[1]
            if hyp == 1 and d != 1:
                return (f'theorem keys_disjoint_without_hypervalent contradicted by the executable model: noHyperDoubleb=1 but '
                        f'keysDisjointb=0 [{name}]')
            if lim and (t != 1 or k != 1):
                return (f'hypotheses of the perceived stereo round-trip theorem do not hold on a real molecule: terminals-equal={t} '
                        f'marks-on-perceived-centres={k} [{name}]')
            if bool(d) == shared:
                return f'keysDisjointb={d} but the real perception has shared key atoms={shared} [{name}]'
            return None
        batch.add('perceived-hypotheses', 'phyp', req, c_hyp, True)


def shuffled_build(rng, atoms, bonds, numbers=None):
    """`build` with a random atom order, random bond insertion order and direction, optionally random atom numbers"""
    ids = [a['n'] for a in atoms]
    mp = dict(zip(ids, numbers)) if numbers else {i: i for i in ids}
    atoms = [dict(a, n=mp[a['n']]) for a in atoms]
    bonds = [((mp[a], mp[b], o) if rng.random() < 0.5 else (mp[b], mp[a], o)) for a, b, o in bonds]
    rng.shuffle(atoms)
    rng.shuffle(bonds)
    return build(atoms, bonds)


def mark_cis_trans(rng, mol, p=0.8):
    """put a cis/trans mark on the central bond of (a random subset of) the stereogenic units the REAL perception reports"""
    try:
        paths = [q for q in mol.stereogenic_cumulenes if len(q) % 2 == 0]
    except Exception:
        return mol
    for q in paths:
        if rng.random() < p:
            i = len(q) // 2
            mol._bonds[q[i - 1]][q[i]]._stereo = rng.random() < 0.5
    mol.flush_cache()
    return mol


CUM_ENDS = [  # (name, substituent atoms [(z, order)] on an end atom)
    ('CC', [(6, 1), (6, 1)]), ('C', [(6, 1)]), ('H-only', []), ('explicit-H', [(1, 1)]), ('H+C', [(1, 1), (6, 1)]),
    ('F,Cl', [(9, 1), (17, 1)]), ('metal', [(26, 1)]), ('metal+C', [(26, 1), (6, 1)]), ('dative-metal', [(26, 8)]),
    ('dative-metal+C', [(26, 8), (6, 1)]), ('triple', [(6, 3)]), ('C+any', [(6, 1), (6, 8)]), ('CCC', [(6, 1), (6, 1), (6, 1)]),
    ('Li', [(3, 1)]), ('Na+C', [(11, 1), (6, 1)])]


def gen_cumulene(ctx):
    """stereo perception: chains of 1..7 cumulated double bonds with every end pattern, hetero-cumulenes, rings, atoms with
    more than two neighbours inside a chain (sulfones, ylides: two double bonds sharing an atom), metals in and at the chain,
    random multigraph-free graphs rich in double bonds; every molecule in random atom / neighbour order and numbering"""
    rng = ctx.rng
    quick = ctx.quick

    def chain(zs, left, right, extra=()):
        atoms = [{'n': i + 1, 'z': z, 'h': 0} for i, z in enumerate(zs)]
        bonds = [(i + 1, i + 2, 2) for i in range(len(zs) - 1)]
        k = len(zs)
        for end, subs in ((1, left), (len(zs), right)):
            for z, o in subs:
                k += 1
                atoms.append({'n': k, 'z': z, 'h': 0})
                bonds.append((end, k, o))
        for pos, z, o in extra:
            k += 1
            atoms.append({'n': k, 'z': z, 'h': 0})
            bonds.append((pos, k, o))
        return atoms, bonds

    def emit(name, atoms, bonds, copies=2):
        for c in range(copies):
            nums = rng.sample(range(1, 4096), len(atoms)) if c else None
            m = shuffled_build(rng, atoms, bonds, nums) if c else build(atoms, bonds)
            yield f'cum:{name}#{c}', mark_cis_trans(rng, m, 1.0 if c == 0 else 0.7)

    # all-carbon chains of 2..8 atoms (1..7 double bonds) x end patterns
    for L in range(2, 9):
        ends = CUM_ENDS if (not quick or L <= 4) else rng.sample(CUM_ENDS, 5)
        for ln, left in ends:
            for rn, right in (ends if L == 2 and not quick else rng.sample(CUM_ENDS, 2 if quick else 4)):
                a, b = chain([6] * L, left, right)
                yield from emit(f'C{L}[{ln}|{rn}]', a, b)
    # hetero-cumulenes and chains with hetero / non-double-bond-forming atoms inside
    HET = [[7, 6, 7], [7, 6, 16], [8, 6, 8], [6, 7, 7], [7, 7, 7], [16, 6, 16], [6, 16, 6], [6, 15, 6], [6, 6, 8], [6, 6, 7],
           [7, 6], [7, 7], [6, 8], [6, 16], [14, 14], [6, 14, 6], [6, 26, 6], [6, 6, 26, 6, 6], [26, 6, 6], [6, 9, 6],
           [6, 6, 6, 7], [7, 6, 6, 6, 7], [8, 6, 6, 6, 6, 8], [6, 5, 6], [34, 6, 34], [6, 6, 13]]
    for zs in HET:
        for ln, left in rng.sample(CUM_ENDS, 3 if quick else 6):
            rn, right = rng.choice(CUM_ENDS)
            a, b = chain(zs, left if zs[0] not in (8, 16, 34) else [], right if zs[-1] not in (8, 16, 34) else [])
            yield from emit(f'het{zs}[{ln}|{rn}]', a, b)
    # an atom with more than two neighbours inside a chain of double bonds (sulfone, sulfoximine, ylides, C(=C)(=C)=C)
    for zc, nd, ns in ((16, 2, 2), (16, 2, 1), (15, 2, 1), (16, 3, 0), (16, 3, 1), (6, 3, 0), (15, 2, 2), (16, 2, 0), (6, 2, 1)):
        for trial in range(2 if quick else 5):
            atoms = [{'n': 1, 'z': zc, 'h': 0}]
            bonds = []
            k = 1
            for d in range(nd):   # arms: =C(R)R', =O, =C=C(R)R', =N-R
                arm = rng.choice(['CRR', 'O', 'C=CRR', 'NR', 'CR'])
                if arm == 'O':
                    k += 1; atoms.append({'n': k, 'z': 8, 'h': 0}); bonds.append((1, k, 2))
                    continue
                k += 1; first = k
                atoms.append({'n': k, 'z': 7 if arm == 'NR' else 6, 'h': 0}); bonds.append((1, k, 2))
                if arm == 'C=CRR':
                    k += 1; atoms.append({'n': k, 'z': 6, 'h': 0}); bonds.append((first, k, 2)); first = k
                for _ in range({'CRR': 2, 'C=CRR': 2, 'NR': 1, 'CR': 1}[arm]):
                    k += 1; atoms.append({'n': k, 'z': rng.choice([6, 6, 9, 1]), 'h': 0}); bonds.append((first, k, 1))
            for _ in range(ns):
                k += 1; atoms.append({'n': k, 'z': 6, 'h': 0}); bonds.append((1, k, 1))
            yield from emit(f'branch[{zc},{nd},{ns}].{trial}', atoms, bonds, copies=3)
    # rings: one double bond in a ring, an allene in a ring, a ring of cumulated double bonds, exocyclic chains
    for size in (3, 5, 8, 9):
        for ndb in (1, 2, 3, size):
            if ndb > size:
                continue
            atoms = [{'n': i + 1, 'z': 6, 'h': 0} for i in range(size)]
            bonds = [(i + 1, (i + 1) % size + 1, 2 if i < ndb else 1) for i in range(size)]
            atoms.append({'n': size + 1, 'z': 6, 'h': 0}); bonds.append((1, size + 1, 1))
            if ndb < size:
                atoms.append({'n': size + 2, 'z': 6, 'h': 0}); bonds.append((ndb + 1, size + 2, 1))
            yield from emit(f'ring[{size},{ndb}]', atoms, bonds)
    for L in (2, 3, 4):   # exocyclic: ring atom = first atom of the chain
        atoms = [{'n': i + 1, 'z': 6, 'h': 0} for i in range(5 + L)]
        bonds = [(i + 1, (i + 1) % 5 + 1, 1) for i in range(5)] + [(5 + i, 6 + i, 2) for i in range(L)]
        atoms += [{'n': 6 + L, 'z': 6, 'h': 0}, {'n': 7 + L, 'z': 9, 'h': 0}]
        bonds += [(5 + L, 6 + L, 1), (5 + L, 7 + L, 1)]
        yield from emit(f'exocyclic[{L}]', atoms, bonds)
    # conjugated polyenes and several units in one molecule (dict key order over many paths)
    for k in (2, 3, 5):
        atoms = [{'n': i + 1, 'z': 6, 'h': 0} for i in range(2 * k + 2)]
        bonds = [(i + 1, i + 2, 2 if i % 2 else 1) for i in range(2 * k + 1)]
        yield from emit(f'polyene[{k}]', atoms, bonds, copies=3)
    # random graphs rich in double bonds (degree <= 4, random elements incl. H, metals, halogens), no marks required
    ZS = [6, 6, 6, 6, 7, 8, 16, 15, 1, 9, 26, 14, 5, 3, 17, 33, 34, 53]
    for t in range(150 if quick else 1500):
        n = rng.randint(2, 14)
        atoms = [{'n': i + 1, 'z': rng.choice(ZS), 'h': 0} for i in range(n)]
        deg = [0] * (n + 1)
        bonds, used = [], set()
        for i in range(2, n + 1):   # random tree + a few extra edges
            j = rng.randint(1, i - 1)
            if deg[i] < 4 and deg[j] < 4:
                bonds.append((j, i, rng.choice([1, 2, 2, 2, 2, 3, 8]))); used.add((j, i)); deg[i] += 1; deg[j] += 1
        for _ in range(rng.randint(0, 2)):
            i, j = sorted(rng.sample(range(1, n + 1), 2))
            if (i, j) not in used and deg[i] < 4 and deg[j] < 4:
                bonds.append((i, j, rng.choice([1, 2, 2]))); used.add((i, j)); deg[i] += 1; deg[j] += 1
        m = shuffled_build(rng, atoms, bonds, rng.sample(range(1, 4096), n) if t % 2 else None)
        yield f'cum:random[{t}]', mark_cis_trans(rng, m, 0.6)


def corr_molecules(ctx):
    b = Batch(ctx)
    k = 0
    for gen in (gen_limits, gen_cumulene, gen_real, gen_big):
        for name, mol in gen(ctx):
            add_mol_cases(b, name, mol, sample=(k % 97 == 0))
            k += 1
            # the property oracle itself (published layout with the FROZEN isotope table, every public reader/writer, v2 and v0
            # documented bytes) runs on every limit molecule and every stereo / hand-made molecule, not only after a break
            if (gen is gen_limits or name.startswith(('stereo:', 'hand:', 'cum:'))) and in_limits(mol):
                ctx.count(('oracle', name, k))
                ctx.dist('stream:property-oracle')
                for sig, what in oracle_mol(mol):
                    ctx.fail(sig, what, {'kind': 'mol', 'name': name, 'mol': mol_to_json(mol)})
            if len(b.lines) > 3000:
                b.run()
    b.run()
    ctx.dist('molecules', k)


def rxn_parts(ctx):
    """molecule pool for reactions: every bond-count residue mod 8 (0 included: 8, 16, 24 bonds), with and without
    cis/trans blocks, isotopes/charges/stereo; the scan of `pack_len` walks over all but the last molecule."""
    from .. import molgen
    if 'rxn_pool' in _state:
        return _state['rxn_pool']
    pool = [m for s in ['C', 'CC=O', 'O', 'CCO', 'C/C=C/C', 'N[C@@H](C)C(=O)O', '[Na+]', 'c1ccccc1', '[13CH4]', 'C/C=C\\C',
                        'C/C=C/C=C/C=C/CC', 'C/C=C/CCCCCC/C=C\\CCCCCC', 'F/C=C/C=C/C=C\\CCCCCCCCCCCCCCCCCC']
            if (m := molgen.parse(s))]
    for nb in list(range(0, 18)) + [23, 24, 25, 32, 40]:
        pool.append(build([{'n': k + 1, 'z': 6, 'h': 2} for k in range(nb + 1)],
                          [(k + 1, k + 2, 1 + (k % 3 == 0)) for k in range(nb)], calc=True))
        if nb >= 3:   # ring closure: same atom count, one more bond
            pool.append(build([{'n': 2 * k + 3, 'z': 7 if k % 4 == 0 else 6} for k in range(nb)],
                              [(2 * k + 3, 2 * ((k + 1) % nb) + 3, 1) for k in range(nb)], calc=True))
    _state['rxn_pool'] = pool
    return pool


def rxn_shapes(ctx):
    rng = ctx.rng
    shapes = [(r, g, p) for r in range(0, 4) for g in range(0, 4) for p in range(0, 4) if r + g + p]  # the constructor rejects (0,0,0)
    shapes += [(rng.randint(0, 6), rng.randint(0, 6), rng.randint(0, 6)) for _ in range(10 if ctx.quick else 80)]
    return [s for s in shapes if sum(s)]


def rxn_roles(ctx, shape, k=None):
    """roles for a shape; the k-th call cycles deterministically through the pool so that every pool molecule
    (every bond count mod 8, cis/trans present/absent) occurs in a NON-last position"""
    rng = ctx.rng
    pool = rxn_parts(ctx)
    total = sum(shape)
    mols = [(pool[(k * 7 + i * 3) % len(pool)] if k is not None and i < total - 1 else rng.choice(pool)).copy() for i in range(total)]
    # the same compound more than once in one reaction, described differently (2 A >> ..., a spectator on both sides, the same
    # compound as reactant and reagent): another numbering, another atom order, other coordinates.  Every molecule of a
    # reaction must come back as IT was packed; nothing may be shared between equal compounds (round 5, C10-r5-1).
    if total >= 2 and (k is None or k % 3 != 0):
        src = rng.randrange(total - 1)
        mols[total - 1] = redescribe(rng, mols[src], mode=(k or rng.randrange(3)) % 3)
    return [mols[:shape[0]], mols[shape[0]:shape[0] + shape[1]], mols[shape[0] + shape[1]:]]


def redescribe(rng, m, mode):
    """the same compound as another object: mode 0 a plain copy with moved coordinates, 1 renumbered by a shift,
    2 renumbered by a random permutation of its own numbers (atom order kept) — coordinates moved by an exactly representable step"""
    nums = list(m._atoms)
    if mode == 1:
        mp = {n: n + 1 + (max(nums) if nums else 0) for n in nums}
    elif mode == 2:
        sh = nums[:]
        rng.shuffle(sh)
        mp = dict(zip(nums, sh))
    else:
        mp = {}
    m2 = m.copy()
    if mp:
        m2.remap(mp)
    for _, a in m2.atoms():
        try:
            a.x = a.x + 2.0
            a.y = a.y - 1.0
        except Exception:
            break
    return m2


def rxn_json(roles):
    return {'kind': 'rxn', 'roles': [[mol_to_json(m) for m in side] for side in roles]}


def rxn_from_json(j):
    from chython import ReactionContainer
    r, g, p = ([mol_from_json(m) for m in side] for side in j['roles'])
    return ReactionContainer(r, p, g)


def corr_reactions(ctx):
    from chython import ReactionContainer
    rng = ctx.rng
    pool = rxn_parts(ctx)
    b = Batch(ctx)
    shapes = rxn_shapes(ctx) * (2 if ctx.quick else 6)
    shapes += [(255, 0, 0), (0, 0, 255), (1, 255, 1)] + ([(256, 0, 0), (0, 256, 1)] if not ctx.quick else [(256, 0, 0)])
    for k, shape in enumerate(shapes):
        roles = rxn_roles(ctx, shape, k)
        for side in roles[:-1] if roles[2] else roles:
            for m in side:
                nbm = sum(len(x) for x in m._bonds.values()) // 2
                ctx.dist('rxn-nonlast-mol-bonds%%8=%d' % (nbm % 8))
                if nbm and nbm % 8 == 0:
                    ctx.dist('rxn-nonlast-mol-bonds=8k>0')
        rxn = ReactionContainer(roles[0], roles[2], roles[1])
        sus = rxn_json(roles) if sum(shape) < 30 else {'kind': 'rxn-shape', 'shape': list(shape)}
        ctx.dist('rxn-shape:%s' % ''.join('0' if k == 0 else '+' for k in shape))
        req = list(shape) + [v for side in roles for m in side for v in mol_req(m)]
        try:
            rp = ('ok', list(rxn.pack(compressed=False)))
        except Exception as e:
            rp = ('err', err_kind(e))

        def c_pack(res, rp=rp, sus=sus, shape=shape):
            if list(res) != list(rp):
                _state['suspects'].append(sus)
                return f'reaction pack {shape}: model {str(res)[:80]} real {str(rp)[:80]}'
        b.add('rxn-pack', 'rpack', req, c_pack, sum(shape) > 0)
        # the property oracle itself, always on, for the small role shapes: every public reaction reader / writer
        # (`ReactionContainer.pach/unpach/__bytes__`, `chython.unpack/unpach`, compressed and not), roles, pack_len
        if 0 < sum(shape) <= 9 and rp[0] == 'ok' and k < (64 if ctx.quick else 400):
            ctx.count(('oracle-rxn', k, tuple(shape)))
            ctx.dist('stream:property-oracle-rxn')
            for sig, what in oracle_rxn(rxn, roles):
                ctx.fail(sig, what, sus)
        if rp[0] != 'ok':
            continue
        data = rp[1]
        try:
            u = ReactionContainer.unpack(bytes(data), compressed=False)
            ru = ('ok', [[[atom_fields(n, a, m._bonds[n]) for n, a in m._atoms.items()] for m in side]
                         for side in (u.reactants, u.reagents, u.products)])
        except Exception as e:
            ru = ('err', err_kind(e))

        def c_unpack(res, ru=ru, sus=sus, shape=shape):
            if res[0] != ru[0]:
                _state['suspects'].append(sus)
                return f'reaction unpack {shape}: model {str(res)[:80]} real {str(ru)[:80]}'
            if res[0] == 'ok':
                it = iter(res[1])
                for side in ru[1]:
                    k = next(it)
                    if k != len(side):
                        _state['suspects'].append(sus)
                        return f'reaction unpack {shape}: role sizes differ (model {k}, real {len(side)})'
                    for real_atoms in side:
                        d = parse_decoded(it)
                        dd = diff_decoded({'size': 0, 'atoms': d['atoms'], 'ct': []}, {'size': 0, 'atoms': real_atoms, 'ct': []},
                                          bond_stereo=False)
                        if dd:
                            _state['suspects'].append(sus)
                            return f'reaction unpack {shape}: {dd}'
        b.add('rxn-unpack', 'runpack', data, c_unpack, sum(shape) > 0)
        if sum(shape) <= 12:
            add_unpach_case(b, 'dispatch-rxn', bytes(data), f'reaction {shape}')
        try:
            rl = ('ok', [v for side in ReactionContainer.pack_len(bytes(data), compressed=False) for v in [len(side)] + list(side)])
        except Exception as e:
            rl = ('err', err_kind(e))

        def c_len(res, rl=rl, sus=sus, shape=shape):
            if list(res) != list(rl):
                _state['suspects'].append(sus)
                return f'reaction pack_len {shape}: model {str(res)[:80]} real {str(rl)[:80]}'
        b.add('rxn-pack_len', 'rpacklen', data, c_len, sum(shape) > 0)
    b.run()


def real_f16(x):
    from chython.containers import _pack_v2 as pk
    arr = pk.CArray('unsigned char', 2)
    pk.double_to_float16(x, pk.Ptr(arr, 0))
    return arr.v[0] * 256 + arr.v[1]


def corr_half(ctx):
    from chython.containers import _unpack_v0v2 as up
    b = Batch(ctx)
    for bits in range(0, 65536, 1 if not ctx.quick else 1):
        v = up.double_from_bytes(bits >> 8, bits & 255)

        def c(res, v=v, bits=bits):
            if res[0] != 'ok' or not same_float(tuple(res[1]), v):
                _state['suspects'].append({'kind': 'half', 'bits': bits})
                return f'double_from_bytes({bits:#06x}) = {v!r}, model {res}'
        b.add('f16-decode', 'f16d', [bits], c)
    xs = half_coords(ctx.rng, 3000 if ctx.quick else 30000)
    xs += [half_value(bb) for bb in range(0, 0x7c00, 7)] + [-half_value(bb) for bb in range(0, 0x7c00, 13)]
    for x in xs:
        rb = real_f16(x)

        def c(res, rb=rb, x=x):
            if res != ('ok', [rb]):
                _state['suspects'].append({'kind': 'f16', 'x': float(x).hex()})
                return f'double_to_float16({x!r}) = {rb:#06x}, model {res}'
        b.add('f16-encode', 'f16', list(dyadic(x)), c)
    b.run()


_ref = {}


def ref_packs():
    if 'names' not in _ref:
        z = zipfile.ZipFile(REPO / 'pach' / 'SI.zip')
        names = sorted((n for n in z.namelist() if n.endswith('.pach')), key=lambda s: int(s.split('/')[-1].split('.')[0]))
        _ref.update(z=z, names=names)
        with open(REPO / 'pach' / 'lipophilicity.csv') as f:
            _ref['rows'] = list(csv.DictReader(f))
    return _ref


def summary(mol):
    """below the aromaticity layer: element counts incl. total H, net charge, heavy-atom bond count, ring bond count"""
    from collections import Counter
    c = Counter(a.atomic_symbol for a in mol._atoms.values())
    c['H'] += sum(a._implicit_hydrogens or 0 for a in mol._atoms.values())
    nb = sum(len(x) for x in mol._bonds.values()) // 2
    return (tuple(sorted(c.items())), sum(a._charge for a in mol._atoms.values()), nb, nb - len(mol._atoms) + mol.connected_components_count)


def oracle_refpack(i):
    """property oracle for published pack i (real code only)"""
    from chython import MoleculeContainer
    from .. import molgen
    setup()
    rp = ref_packs()
    blob = rp['z'].read(rp['names'][i])
    out = []
    try:
        raw = zlib.decompress(blob)
        m = MoleculeContainer.unpack(blob)
    except Exception as e:
        return [('C10/refpack/undecodable', f'{rp["names"][i]}: {e!r}')]
    if m.pack(compressed=False) != raw:
        out.append(('C10/refpack/reencode-differs', f'{rp["names"][i]} does not re-encode to the published bytes'))
    if MoleculeContainer.pack_len(blob) != len(m._atoms):
        out.append(('C10/refpack/pack_len', f'{rp["names"][i]}: pack_len {MoleculeContainer.pack_len(blob)} != {len(m._atoms)}'))
    row = rp['rows'][i] if i < len(rp['rows']) else None
    if row:
        p = molgen.parse(row['smiles'])
        if p is not None:
            try:
                p.kekule()
                k = m.copy()
                k.kekule()
                if summary(p)[:3] != summary(k)[:3] or summary(p)[3] != summary(k)[3]:
                    out.append(('C10/refpack/structure-differs', f'{rp["names"][i]} decodes to {summary(k)} but row {i} is {summary(p)}'))
            except Exception:
                pass
    return out


def corr_refpacks(ctx):
    from chython import MoleculeContainer
    rp = ref_packs()
    n = len(rp['names'])
    idx = list(range(n)) if not ctx.quick else sorted(set(list(range(0, 40)) + ctx.rng.sample(range(n), 700)))
    b = Batch(ctx)
    for i in idx:
        blob = rp['z'].read(rp['names'][i])
        raw = list(zlib.decompress(blob))
        rd = real_decode_raw(raw)
        name = rp['names'][i]
        sus = {'kind': 'refpack', 'index': i}

        def c_unpack(res, rd=rd, name=name, sus=sus):
            if res[0] != rd[0]:
                _state['suspects'].append(sus)
                return f'{name}: unpack outcome model {res[0]} real {rd[:2]}'
            d = diff_decoded(parse_decoded(iter(res[1])), rd[1])
            if d:
                _state['suspects'].append(sus)
                return f'{name}: {d}'
        b.add('ref-unpack', 'unpack', raw, c_unpack)
        try:
            m = MoleculeContainer.unpack(blob, skip_labels_calculation=True)
        except Exception as e:
            ctx.broke('correspondence', 'ref-decode', f'{name}: real unpack raised {e!r}')
            _state['suspects'].append(sus)
            continue

        def c_pack(res, raw=raw, name=name, sus=sus):
            if res != ('ok', raw):
                _state['suspects'].append(sus)
                return f'{name}: model encode of the decoded molecule differs from the published bytes'
        b.add('ref-reencode', 'pack', mol_req(m), c_pack)
        ctx.dist('ref-version:%d' % raw[0])
        if len(b.lines) > 3000:
            b.run()
    b.run()
    ctx.dist('ref-packs', len(idx))
    # property-level comparison with the CSV rows (below the aromaticity layer) on a sample; all in thorough
    for i in (idx if not ctx.quick else idx[:150]):
        ctx.count(('ref-oracle', i))
        for sig, what in oracle_refpack(i):
            ctx.fail(sig, what, {'kind': 'refpack', 'index': i})


def v0_order_block(codes):
    """version-0 bond-order block written from the layout comment of the decoder (`0 3 3 1 | 2 3 3`: five 3-bit codes
    right-aligned in two bytes, the last group zero-filled) — independent of the Lean model"""
    out = bytearray()
    codes = list(codes) + [0] * (-len(codes) % 5)
    for i in range(0, len(codes), 5):
        c = codes[i:i + 5]
        v = (c[0] << 12) | (c[1] << 9) | (c[2] << 6) | (c[3] << 3) | c[4]
        out += bytes([v >> 8, v & 255])
    return bytes(out)


def to_v0(mol, data):
    """the same molecule as a version-0 pack (only the order block and the version byte differ)"""
    na = len(mol._atoms)
    nb = sum(len(x) for x in mol._bonds.values()) // 2
    o0 = 4 + 9 * na + 3 * nb
    o1 = o0 + (3 * nb + 7) // 8
    codes = [int(b) - 1 for *_, b in mol.bonds()]
    return bytes([0]) + bytes(data[1:o0]) + v0_order_block(codes) + bytes(data[o1:])


def v0_differs(m, d0, d2):
    """real code only: the version-0 pack must decode (extension and public `unpack`/`pack_len`) like the version-2 pack"""
    from chython import MoleculeContainer
    r0, r2 = real_decode_raw(list(d0)), real_decode_raw(list(d2))
    if r0[0] != 'ok' or r2[0] != 'ok' or r0[1]['atoms'] != r2[1]['atoms'] or r0[1]['ct'] != r2[1]['ct']:
        return 'the version-0 pack of a molecule decodes to a different structure than its version-2 pack'
    try:
        u0 = MoleculeContainer.unpack(d0, compressed=False, skip_labels_calculation=True)
        n0 = MoleculeContainer.pack_len(d0, compressed=False)
    except Exception as e:
        return f'public unpack/pack_len of a version-0 pack raised {e!r}'
    d = diff_mols(m, u0)
    if d:
        return f'public unpack of the version-0 pack: {d[1]}'
    if n0 != len(m._atoms):
        return f'pack_len of the version-0 pack {n0} != {len(m._atoms)}'
    return None


def add_unpach_case(b, stream, data, tag):
    """model `unpach` vs the real public dispatcher `chython.unpack` (uncompressed) on one byte string"""
    import chython
    try:
        v = chython.unpack(bytes(data), compressed=False)
        if type(v).__name__ == 'MoleculeContainer':
            real = ('ok', 0, [atom_fields(n, a, v._bonds[n]) for n, a in v._atoms.items()])
        else:
            real = ('ok', 1, [[[atom_fields(n, a, m._bonds[n]) for n, a in m._atoms.items()] for m in side]
                              for side in (v.reactants, v.reagents, v.products)])
    except Exception as e:
        real = ('err', err_kind(e), None)

    def c(res, real=real, tag=tag):
        if res[0] != real[0]:
            return f'chython.unpack outcome [{tag}]: model {res[0]} {res[1] if res[0] == "err" else ""} real {real[:2]}'
        if res[0] != 'ok':
            return None
        it = iter(res[1])
        kind = next(it)
        if kind != real[1]:
            return f'chython.unpack [{tag}]: model returns {"reaction" if kind else "molecule"}, real {"reaction" if real[1] else "molecule"}'
        if kind == 0:
            d = parse_decoded(it)
            return diff_decoded({'size': 0, 'atoms': d['atoms'], 'ct': []}, {'size': 0, 'atoms': real[2], 'ct': []}, bond_stereo=False)
        for side in real[2]:
            k = next(it)
            if k != len(side):
                return f'chython.unpack [{tag}]: role sizes differ (model {k}, real {len(side)})'
            for real_atoms in side:
                d = parse_decoded(it)
                dd = diff_decoded({'size': 0, 'atoms': d['atoms'], 'ct': []}, {'size': 0, 'atoms': real_atoms, 'ct': []}, bond_stereo=False)
                if dd:
                    return f'chython.unpack [{tag}]: {dd}'
        return None
    b.add(stream, 'unpach', list(data), c)


def corr_synthetic(ctx):
    """decoder-side streams on byte strings the encoder cannot or does not produce today:
    version-0 packs, large cis/trans counts, arbitrary atom-record bytes."""
    from chython import MoleculeContainer
    from .. import molgen
    rng = ctx.rng
    b = Batch(ctx)
    sensible = [m for s in STEREO_SMILES if (m := molgen.parse(s))] + [m for _, m in molgen.handmade()]
    sensible += [m for _, m in molgen.corpus(rng, 30 if ctx.quick else 300)]
    mols = [m for _, m in gen_limits(ctx)][:400:3] + sensible
    sens_ids = {id(m) for m in sensible}
    for m in mols:
        rp = real_pack(m)
        if rp[0] != 'ok':
            continue
        d0 = to_v0(m, bytes(rp[1]))
        rd = real_decode_raw(list(d0))
        rd2 = real_decode_raw(rp[1])
        if rd[0] == 'ok' and rd2[0] == 'ok':   # property level: a version-0 pack of the molecule decodes to the same structure
            ctx.count(('v0-oracle', d0))
            why = v0_differs(m, d0, bytes(rp[1]))
            if why:
                ctx.fail('C10/v0/decodes-differently', why, {'kind': 'mol', 'name': 'v0', 'mol': mol_to_json(m), 'v0': True})

        def c(res, rd=rd, d0=d0):
            if res[0] != rd[0]:
                return f'v0 unpack outcome: model {res[0]} {res[1] if res[0] == "err" else ""} real {rd[:2] if rd[0] == "err" else "ok"} [{d0.hex()[:80]}]'
            if res[0] == 'ok':
                dd = diff_decoded(parse_decoded(iter(res[1])), rd[1])
                if dd:
                    return f'v0 unpack: {dd} [{d0.hex()[:80]}]'
        b.add('v0-unpack', 'unpack', list(d0), c)
        if id(m) in sens_ids:
            add_unpach_case(b, 'dispatch-v2', bytes(rp[1]), 'v2 molecule')
            add_unpach_case(b, 'dispatch-v0', d0, 'v0 molecule')
        ctx.dist('v0-bonds%%5=%d' % ((sum(len(x) for x in m._bonds.values()) // 2) % 5))
    for d in (b'', bytes([3, 0, 16, 0]), bytes([255]), bytes([1]), bytes([1, 0, 0, 0]), bytes([0]), bytes([2])):
        add_unpach_case(b, 'dispatch-malformed', d, 'malformed ' + d.hex())
    # large cis/trans counts (> 255 records) on a bond-free pack + random records
    base = build([{'n': 77, 'z': 6}, {'n': 1234, 'z': 8}], [])
    raw = bytes(base.pack(compressed=False))
    for cc in [1, 15, 16, 255, 256, 300, 1000, 4095]:
        d = bytes([raw[0], raw[1], (raw[2] & 0xf0) | (cc >> 8), cc & 255]) + raw[4:] + bytes(rng.randrange(256) for _ in range(4 * cc))
        rd = real_decode_raw(list(d))

        def c(res, rd=rd, cc=cc):
            if res[0] != rd[0]:
                return f'cis/trans count {cc}: model {res[0]} real {rd[0]}'
            if res[0] == 'ok':
                dd = diff_decoded(parse_decoded(iter(res[1])), rd[1])
                if dd:
                    return f'cis/trans count {cc}: {dd}'
        b.add('synthetic-ct', 'unpack', list(d), c)
    # arbitrary atom-record bytes on bond-free packs (every bit of the 9-byte record decoded by both sides)
    for k in range(600 if ctx.quick else 6000):
        n = rng.randint(1, 3)
        recs = bytearray()
        nums = rng.sample(range(0, 4096), n)  # distinct atom numbers (a repeated number is one dict key in Python: outside the format)
        for num in nums:
            r = bytearray(rng.randrange(256) for _ in range(9))
            r[0], r[1] = num >> 4, (num & 15) << 4   # no neighbours
            if rng.random() < 0.9:
                r[3] = (r[3] & 0x80) | rng.randint(1, 118)
            recs += r
        d = bytes([2, 0, n << 4, 0]) + bytes(recs)
        rd = real_decode_raw(list(d))
        ctx.dist('synthetic-atom:' + ('ok' if rd[0] == 'ok' else str(rd[1])))

        def c(res, rd=rd, d=d):
            if (res[0] == 'ok') != (rd[0] == 'ok'):
                return f'atom bytes {d.hex()}: model {res[0]} {res[1] if res[0] == "err" else ""} real {rd[:2] if rd[0] == "err" else "ok"}'
            if res[0] == 'ok':
                dd = diff_decoded(parse_decoded(iter(res[1])), rd[1])
                if dd:
                    return f'atom bytes {d.hex()}: {dd}'
        b.add('synthetic-atom', 'unpack', list(d), c)
        if len(b.lines) > 3000:
            b.run()
    b.run()


def corr_malformed(ctx):
    """truncated / corrupted packs: only the outcome class (ok vs error) is compared"""
    from .. import molgen
    rng = ctx.rng
    b = Batch(ctx)
    base = [bytes(m.pack(compressed=False)) for s in ['CCO', 'C/C=C/C', 'c1ccccc1', 'N[C@@H](C)C(=O)O'] if (m := molgen.parse(s))]
    cases = []
    for d in base:
        cases += [d[:k] for k in sorted(set(rng.sample(range(0, len(d)), min(12, len(d)))))]
        cases += [bytes([v]) + d[1:] for v in (0, 1, 3, 255)]
    # version-0 packs cut at EVERY position of the order block and one byte around it: the reader takes `data[j], data[j + 1]`
    # two at a time (exact reads of the model: `readPairsV0`), so a cut inside a pair is an over-read of the second byte
    for s_ in ['CCO', 'CC(C)CC=O', 'C1CCCCC1CCCCCC', 'C/C=C/C=C/C']:
        m = molgen.parse(s_)
        if m is None:
            continue
        d2 = bytes(m.pack(compressed=False))
        d0 = to_v0(m, d2)
        na, nb = len(m._atoms), sum(len(x) for x in m._bonds.values()) // 2
        lo = 4 + 9 * na + 3 * nb
        hi = lo + 2 * ((nb + 4) // 5)
        cases += [d0[:k] for k in range(max(lo - 1, 0), min(hi + 2, len(d0) + 1))]
    for d in cases:
        rd = real_decode_raw(list(d))

        def c(res, rd=rd, d=d):
            if (res[0] == 'ok') != (rd[0] == 'ok'):
                return f'malformed {d.hex()}: model {res[0]} {res[1] if res[0] == "err" else ""} real {rd[:2] if rd[0] == "err" else "ok"}'
        b.add('malformed', 'unpack', list(d), c, nontriv=True)
        ctx.dist('malformed:' + ('ok' if rd[0] == 'ok' else str(rd[1])))
    # reaction framing on damaged / header-only bytes (an empty reaction cannot be constructed, its bytes can)
    from chython import ReactionContainer, smiles
    rb = bytes(smiles('CC=O>O>CCO').pack(compressed=False))
    for d in [bytes([1, 0, 0, 0]), bytes([1]), bytes([2, 0, 0, 0]), b'', rb[:5], rb[:20], rb[:-1], bytes([1, 1, 1, 2]) + rb[4:]]:
        for op, fn in (('runpack', ReactionContainer.unpack), ('rpacklen', ReactionContainer.pack_len)):
            try:
                fn(d, compressed=False)
                ro = 'ok'
            except Exception as e:
                ro = err_kind(e)

            def c(res, ro=ro, d=d, op=op):
                if (res[0] == 'ok') != (ro == 'ok'):
                    return f'malformed reaction {op} {d.hex()}: model {res[0]} {res[1] if res[0] == "err" else ""} real {ro}'
            b.add('malformed-rxn', op, list(d), c, nontriv=True)
    b.run()


def correspond(ctx):
    setup()
    ctx.cov['programs'] = 19  # cumulenes, stereogenic_cumulenes, _stereo_cis_trans_terminals, _stereo_cis_trans_centers, _stereo_allenes_terminals, mol pack/unpack/pack_len, rxn pack/unpack/pack_len, _unpack_v0v2.unpack, double_to_float16, double_from_bytes, chython.unpack/unpach, Molecule/ReactionContainer.unpach, pach/__bytes__
    if not ctx.build_ok:
        ctx.notes.append('Lean build failed: driver streams skipped; running the property oracle directly')
        return
    for f in (corr_half, corr_molecules, corr_reactions, corr_refpacks, corr_synthetic, corr_malformed):
        t = ctx.elapsed()
        f(ctx)
        ctx.dist('wall_s:' + f.__name__, round(ctx.elapsed() - t, 1))


# ------------------------------------------------------------------------------------------------
# failing-input search and probe (real code only)
# ------------------------------------------------------------------------------------------------

def oracle_rxn(rxn, roles):
    from chython import ReactionContainer
    out = []
    try:
        data = rxn.pack(compressed=False)
        u = ReactionContainer.unpack(data, compressed=False)
        ln = ReactionContainer.pack_len(data, compressed=False)
    except Exception as e:
        return [('C10/rxn/raises/' + type(e).__name__, f'reaction pack/unpack/pack_len raised {e!r} for role sizes {[len(s) for s in roles]}')]
    import chython
    import chython.containers as cont
    try:
        if (zlib.decompress(bytes(rxn)) != data or rxn.pach(compressed=False) != data or rxn.pack(compressed=False, check=False) != data
                or zlib.decompress(rxn.pach(check=False)) != data):
            out.append(('C10/entry-point/pach-or-bytes', 'bytes(reaction) / reaction.pach() differ from reaction.pack()'))
    except Exception as e:
        out.append(('C10/entry-point/pach-or-bytes', f'bytes(reaction) / pach raised {e!r}'))
    for nm, fn in (('ReactionContainer.unpach', ReactionContainer.unpach), ('chython.unpack', chython.unpack),
                   ('chython.unpach', chython.unpach), ('chython.containers.unpack', cont.unpack)):
        for compressed in (False, True):
            try:
                v = fn(zlib.compress(data, 9) if compressed else data, compressed=compressed)
            except Exception as e:
                out.append((f'C10/rxn/{nm}/raises', f'{nm}(compressed={compressed}) of a reaction pack raised {e!r}'))
                break
            if type(v).__name__ != 'ReactionContainer' or [len(x) for x in (v.reactants, v.reagents, v.products)] != [len(s_) for s_ in roles] \
                    or any(diff_mols(a, b_) for sa, sb in zip(roles, (v.reactants, v.reagents, v.products)) for a, b_ in zip(sa, sb)):
                out.append((f'C10/rxn/{nm}/differs', f'{nm}(compressed={compressed}) does not return the packed reaction'))
                break
    want = tuple([len(m._atoms) for m in side] for side in roles)
    if tuple(list(x) for x in ln) != want:
        out.append(('C10/rxn/pack_len', f'pack_len {ln} != {want}'))
    got = (u.reactants, u.reagents, u.products)
    if [len(s) for s in got] != [len(s) for s in roles]:
        out.append(('C10/rxn/roles', f'role sizes {[len(s) for s in roles]} -> {[len(s) for s in got]}'))
    else:
        for side, uside in zip(roles, got):
            for m, um in zip(side, uside):
                d = diff_mols(m, um)
                if d:
                    out.append(('C10/rxn/roundtrip/' + d[0], d[1]))
    return out


def oracle_half(x):
    """to half precision: decoded value is |x| truncated to the half grid"""
    from chython.containers import _unpack_v0v2 as up
    bits = real_f16(x)
    want = half_trunc_bits(x)
    if want is None or not math.isfinite(x):
        return []
    back = up.double_from_bytes(bits >> 8, bits & 255)
    if back != half_value(want):
        return [('C10/half', f'{x!r} packs to {bits:#06x} = {back!r}; half truncation is {half_value(want)!r}')]
    return []


def run_input(inp):
    """re-execute one input on the real code -> list of (signature, what)"""
    setup()
    k = inp['kind']
    if k == 'mol':
        m = mol_from_json(inp['mol'])
        if inp.get('v0'):
            d2 = bytes(m.pack(compressed=False))
            why = v0_differs(m, to_v0(m, d2), d2)
            return [('C10/v0/decodes-differently', why)] if why else []
        return oracle_mol(m) if in_limits(m) else []
    if k == 'smiles':
        from chython import smiles
        return oracle_mol(smiles(inp['smiles']))
    if k == 'lattice':
        return oracle_mol(lattice(inp['atoms'], tuple(inp['steps'])))
    if k == 'api-shared-atom':   # through the public API only
        from chython import smiles
        m = smiles(inp['smiles'])
        m.add_cis_trans_stereo(*inp['stereo'])
        return oracle_mol(m)
    if k == 'rxn':
        roles = [[mol_from_json(m) for m in side] for side in inp['roles']]
        from chython import ReactionContainer
        return oracle_rxn(ReactionContainer(roles[0], roles[2], roles[1]), roles)
    if k == 'rxn-smiles':
        from chython import smiles
        r = smiles(inp['smiles'])
        return oracle_rxn(r, (list(r.reactants), list(r.reagents), list(r.products)))
    if k == 'refpack':
        return oracle_refpack(inp['index'])
    if k == 'half':
        from chython.containers import _unpack_v0v2 as up
        b = inp['bits']
        if (b >> 10) & 0x1f == 0x1f or b == 0x8000:
            return []
        v = up.double_from_bytes(b >> 8, b & 255)
        if v != half_value(b) or real_f16(v) != b:
            return [('C10/half', f'bits {b:#06x} decode to {v!r} (binary16 value {half_value(b)!r}) and re-encode to {real_f16(v):#06x}')]
        return []
    if k == 'f16':
        return oracle_half(float.fromhex(inp['x']))
    if k == 'rxn-shape':
        return []
    raise ValueError('unknown replay kind ' + k)


def search(ctx):
    """property oracle on the real code: suspects from the broken streams first, then the structured generators,
    reactions over all small role shapes, all half patterns, published packs."""
    setup()
    budget = ctx.elapsed() + (60 if ctx.quick else 600)
    seen = 0

    def report(inp, res):
        for sig, what in res:
            ctx.fail(sig, what, inp)
        return bool(res)
    found = False
    for inp in _state['suspects'][:400]:
        try:
            found |= report(inp, run_input(inp))
        except Exception as e:
            ctx.notes.append(f'search: suspect raised {e!r}')
    if found:
        return
    common = gen_packtables.tables()[0]
    for gen in (gen_limits, gen_cumulene, gen_real, gen_big):
        for name, mol in gen(ctx):
            if ctx.elapsed() > budget:
                break
            if not in_limits(mol):
                continue
            seen += 1
            res = oracle_mol(mol, common)
            if res:
                inp = ({'kind': 'smiles', 'smiles': 'C' + '/C=C' * 300 + '/C'} if name.startswith('polyene[') else
                       {'kind': 'mol', 'name': name, 'mol': mol_to_json(mol)})
                found |= report(inp, res)
                if len(ctx.failures) > 20:
                    return
    from chython import ReactionContainer
    nshapes = 0
    for k, shape in enumerate(rxn_shapes(ctx) * 3):
        roles = rxn_roles(ctx, shape, k)
        res = oracle_rxn(ReactionContainer(roles[0], roles[2], roles[1]), roles)
        nshapes += 1
        if report(rxn_json(roles), res) and len(ctx.failures) > 20:
            break
    from chython.containers import _unpack_v0v2 as up
    for b in range(65536):
        res = run_input({'kind': 'half', 'bits': b})
        if res:
            found |= report({'kind': 'half', 'bits': b}, res)
            break
    for x in half_coords(ctx.rng, 2000):
        if report({'kind': 'f16', 'x': float(x).hex()}, oracle_half(x)):
            break
    n = len(ref_packs()['names'])
    for i in range(n):
        if ctx.elapsed() > budget:
            break
        if report({'kind': 'refpack', 'index': i}, oracle_refpack(i)):
            if len(ctx.failures) > 20:
                break
    ctx.notes.append(f'search evaluated {seen} generated molecules, {nshapes} reactions, 65536 half patterns')


def probe(inp):
    res = run_input(inp)
    want = inp.get('signature')
    if want:
        res = [r for r in res if r[0] == want] or []
    return bool(res), '; '.join(f'{s}: {w}' for s, w in res) if res else 'property holds on this input'
