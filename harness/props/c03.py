"""C03 — SMILES reader builds exactly the molecule the text denotes, rejects the rest.

Tie: G (charge/bond tables, character classes, atom regex in normal form, element + isotope keys regenerated into
Gen/C03Tables.lean) + K (the executable Lean model of `_tokenize`/`_atom_parse`/`smiles_tokenize`, `parser`, the
`smiles()` front end, `_mapping` numbering and the structural part of `create_molecule`/`create_reaction` is run
against the real functions on exhaustive short strings, exhaustive bracket contents, grammar-generated strings,
corpus strings and single-edit corruptions; outcome class, token list, parsed record and built graph compared).
Search / standing relational stream: RDKit and an independent recursive-descent reader written from the
OpenSMILES grammar judge what the real `smiles()` builds; "raises something that is not ValueError" for the rest.
"""
import itertools
import sys

from .. import core
from ..gen import gen_c03

LEVEL = 'translation_validation'
LEVEL_TEXT = ('The reader is decided by an executable Lean model that mirrors tokenizer, atom parser, parser, front end, '
              'numbering, the structural part and the hydrogen/radical loop of create_molecule branch by branch (the valence rules '
              'are C04\'s executable model over the regenerated periodic table), validated against the real functions on every run '
              '(exhaustive over all short strings of the SMILES alphabet, generated and corpus strings, corruptions, hydrogen grids '
              'in every reaction role and for every combination of the keywords that act in the hydrogen loop), plus universally '
              'quantified theorems about that model: no input can reach an unrelated exception (full, hydrogen loop included); the '
              'parser result is well formed; for every syntax tree (strict OpenSMILES grammar and the lenient atom (ringbond|branch)* '
              'grammar) the parser builds exactly the graph an independent denotational semantics assigns; for ALL token lists and '
              'for all tokenizable strings acceptance by parser + bond loop is equivalent to being a sentence with the ring-closure '
              'discipline of the spec (opened numbers closed exactly once, never at the opening atom, agreeing bond symbols, no second '
              'bond between a pair), up to the named tolerated classes (leading branch; for the strict grammar ring bonds after a '
              'branch); smiles() itself reads exactly the sentences with valid atoms (one-word molecule strings); bracket atoms: '
              '_atom_parse and the tokenizer invert the spelling (charge = the meaning of the spelling), and the characters-to-graph '
              'theorem holds with bracket atoms; hydrogens on the graph of an accepted string: unbracketed organic atoms get the '
              'OpenSMILES count up to the lowest normal valence, bracket atoms keep the written count exactly when the valence model '
              'admits it; tables regenerated from the source are proved equal to the charge / bond semantics of the language. An '
              'independent reference reader and RDKit judge the real reader (graph, atom numbers, hydrogens, radicals, '
              'configuration) on every run; the reader is checked against itself (molecule vs reaction role) for every forwarded '
              'keyword argument and against the documented meaning of each keyword. Translation validation is the right level '
              'because the hand-written model is tied to the Python text by differential execution, not by a proof about the '
              'Python text.')
LEVEL_NOTE = ('Trusted: Lean kernel; gen_c03 translator (CPython sre parser for atom_re, AST of _tokenize); gen_periodic translator '
              '(valence tables); the harness canonicaliser; hand transcription of the Python control flow (validated, not proved); '
              'str.isnumeric/str.split modelled for ASCII only; calc_labels (ring perception for hybridization) and stereo '
              'assignment after graph construction are outside the model.')
TECHNIQUE = 'Lean 4 executable model + theorems (invariants, two-way simulation against a denotational spec, parser inversion, regex-matcher round trip) + exhaustive/generated differential correspondence + independent-reader / self-consistency / documented-keyword oracles'
RULE = ('strings: (a) every string up to a length bound over the SMILES alphabet, (b) every bracket-atom body up to a bound '
        'over the bracket alphabet, (c) grammar-generated molecules/reactions/CXSMILES, (d) corpus + repository test strings, '
        '(e) single-edit corruptions of (c),(d), (f) grids: ring-bond symbol pairs, reaction fragment groupings, stereo '
        'templates, hydrogen grid (every organic / bracket / charged / aromatic centre x bonding environment x molecule / each '
        'reaction role / next to other molecules / CXSMILES radical mark), (g) the hydrogen grid under all 8 combinations of '
        'keep_implicit / ignore_aromatic_radicals / ignore_carbon_radicals (model vs code), (h) molecule-vs-reaction-role '
        'agreement of the real reader for every forwarded keyword. An evaluation is one program (smiles_tokenize, smiles, '
        'smiles-with-options, smiles-vs-reference-reader, role relation) run on one string; a string is non-trivial when it has '
        'at least 2 characters; distinct = distinct non-trivial (program, string, options) cases.')
TRUSTED = ['gen_c03 translator (atom_re via CPython sre parser into a restricted normal form; _tokenize character classes via AST)',
           'gen_periodic translator (valence tables used by the hydrogen loop; shared with C04)',
           'hand-written model of the two CXSMILES regexes (translator refuses to run if the patterns change)']
ASSUMPTIONS = ['ASCII input (str.isnumeric / str.split whitespace modelled for ASCII)',
               'default keyword arguments of smiles() (ignore=True, remap=False) except the three hydrogen-loop keywords, which are modelled',
               'calc_labels and stereo assignment never raise under ignore=True (checked on every generated input, not proved)']
HAS_DRIVER = True
EXTRA_MODULES = []
FINDINGS_MODULE = 'ChythonModel.Findings.C03'
SEARCH_ALWAYS_IN_THOROUGH = False

ALPHA_FULL = list('CcNOnoBSlrFH[]()12%0=#-/\\.:+@;!,~>^| 9')
ALPHA_CORE = list('CcNOl()12%=-/.[]@H+>')
ALPHA_BRACKET = list('19C0cHNasel@+-2:t4Z')
ALPHA_STEREO = list('C=/\\()1-')
ALPHA_STEREO_R = ['C', 'C', 'C', '=', '=', '/', '\\', '(', ')', '1', '1', '2', 'N', 'c', '[C@H]', '[C@@]', '.', '#', 'F']


# ------------------------------------------------------------------------------------------------
# real side
# ------------------------------------------------------------------------------------------------

def _mods():
    import importlib
    T = importlib.import_module('chython.files.daylight.tokenize')
    importlib.import_module('chython.files.daylight.smiles')
    S = sys.modules['chython.files.daylight.smiles']
    P = importlib.import_module('chython.files.daylight.parser')
    return T, S, P


def enc(s):
    return ' '.join(str(ord(c)) for c in s)


def opt(v):
    return '-1' if v is None else str(int(v))


def tri(v):
    return '-1' if v is None else str(int(bool(v)))


def atom_str(d):
    el = '.'.join(str(ord(c)) for c in d['element'])
    br = 1 if 'charge' in d else 0
    return (f"{el}:{br}:{opt(d.get('isotope'))}:{opt(d.get('parsed_mapping'))}:{d.get('charge', 0)}:"
            f"{opt(d.get('implicit_hydrogens'))}:{tri(d.get('stereo'))}:{int(bool(d.get('is_radical', False)))}")


def val_str(v):
    from chython.containers.bonds import QueryBond
    if v is None:
        return 'N'
    if isinstance(v, bool):
        return 'bT' if v else 'bF'
    if isinstance(v, int):
        return f'i{v}'
    if isinstance(v, str):
        return 's' + '.'.join(str(ord(c)) for c in v)
    if isinstance(v, list):
        return 'l' + '.'.join(map(str, v))
    if isinstance(v, QueryBond):
        return 'q' + '.'.join(map(str, v.order)) + ('T' if v.in_ring else 'F')
    return '?' + type(v).__name__


def tok_str(t):
    ty, v = t
    if ty in (0, 8) and isinstance(v, dict):
        return f'A{ty}:{atom_str(v)}'
    if ty == 1 and isinstance(v, int) and not isinstance(v, bool):
        return f'B{v}'
    if ty == 2:
        return '('
    if ty == 3:
        return ')'
    if ty == 4:
        return '.'
    if ty == 6 and isinstance(v, int) and not isinstance(v, bool):
        return f'C{v}'
    if ty == 9 and isinstance(v, bool):
        return 'D1' if v else 'D0'
    return f'O{ty}:{val_str(v)}'


def err_class(e):
    from chython.exceptions import IncorrectSmiles
    if isinstance(e, IncorrectSmiles):
        return 'lib:IncorrectSmiles'
    if isinstance(e, ValueError):
        return 'lib:ValueError'
    return 'crash:' + type(e).__name__


def rec_str(data):
    atoms = ','.join(atom_str(a) for a in data['atoms'])
    bonds = ','.join(f'{a}-{b}-{int(o)}' for a, b, o in data['bonds'])
    order = ';'.join(f'{k}:' + ','.join(opt(x) for x in v) for k, v in sorted(data['order'].items()))
    sa = ','.join(f'{k}:{int(v)}' for k, v in data['stereo_atoms'].items())
    sb = ';'.join(f'{k}>' + ','.join(f'{m}:{int(b)}' for m, b in d.items()) for k, d in sorted(data['stereo_bonds'].items()))
    mp = ','.join(map(str, data.get('mapping', [])))
    st = ','.join(map(str, sorted(data.get('starts', ()))))
    return f'atoms={atoms} bonds={bonds} order={order} satoms={sa} sbonds={sb} starts={st} map={mp}'


def mol_str(m):
    atoms = ','.join(f'{n}:{a.atomic_number}:{opt(a.isotope)}:{a.charge}:{opt(a.implicit_hydrogens)}:{int(bool(a.is_radical))}'
                     for n, a in m._atoms.items())
    adj = ';'.join(f'{n}>' + ','.join(f'{k}:{int(b)}' for k, b in ms.items()) for n, ms in m._bonds.items())
    return f'{atoms} {adj}'


def real_tok(s):
    T, S, P = _mods()
    try:
        toks = T.smiles_tokenize(s)
    except Exception as e:
        return err_class(e)
    return ('ok ' + ' '.join(tok_str(t) for t in toks)).rstrip() if toks else 'ok '


def real_smiles(s, want_obj=False):
    """run the real smiles(); returns canonical line (and the built object)"""
    T, S, P = _mods()
    cap = {}
    ocm, ocr = S.create_molecule, S.create_reaction

    def cm(data, **kw):
        cap['rec'] = rec_str(data)
        return ocm(data, **kw)

    def cr(data, **kw):
        pre = {k: [(id(m), rec_str(m)) for m in data[k]] for k in ('reactants', 'reagents', 'products')}
        cap['rxn'] = pre
        try:
            return ocr(data, **kw)
        finally:
            cap['kept'] = {k: [dict(pre[k]).get(id(m), '?') for m in data[k]] for k in ('reactants', 'reagents', 'products')}

    S.create_molecule, S.create_reaction = cm, cr
    try:
        obj = S.smiles(s)
    except Exception as e:
        out = err_class(e)
        return (out, None) if want_obj else out
    finally:
        S.create_molecule, S.create_reaction = ocm, ocr
    from chython import ReactionContainer
    if isinstance(obj, ReactionContainer):
        def rr(d):
            return ('R[' + ' | '.join(d['reactants']) + '] G[' + ' | '.join(d['reagents']) + '] P[' + ' | '.join(d['products']) + ']')
        pre = {k: [x[1] for x in v] for k, v in cap['rxn'].items()}
        built = {'reactants': [mol_str(m) for m in obj.reactants], 'reagents': [mol_str(m) for m in obj.reagents],
                 'products': [mol_str(m) for m in obj.products]}
        out = f"ok R {rr(pre)} # {rr(cap['kept'])} # {rr(built)}"
    else:
        out = f"ok M {cap['rec']} # {mol_str(obj)}"
    return (out, obj) if want_obj else out


def real_built(s, **opts):
    """the built part only (atoms with hydrogens / radical flag, adjacency), for smiles(s, **opts)"""
    _, S, _ = _mods()
    try:
        obj = S.smiles(s, **opts)
    except Exception as e:
        return err_class(e)
    from chython import ReactionContainer
    if isinstance(obj, ReactionContainer):
        return ('ok R R[' + ' | '.join(mol_str(m) for m in obj.reactants) + '] G[' + ' | '.join(mol_str(m) for m in obj.reagents) +
                '] P[' + ' | '.join(mol_str(m) for m in obj.products) + ']')
    return 'ok M ' + mol_str(obj)


def norm_model(line):
    """model line -> (comparable line, message)"""
    if line.startswith('lib:') or line.startswith('crash:'):
        head, _, msg = line.partition(' @')
        if head == 'lib:IncorrectSmarts':
            head = 'lib:IncorrectSmiles'
        return head, msg
    return line.rstrip() if line != 'ok ' else 'ok ', ''


# ------------------------------------------------------------------------------------------------
# generators
# ------------------------------------------------------------------------------------------------

def all_strings(alpha, n):
    for k in range(1, n + 1):
        for t in itertools.product(alpha, repeat=k):
            yield ''.join(t)


ORGANIC = ['C', 'C', 'C', 'N', 'O', 'S', 'P', 'F', 'Cl', 'Br', 'I', 'B']
AROM = ['c', 'c', 'c', 'n', 'o', 's']
BRACKET = ['[H]', '[CH3]', '[NH4+]', '[O-]', '[13C]', '[13CH3]', '[2H]', '[Na+]', '[Fe+2]', '[Fe+++]', '[C@H]', '[C@@H]', '[C@]',
           '[C@@]', '[nH]', '[n+]', '[se]', '[Cu]', '[Si]', '[N+]', '[C-]', '[CH2:1]', '[C:2]', '[OH:3]', '[CH]', '[S--]',
           '[Al+3]', '[238U]', '[te]', '[as]', '[cH-]', '[B-]', '[NH3+:7]', '[C:1]', '[O:1]', '[N-2]', '[Ti++++]']
BONDS = ['', '', '', '', '-', '=', '#', ':', '/', '\\', '~']


def gen_mol(rng, size=None, depth=0):
    """grammar-driven SMILES (mostly valid): chain, branches, ring closures, dots, stereo"""
    n = size or rng.randint(1, 12)
    out = []
    open_rings = []
    next_ring = [1]
    aromatic_run = 0

    def atom():
        nonlocal aromatic_run
        r = rng.random()
        if aromatic_run > 0:
            aromatic_run -= 1
            return rng.choice(AROM) if rng.random() < 0.9 else '[nH]'
        if r < 0.65:
            return rng.choice(ORGANIC)
        if r < 0.85:
            return rng.choice(BRACKET)
        aromatic_run = rng.randint(2, 5)
        return rng.choice(AROM)

    def ring_label(k):
        return str(k) if k < 10 and rng.random() < 0.9 else '%%%02d' % k if k >= 10 else '%%%02d' % k

    for i in range(n):
        if i:
            r = rng.random()
            if r < 0.06:
                out.append('.')
            else:
                out.append(rng.choice(BONDS))
        out.append(atom())
        # ring closures
        while rng.random() < 0.22 and len(open_rings) < 4:
            k = next_ring[0] if rng.random() < 0.8 else rng.randint(1, 99)
            if k in open_rings:
                continue
            next_ring[0] = k + 1 if k < 98 else 1
            open_rings.append(k)
            out.append(rng.choice(['', '', '', '=', '/', '-', '\\', '#', ':']) + ring_label(k))
        if open_rings and rng.random() < 0.3 and i > 1:
            k = open_rings.pop(rng.randrange(len(open_rings)))
            out.append(rng.choice(['', '', '', '', '=', '\\', '/', '-', ':']) + ring_label(k))
        # branch
        if depth < 3 and rng.random() < 0.2:
            inner = gen_mol(rng, rng.randint(1, 4), depth + 1)
            out.append('(' + rng.choice(['', '', '=', '.', '/', '#']) + inner + ')')
    # close what is open (mostly)
    if out and rng.random() < 0.93:
        for k in open_rings:
            out.append(rng.choice(ORGANIC[:4]) + rng.choice(['', '', '', '-', '/', '\\']) + ring_label(k))
    return ''.join(out)


SUBST = ['F', 'Cl', 'Br', 'I', 'O', 'N', 'C', 'CC', 'OC', 'C#N', 'C(=O)O', 'c1ccccc1', 'S', 'C(F)(F)F', 'N(C)C', 'CCC']
STEREO_TEMPLATES = [
    '{a}/C=C/{b}', '{a}/C=C\\{b}', '{a}\\C=C/{b}', '{a}\\C=C\\{b}', '{a}/C({c})=C({d})/{b}', '{a}/C({c})=C(/{b}){d}',
    'C(/{a})=C/{b}', 'C(\\{a})=C/{b}', '{a}/C=C/C=C/{b}', '{a}/C=C\\C=C/{b}', '{a}/C=C/{b}.{c}/C=C\\{d}',
    '[C@H]({a})({b}){c}', '[C@@H]({a})({b}){c}', '{a}[C@H]({b}){c}', '{a}[C@@H]({b}){c}', '{a}[C@]({b})({c}){d}',
    '{a}[C@@]({b})({c}){d}', '{c}.[C@H]({a})({b}){d}', '{a}[C@H]1CC[C@@H]({b})CC1', '{a}[C@H]1CC[C@H]({b})CC1',
    'C1C[C@H]({a})[C@@H]({b})C1', '{a}[C@@H]1CCCC[C@H]1{b}', '[C@H]1({a})CCCC[C@@H]1{b}', '{a}/C=C1/CCCC({b})C1',
    '{a}/C=C/1CCCC({b})C1', 'C1=C/CCCCCC/1',
    # double bond whose substituents are ring-closure partners written before / after it, across dots
    '{a}/1.{b}\\2.{c}/C=C12', '{a}/1.{c}/C=C1{b}', '{a}1.{c}/C=C/1{b}', '{c}/C=C1{b}.{a}\\1', '{c}/C=C/1{b}.{a}1',
    '{a}1.{b}2.{c}/C=C/1\\2', '{a}/1.{b}2.{c}/C({d})=C12', '{a}1.{c}\\C({d})=C1/{b}',
    # labels that are stereogenic only because of other labels (centre<-bond, centre<-centre, bond<-centre, chains of them)
    '{a}/C=C/[C@H]({b})/C=C\\{a}', '{a}/C=C/[C@@H]({b})/C=C\\{a}', '{a}/C=C\\[C@]({b})({c})/C=C/{a}',
    '{a}/C=C/[C@@]({b})({c})/C=C\\{a}', 'C(/{a})=C/[C@H]({b})\\C=C/{a}', '{a}[C@H]({b})[C@H]({c})[C@@H]({b}){a}',
    '{a}[C@H]({b})[C@@H]({c})[C@@H]({b}){a}', '{a}[C@@H]({b})[C@]({c})({d})[C@H]({b}){a}', '{a}[C@H]({b})/C=C/[C@@H]({b}){a}',
    '{a}[C@H]({b})/C=C\\[C@H]({b}){a}', '{a}[C@H]({b})C(=C/{c})[C@@H]({b}){a}', '{a}[C@H]({b})/C({c})=C/[C@@H]({b}){a}',
    '{a}/C=C/[C@H]({b})[C@H]({c})[C@@H]({b})/C=C\\{a}', '{a}[C@H]({b})[C@H]({c})/C=C/[C@@H]({c})[C@@H]({b}){a}',
    '{a}/C=C/C(/C=C\\{a})=C/{b}', '{a}/C=C/C(/C=C/{a})=C/{b}', '{a}[C@H]1C[C@@H]({a})C[C@H]({b})C1', 'C1[C@H]({a})C[C@@H]({a})C[C@@H]1{b}',
    '{a}/C=C/[C@H]1C[C@@H](/C=C\\{a})C1', '{a}[C@H]({b})C=[C@]=C[C@@H]({b}){a}', '{a}/C=C/C=[C@@]=C/C=C\\{a}',
    '{a}/C=C/[C@H]({b}){c}', '{a}[C@H]({b})/C=C\\{c}', '{a}/N=C/{b}',
    '{a}/C=N/O', '{a}C(=C/{b})/{c}', '{a}[C@H]({b})[C@@H]({c})[C@H]({d})O', 'O[C@H]1[C@H]({a})O[C@H]({b})[C@@H]1O',
    '{a}C=[C@]=C{b}', '{a}C=[C@@]=C{b}', '{a}/C=C=C=C/{b}', '{a}/C=C=C=C\\{b}', '{a}[C@H]({b})C%12CC%12',
    '{a}/C=C/%11.C%11{b}', '{a}/C=C(/{b})1CC1', '[C@H]({a})1({b})CC1{c}', '{a}[C@]12CC1C2{b}', 'N[C@@H]({a})C(=O)O',
]


def gen_stereo(rng):
    t = rng.choice(STEREO_TEMPLATES)
    subs = rng.sample(SUBST, 4)
    return t.format(a=subs[0], b=subs[1], c=subs[2], d=subs[3])


RSUB = ['F', 'Cl', 'Br', 'I', 'O', 'N', 'S', 'C', 'CC', 'CCC']


def gen_chiral_spelling(rng):
    """one tetrahedral centre whose substituents are attached in every way the language offers: as the preceding atom, as a
    ring-closure partner written before the centre (across a dot), as a ring-closure partner written after it, as a branch;
    the centre therefore sits at the string start, after a dot, after an atom, opens rings, closes rings, or both"""
    with_h = rng.random() < 0.55
    n = 3 if with_h else 4
    subs = rng.sample(RSUB, n)
    modes = [rng.choice(['pre', 'rb', 'ra', 'br', 'br']) for _ in subs]
    while modes.count('pre') > 1:
        modes[modes.index('pre')] = rng.choice(['rb', 'ra', 'br'])
    labels = rng.sample(range(1, 10), n) if rng.random() < 0.8 else rng.sample(range(10, 99), n)

    def lab(k):
        return str(k) if k < 10 else '%%%d' % k
    before, pre, digits, branches, after = [], '', [], [], []
    for sub, m, k in zip(subs, modes, labels):
        if m == 'pre':
            pre = sub
        elif m == 'rb':
            before.append(sub + lab(k) + '.')
            digits.append(lab(k))
        elif m == 'ra':
            digits.append(lab(k))
            after.append('.' + sub + lab(k))
        else:
            branches.append(sub)
    rng.shuffle(digits)
    centre = '[C' + rng.choice(['@', '@@']) + ('H' if with_h else '') + ']' + ''.join(digits)
    if branches and rng.random() < 0.5:
        tail = ''.join('(' + x + ')' for x in branches[:-1]) + branches[-1]
    else:
        tail = ''.join('(' + x + ')' for x in branches)
    if rng.random() < 0.15:   # something unrelated in front, so that the centre is not the first atom of the string
        before.insert(0, rng.choice(['O.', 'CC.', '[Na+].']))
    return ''.join(before) + pre + centre + tail + ''.join(after)


def gen_cx(rng, natoms_hint=6, nmol=3):
    parts = []
    if rng.random() < 0.6:
        parts.append('^%d:%s' % (rng.randint(0, 8), ','.join(str(rng.randint(0, natoms_hint)) for _ in range(rng.randint(1, 3)))))
    if rng.random() < 0.6:
        groups = []
        for _ in range(rng.randint(1, 2)):
            groups.append('.'.join(str(rng.randint(0, nmol)) for _ in range(rng.randint(1, 3))))
        parts.append('f:' + ','.join(groups))
    if rng.random() < 0.2:
        parts.append('^1:' + str(rng.randint(0, 3)))
    rng.shuffle(parts)
    body = ','.join(parts)
    r = rng.random()
    if r < 0.85:
        return ' |' + body + '|'
    if r < 0.9:
        return ' |' + body
    if r < 0.95:
        return ' ' + body + '|'
    return '\t|' + body + '| title'


def gen_reaction(rng):
    def side(lo=0, hi=3):
        return '.'.join(gen_mol(rng, rng.randint(1, 4)) for _ in range(rng.randint(lo, hi)))
    r = rng.random()
    if r < 0.9:
        s = side(0, 3) + '>' + side(0, 2) + '>' + side(0, 3)
    elif r < 0.95:
        s = side(1, 2) + '>' + side(0, 2)
    else:
        s = side(1, 2) + '>>' + side(1, 2) + '>' + side(0, 1)
    if rng.random() < 0.6:
        s += gen_cx(rng, 5, s.count('.') + 3)
    return s


def corrupt(rng, s):
    if not s:
        return s
    i = rng.randrange(len(s) + 1)
    r = rng.random()
    c = rng.choice(ALPHA_FULL)
    if r < 0.35:
        return s[:i] + c + s[i:]
    if r < 0.7 and i < len(s):
        return s[:i] + s[i + 1:]
    if i < len(s):
        return s[:i] + c + s[i + 1:]
    return s + c


def repo_test_strings():
    """SMILES-looking string literals of the repository's own daylight tests"""
    import ast
    out = []
    for p in sorted((core.REPO / 'chython/files/daylight/test').glob('test_*.py')):
        try:
            tree = ast.parse(p.read_text())
        except SyntaxError:
            continue
        for node in ast.walk(tree):
            if isinstance(node, ast.Constant) and isinstance(node.value, str) and 0 < len(node.value) < 200 and '\n' not in node.value:
                out.append(node.value)
    return sorted(set(out))


HANDMADE = ['(', ';', ';@', 'C |^1:5|', 'C-;@C', 'C!~C', 'C!', 'C;', 'C-;', 'C.(C)', 'C1CC%1', '(C)C', 'C~C', '   ', 'C11', 'C12CCC12',
            '[Xx]', '[999C]', '[13C]', '[1C]', 'C-;@;@C', 'C-,=C', 'C1.C1>>CC', 'C.C>> |f:0.1|', 'C>>C |^1:7|', '>>', 'C>', 'C>>C>',
            '[C:0]', '[C+5]', '[C+-]', '[C@@@H]', 'c1ccccc1c2ccccc2', 'C%', 'C%1', 'C%01', 'C0', 'C(1)', 'C()', 'C((C))C', 'C(C', 'C)',
            'C=', '=C', 'C==C', 'C.', '.C', 'C..C', 'C1=CC=1', 'C1=CC-1', 'C=1CC1', 'C/1CC\\1', '[H]', '[HH]', '[Hg]', '[CH5]', '[C@]',
            'Cl', 'Bl', 'Cr', 'Brr', 'C\tC', 'C |f:0.1|', 'C.C |f:0.1|', 'C |', 'C ||', 'C |^1:0| x', '[se]1cccc1', '[te]', '[as]', '[b]',
            'bccc', 'C%10CC%10', 'C%100C%10C0', '[C:12345]', '[C:1234]', '[1000C]', '[012C]', 'C$C', 'C:C', 'c:c', 'cc', 'c=c', 'C(=O)',
            'C(C)(C)', 'C(.C)', 'C(=.C)', 'C.=C', 'C1.C1', 'C(C)1CC1', 'C1(C)CC1', '[C@H](F)(Cl)Br', 'F/C=C/F', 'F/C=C/1.F1', '[2H]',
            '[H+]', '[C--]', '[C-2]', '[C---]', '[C-3]', '[C+++]', '[CH1]', '[CH0]', '[CH]', '[cH-]1cccc1', 'C.C.C>C.C>C.C |f:0.1,3.4,5.6|',
            'C.C.C>C.C>C.C |f:0.3|', 'C.C>>C |f:0.1,1.2|', 'C.C>>C |f:0.9|', 'C.C>>C |f:0.1.2|', 'C.C>C>C.C |f:2.3,^1:0,1|',
            '[C:1][C:1]>>[C:1][C:2]', '[C:1]>[C:1]>[C:1]', 'C>>[999C]', '[999C]>>', 'C11>>C', 'C1CC1>CC>C=C |^1:0,2,f:0.1|',
            'C |^1:0,0|', 'C |^1:0,^2:0|', 'CC |^1:0,1,^3:1|', 'CC |^1:1|', 'CC |^8:1|', 'CC |^1:|', 'C..C>>C', 'C.>>C', '.>>', '> >',
            'F/C=C/F>>F/C=C\\F', 'C/C=C1/CCCC1', 'C1=CC=CC=C1', 'N[C@@H](C)C(=O)O', 'C[C@@]1(F)CCCC1', '[C@H]1(F)CCCC1', 'C[C@H]1CC[C@@H](C)CC1',
            'C=1C=CC=CC1', 'C%11CC%11', 'C%99CC%99', 'C1CC1C1CC1', 'C12CC1C2', 'C1CC2CC1CC2', 'c1ccc2c(c1)ccc1ccccc12', '[Fe++++]', '[Fe+4]',
            '[O--]', '[N---]', '[C----]', '[C+2-]', '[C++-]', 'C-C=C#N', 'C:1:C:C:C:C:C:1', 'c1cc[nH]c1', 'c1ccn(C)c1', '[nH]1cccc1',
            'C/C=C/C=C/C', 'C\\C=C/C', 'C/1=C/CCCC1', 'F/C=C1/CCC/1', 'C[S@](=O)CC', '[C@@](F)(Cl)(Br)I', 'CC[C@H](F)[C@@H](Cl)C',
            'OC[C@H]1OC(O)[C@H](O)[C@@H](O)[C@@H]1O', 'C\x0bC', 'C\x1cC', 'C\nC', '\tC', ' C ', 'C  |^1:0|', '|^1:0|', '|', '| |',
            'C(C)(C)(C)C', 'C(C(C(C)))', 'C(=O)(O)', 'B', 'Br', 'BrB', 'CBr', 'CCl', 'ClC', 'BC', 'CB', 'Cc', 'cC', 'cB', 'Bc', 'b1ccccc1',
            'C%12', 'C%1%1', '%1C', 'C(%11)', 'C%(11)', 'C1%01', 'C10', 'C1C0', 'C01', '[0C]', '[C0]', '[CH4-]', '[H-]', '[HH1]', '[HH2+]']


NON_ASCII = ['C\u0661CC\u0661', 'C\uff11CC\uff11', 'C\u00b2', 'C\u00bdC', 'C\u2460CC\u2460', 'C%\u0661\u0662CC%12', '\u0421', 'C\u00a0C',
             'C\u2003|^1:0|', '[\u0661\u0663C]', '[C\uff0b]', 'C\u2013C', 'C\uff1dC', '[\u0421]', 'C\u0301', '\u00e7', 'C\u00a0|^1:0|', 'C\u0085C',
             'C |^1:\u0660|', 'C.C>> |f:\u0660.1|', 'C\u2082H', 'C>\uff1e>C']


def hydrogen_centres():
    """molecule texts whose FIRST atom is the centre of interest"""
    out = []
    envs = ['', 'C', '(C)C', '(C)(C)C', '(C)(C)(C)C', '=C', '(=C)C', '#C', '(=O)=O', '(=O)(=O)C', '(C)(C)(C)(C)C']
    for e in ['B', 'C', 'N', 'O', 'F', 'P', 'S', 'Cl', 'Br', 'I']:
        for env in envs:
            out.append(e + env)
            for h in ['', 'H', 'H2', 'H3', 'H4']:
                out.append(f'[{e}{h}]' + env)
    for c in ['[NH4+]', '[NH3+]C', '[N+](C)(C)(C)C', '[O-]C', '[OH-]', '[OH3+]', '[O+](C)(C)C', '[CH3-]', '[CH3+]', '[CH2-]C', '[BH4-]',
              '[B-](C)(C)(C)C', '[S-]C', '[SH-]', '[Cl-]', '[F-]', '[PH4+]', '[N-](C)C', '[NH-]C', '[N+](=O)([O-])C', '[Na+]', '[NaH]',
              '[Na]', '[Fe]', '[FeH2]', '[SiH4]', '[SiH3]C', '[Si](C)(C)(C)C', '[SeH]C', '[H]', '[H+]', '[H-]', '[2H]C', '[HH]',
              '[13CH4]', '[13CH3]', '[OH]', '[O]C', '[NH]C', '[N](C)C', '[CH2]C', '[CH](C)C', '[C](C)(C)C', '[SH]', '[S]C', '[PH2]',
              '[P](C)C', '[BH2]', '[B](C)C', '[C](Cl)(Cl)Cl',
              'c1ccccc1', '[cH]1ccccc1', '[c]1ccccc1', '[cH2]1ccccc1', 'c1(C)ccccc1', '[c]1(C)ccccc1', '[cH]1(C)ccccc1',
              'n1ccccc1', '[n]1ccccc1', '[nH]1cccc1', '[n]1cccc1', 'n1cccc1', '[nH+]1ccccc1', '[n+]1(C)ccccc1', 'o1cccc1', '[o]1cccc1',
              's1cccc1', '[se]1cccc1', '[s+]1ccccc1', 'b1ccccc1', '[b]1ccccc1', 'p1ccccc1', '[pH]1cccc1', 'c12ccccc1cccc2',
              '[c]12ccccc1cccc2', '[cH]12ccccc1cccc2', '[c-]1cccc1', '[cH-]1cccc1', '[c+]1cccccc1']:
        out.append(c)
    return out


def hydrogen_grid():
    for m in hydrogen_centres():
        yield m
        yield m + ' |^1:0|'
        yield 'O.' + m
        for t in ('{m}>>', '>{m}>', '>>{m}', '{m}>>C', 'C>{m}>C', 'C>>{m}', 'O.{m}>>', 'N>>O.{m}', '{m}>{m}>{m}'):
            yield t.format(m=m)
        yield m + '>>C |^1:0|'
        yield 'C>>' + m + ' |^1:1|'
        yield 'C>' + m + '>C |^1:1|'


def streams(ctx):
    """yield (tag, string)"""
    rng = ctx.rng
    quick = ctx.quick
    for s in HANDMADE:
        yield 'handmade', s
    for s in repo_test_strings():
        yield 'repo-tests', s
    # every pair of bond symbols on the two ends of a ring closure, aliphatic / aromatic / mixed ring atoms
    syms = ['', '-', '=', '#', ':', '/', '\\', '~', '.']
    for o in syms:
        for c in syms:
            for t in ('C{o}1CCC{c}1', 'c{o}1cccc{c}1', 'C{o}1cccc{c}1', 'F/C=C{o}1CCCC{c}1', 'C{o}%12CC(C{c}%12)F', 'F{o}1.Cl{c}1',
                      'C{o}1CC=C{c}1/F', 'C(F){o}1CC{c}1', 'C{o}1{c}1', 'C{o}1C{c}1', 'F/C=C{o}1CCOC{c}1', 'F\\C(Cl)=C{o}1CCOC{c}1',
                      'C{o}1CCOC{c}1=C/F', 'F/C=C/C=C{o}1COCC{c}1', 'F/C=C{o}1.Cl{c}1', 'Cl{o}1.F/C=C{c}1', 'Cl{o}1.F/C(Br)=C{c}1I',
                      'F/C(I)=C{o}1Br.Cl{c}1'):
                yield 'ring-bond-grid', t.format(o=o, c=c)
    # hydrogens / radical state: every centre (unbracketed, bracket with each H count, charged, aromatic) in every bonding
    # environment, read as a molecule, as each role of a reaction, next to other molecules, with and without a CXSMILES mark
    for s in hydrogen_grid():
        yield 'hydrogen-grid', s
    # reactions with distinct one-atom molecules and every kind of fragment grouping (within / across roles, out of range)
    mols9 = ['C', 'N', 'O', 'S', 'P', 'F', 'Cl', 'Br', 'I']
    for nr in range(4):
        for ng in range(4):
            for np_ in range(4):
                n = nr + ng + np_
                if n == 0 or n > 9:
                    continue
                smi = '.'.join(mols9[:nr]) + '>' + '.'.join(mols9[nr:nr + ng]) + '>' + '.'.join(mols9[nr + ng:n])
                yield 'contraction-grid', smi
                for _ in range(4 if quick else 12):
                    groups, pool = [], list(range(n + 1))
                    rng.shuffle(pool)
                    for _ in range(rng.randint(1, 2)):
                        k = rng.randint(2, 3)
                        if len(pool) >= k and rng.random() < 0.8:
                            groups.append([pool.pop() for _ in range(k)])
                        else:
                            groups.append([rng.randint(0, n) for _ in range(k)])
                    cx = ' |f:' + ','.join('.'.join(map(str, g)) for g in groups) + '|'
                    yield 'contraction-grid', smi + cx
    # atom maps in reactions: every placement of classes / unmapped atoms over the three roles, one- and two-atom molecules,
    # repeated and unique classes, classes above and below the number of atoms
    cl = [0, 1, 2, 3, 7, 12]

    def mm(sym, c):
        return f'[{sym}:{c}]' if c else (sym if sym in ('C', 'N', 'O') else f'[{sym}]')
    for cr in cl:
        for cg in cl:
            for cp in cl:
                yield 'reaction-map-grid', f'{mm("C", cr)}O>{mm("Na", cg)}>{mm("C", cp)}=O'
                yield 'reaction-map-grid', f'C{mm("C", cr)}O>O{mm("Na", cg)}>C{mm("C", cp)}=O'
                if rng.random() < (0.25 if quick else 1.0):
                    yield 'reaction-map-grid', f'{mm("C", cr)}{mm("N", cg)}>{mm("O", cp)}.{mm("Na", cg)}>{mm("C", cr)}{mm("O", cp)}'
                    yield 'reaction-map-grid', f'{mm("C", cr)}.{mm("C", cg)}>>{mm("C", cp)}{mm("C", cg)}{mm("C", cr)}'
                    yield 'reaction-map-grid', f'>{mm("C", cr)}{mm("C", cg)}C>{mm("C", cp)}'
    for cr in cl:
        for cg in cl:
            yield 'molecule-map-grid', f'{mm("C", cr)}C{mm("N", cg)}O{mm("C", cr)}'
            yield 'molecule-map-grid', f'C{mm("C", cr)}.{mm("N", cg)}C'
    # CXSMILES radicals on every atom position of molecules and of reactions with atoms in all three roles
    for base_s, n_at in (('CC>O>CC', 5), ('C>CO>C.CC', 6), ('>CO>CC', 4), ('CC>>N', 3), ('CCO', 3), ('C.CN', 3), ('C[CH2]>[OH]>C[CH2]', 5)):
        for i in range(n_at + 1):
            yield 'radical-grid', f'{base_s} |^1:{i}|'
            for j in range(i + 1, n_at):
                if rng.random() < (0.5 if quick else 1.0):
                    yield 'radical-grid', f'{base_s} |^1:{i},{j}|'
                    yield 'radical-grid', f'{base_s} |^1:{j},^2:{i}|'
    # exhaustive short strings
    n_full = 3 if quick else 4
    for s in all_strings(ALPHA_FULL, n_full):
        yield f'exhaustive-full<={n_full}', s
    n_core = 4 if quick else 5
    for s in all_strings(ALPHA_CORE, n_core):
        if len(s) > n_full:
            yield f'exhaustive-core<={n_core}', s
    n_st = 5 if quick else 7
    for s in all_strings(ALPHA_STEREO, n_st):
        if s[0] in 'CN[' and ('/' in s or '\\' in s or '@' in s):
            yield f'exhaustive-stereo<={n_st}', s
    for _ in range(4000 if quick else 60000):
        k = rng.randint(5, 14)
        yield 'random-stereo', rng.choice('CN') + ''.join(rng.choice(ALPHA_STEREO_R) for _ in range(k))
    n_br = 3 if quick else 4
    for s in all_strings(ALPHA_BRACKET, n_br):
        yield f'exhaustive-bracket<={n_br}', '[' + s + ']'
    # structured bracket atoms: isotope x element x stereo x H x charge x map
    from chython.files.daylight.tokenize import charge_dict
    els = ['C', 'N', 'c', 'se', 'Cl', 'H', 'Fe', 'U', 'te', 'as', 'Xx', 't', 'ca', 'D']
    for iso in ['', '1', '12', '13', '238', '999', '0', '1000']:
        for el in els:
            for st in ['', '@', '@@', '@@@']:
                for h in ['', 'H', 'H1', 'H4', 'H5', 'H0']:
                    if rng.random() < (0.05 if quick else 0.5):
                        ch = rng.choice(list(charge_dict) + ['', '', '+5', '+-', '+++++', '-1-'])
                        mp = rng.choice(['', '', ':1', ':0', ':12', ':1234', ':12345', ':', ':a'])
                        yield 'bracket-grid', f'[{iso}{el}{st}{h}{ch}{mp}]'
    # corpus
    from .. import molgen
    smis = molgen.corpus_smiles()
    idx = range(len(smis)) if not quick else sorted(rng.sample(range(len(smis)), 700))
    corpus = [smis[i] for i in idx]
    for s in corpus:
        yield 'corpus', s
    n_gen = 2500 if quick else 20000
    gen = []
    for _ in range(n_gen):
        r = rng.random()
        if r < 0.6:
            s = gen_mol(rng)
            if rng.random() < 0.15:
                s += gen_cx(rng, max(1, len(s) // 2), 2)
        else:
            s = gen_reaction(rng)
        gen.append(s)
        yield 'grammar', s
    for _ in range(1500 if quick else 12000):
        yield 'stereo-templates', gen_stereo(rng)
    for _ in range(1200 if quick else 10000):
        yield 'chiral-spellings', gen_chiral_spelling(rng)
    base = gen + corpus
    n_cor = 2500 if quick else 20000
    for _ in range(n_cor):
        s = rng.choice(base)
        for _ in range(rng.choice([1, 1, 1, 2])):
            s = corrupt(rng, s)
        yield 'corruption', s


# ------------------------------------------------------------------------------------------------
# plugin interface
# ------------------------------------------------------------------------------------------------

def generate(ctx):
    return [gen_c03.generate()]


def features(s):
    f = []
    if '>' in s:
        f.append('reaction')
    if '|' in s:
        f.append('cx')
    if '[' in s:
        f.append('bracket')
    if '(' in s:
        f.append('branch')
    if any(c.isdigit() for c in s):
        f.append('digit')
    if '@' in s or '/' in s or '\\' in s:
        f.append('stereo')
    if '.' in s:
        f.append('dot')
    return f


def correspond(ctx):
    ctx.cov['programs'] = 12  # + hydrogen loop of create_molecule (per atom), smiles(**hydrogen keywords); smiles, smiles_tokenize, _tokenize, _atom_parse, parser, postprocess_parsed_molecule, postprocess_parsed_reaction, create_molecule, create_reaction (+ smiles() judged by reference reader / RDKit)
    if not ctx.build_ok:
        ctx.notes.append('driver not built: correspondence skipped; reference-reader / RDKit stream still runs')
    known_sigs = {f['signature'] for f in core.load_findings('C03') if f['status'] == 'known'}
    state = {'bad': {}, 'shrunk': set(), 'n_or': 0}
    seen = set()
    batch = []

    def flush():
        if not batch:
            return
        resp = None
        if ctx.build_ok:
            reqs = []
            for tag, s in batch:
                reqs.append('T ' + enc(s))
                reqs.append('S ' + enc(s))
            resp = core.run_driver('C03', reqs)
            if len(resp) != len(reqs):
                ctx.broke('correspondence', 'driver-protocol', f'{len(reqs)} requests, {len(resp)} responses')
                resp = None
        for i, (tag, s) in enumerate(batch):
            nontrivial = len(s) >= 2
            ctx.dist('stream:' + tag)
            if resp is not None:
                mt, _ = norm_model(resp[2 * i])
                ms, msg = norm_model(resp[2 * i + 1])
                rt = real_tok(s)
                rs = real_smiles(s)
                ctx.count(('S', s), nontrivial, n=2)     # two programs compared on this string: smiles_tokenize, smiles
                head = ms.split(' ', 2)
                ctx.dist('outcome:' + (head[0] if head[0] != 'ok' else 'ok-' + head[1]))
                if msg:
                    ctx.dist('site:' + msg)
                for f in features(s):
                    ctx.dist('feature:' + f)
                if tag in ('grammar', 'corpus') and len(ctx.cov['samples']) < 6 and len(s) > 6:
                    ctx.sample({'stream': tag, 'input': s, 'model': ms[:300], 'real': rs[:300]})
                if mt != rt:
                    state['bad'].setdefault('smiles_tokenize', []).append((s, mt, rt))
                if ms != rs:
                    state['bad'].setdefault('smiles', []).append((s, ms, rs))
            # standing relational stream: the real reader judged by the independent reference reader + RDKit
            if tag.startswith('exhaustive-') and ((ctx.quick and tag.startswith('exhaustive-core')) or (not ctx.quick and len(s) > 4)):
                continue
            state['n_or'] += 1
            r = oracle(s)
            ctx.count(('S', s), nontrivial)
            if r is not None:
                ctx.dist('oracle:' + r[0])
                if r[0] not in known_sigs and r[0] not in state['shrunk']:  # first unlisted failure of this kind: shrink it
                    state['shrunk'].add(r[0])
                    s, r = shrink(s, r)
                ctx.fail(r[0], r[1], {'smiles': s})
        batch.clear()

    # property-level judgement only (the Lean model is validated on ASCII): a few strings with non-ASCII digits, letters, spaces
    for s in NON_ASCII:
        ctx.dist('stream:non-ascii(oracle only)')
        state['n_or'] += 1
        r = oracle(s)
        ctx.count(('S', s), True)
        if r is not None:
            ctx.fail(r[0], r[1], {'smiles': s})
    # the reader agrees with itself for every forwarded keyword argument: a molecule text in any role of a reaction is built as
    # the same text read alone (hydrogens, radicals, isotopes, charges, stereo, canonical string)
    mols = OPTION_MOLS + (hydrogen_centres() if not ctx.quick else ctx.rng.sample(hydrogen_centres(), 15))
    for opts in OPTION_GRID:
        for m in mols:
            for t in ROLE_TEMPLATES:
                t = t.format(m=m)
                ctx.dist('stream:option-role-grid(oracle only)')
                state['n_or'] += 1
                ctx.count(('O', t, tuple(sorted(opts.items()))), True)
                r = role_relation(m, t, opts)
                if r is not None:
                    ctx.dist('oracle:' + r[0])
                    ctx.fail(r[0], r[1], {'smiles': t, 'molecule': m, 'options': opts})
    # documented meaning of each keyword (docstring of smiles()), on the real code, molecule and every role
    for opt in ('remap', 'ignore_stereo', 'keep_implicit', 'ignore_bad_isotopes', 'ignore_carbon_radicals'):
        for m in OPTION_MOLS + ['[999CH4]', 'C[3CH2]N', '[13CH3][C@H]([3CH3])O']:
            for t in ['{m}'] + ROLE_TEMPLATES:
                t = t.format(m=m)
                ctx.dist('stream:option-semantics(oracle only)')
                state['n_or'] += 1
                ctx.count(('OS', t, opt), True)
                r = option_semantics(t, opt)
                if r is not None:
                    ctx.dist('oracle:' + r[0])
                    ctx.fail(r[0], r[1], {'smiles': t, 'option': opt})
    # model vs code for the three keywords that act inside the hydrogen loop of create_molecule (all 8 combinations):
    # driver op `H k a c s` against smiles(s, keep_implicit=k, ignore_aromatic_radicals=a, ignore_carbon_radicals=c)
    if ctx.build_ok:
        grid = list(hydrogen_grid())
        if ctx.quick:
            grid = ctx.rng.sample(grid, 350) + [x for x in grid if '[CH3]' in x or '[c]' in x or '[n]' in x][:90]
        combos = [(k, a, c) for k in (0, 1) for a in (0, 1) for c in (0, 1)]
        reqs = [f'H {k} {a} {c} ' + enc(x) for (k, a, c) in combos for x in grid]
        resp = core.run_driver('C03', reqs)
        if len(resp) != len(reqs):
            ctx.broke('correspondence', 'driver-protocol', f'{len(reqs)} requests, {len(resp)} responses (H)')
        else:
            i = 0
            for (k, a, c) in combos:
                for x in grid:
                    ms, _ = norm_model(resp[i])
                    i += 1
                    rs = real_built(x, keep_implicit=bool(k), ignore_aromatic_radicals=bool(a), ignore_carbon_radicals=bool(c))
                    ctx.dist('stream:option-hydrogen-grid')
                    ctx.count(('H', k, a, c, x), True)
                    if ms != rs:
                        state['bad'].setdefault('smiles(options)', []).append((f'{x}  [keep_implicit={k} ignore_aromatic_radicals={a} ignore_carbon_radicals={c}]', ms, rs))
    for tag, s in streams(ctx):
        if not s or any(ord(c) > 126 for c in s):
            continue
        if not tag.startswith('exhaustive-'):   # the exhaustive enumerations do not repeat themselves
            h = hash(s)
            if h in seen:
                continue
            seen.add(h)
        batch.append((tag, s))
        if len(batch) >= 100000:
            flush()
    flush()
    ctx.dist('oracle:judged', state['n_or'])
    for name, lst in state['bad'].items():
        ctx.cov['disagreements_checked'] += len(lst)
        lst.sort(key=lambda x: len(x[0]))
        s, m, r = lst[0]
        ctx.broke('correspondence', name, f'{len(lst)} disagreements; shortest input {s!r}: model={m[:400]} real={r[:400]}')
        ctx._c03_disagree = getattr(ctx, '_c03_disagree', []) + [x[0] for x in lst[:200]]
    ctx.exhaustive = False


# ------------------------------------------------------------------------------------------------
# property-level oracle (real code judged by independent readers; never consults the Lean model)
# ------------------------------------------------------------------------------------------------

_RD_ORDER = None


def rdkit_view(text):
    """(atoms, bonds) as RDKit reads the SMILES without sanitisation, or None"""
    global _RD_ORDER
    from rdkit import Chem, RDLogger
    if _RD_ORDER is None:
        RDLogger.DisableLog('rdApp.*')
        _RD_ORDER = {Chem.BondType.SINGLE: 1, Chem.BondType.DOUBLE: 2, Chem.BondType.TRIPLE: 3, Chem.BondType.AROMATIC: 4}
    try:
        m = Chem.MolFromSmiles(text, sanitize=False)
    except Exception:
        return None
    if m is None:
        return None
    atoms = [(a.GetAtomicNum(), a.GetIsotope() or None, a.GetFormalCharge()) for a in m.GetAtoms()]
    bonds = {}
    for b in m.GetBonds():
        i, j = b.GetBeginAtomIdx(), b.GetEndAtomIdx()
        o = _RD_ORDER.get(b.GetBondType())
        if o is None:
            return None
        bonds[(min(i, j), max(i, j))] = o
    return atoms, bonds


def real_view(mols):
    """concatenated (atoms, bonds, numbers) of built molecules, atoms by position"""
    atoms, bonds, nums = [], {}, []
    for m in mols:
        off = len(atoms)
        pos = {n: off + k for k, n in enumerate(m._atoms)}
        for n, a in m._atoms.items():
            atoms.append((a.atomic_number, a.isotope, a.charge))
            nums.append(n)
        for n, ms in m._bonds.items():
            for k, b in ms.items():
                i, j = pos[n], pos[k]
                bonds[(min(i, j), max(i, j))] = int(b)
    return atoms, bonds, nums


def _tabulated(g):
    from chython.periodictable import Element
    for a in g.atoms:
        if a.isotope is not None:
            if a.isotope not in Element.from_atomic_number(a.z)().isotopes_distribution:
                return False
    return True


_CX_RAD = __import__('re').compile(r'\^[1-7]:([0-9]+(?:,[0-9]+)*)')


def ref_read(text):
    """reference reading of a whole input line: ('mol', graph) | ('rxn', [g|None]*3) ; raises Reject"""
    from . import c03_ref as R
    words = text.split()
    if not words:
        raise R.Reject('blank')
    smi = words[0]
    rad = []
    if len(words) > 1 and words[1].startswith('|') and words[1].endswith('|'):
        for m in _CX_RAD.finditer(words[1]):
            rad += [int(x) for x in m.group(1).split(',')]
    if '>' in smi:
        parts = smi.split('>')
        if len(parts) != 3:
            raise R.Reject('reaction needs exactly two >')
        gs = [R.parse(p) if p else None for p in parts]
        if not any(gs):
            raise R.Reject('empty reaction')
        n = sum(len(g.atoms) for g in gs if g)
    else:
        gs = R.parse(smi)
        n = len(gs.atoms)
    if len(set(rad)) != len(rad):
        rad = []                         # repeated index: the whole radical block is ignored (documented)
    if any(x >= n for x in rad):
        raise R.Reject('radical index beyond the last atom')
    ref_read.radicals = set(rad)         # atom positions in text order (reactants, reagents, products)
    return ('rxn' if '>' in smi else 'mol'), gs


def classify_accept(s, obj):
    """real accepted, reference rejected: name the class (stable part of the signature)"""
    import re
    smi = s.split()[0]
    if '~' in smi:
        return None                      # any-bond: documented chython extension of the bond alphabet, not judged
    log = ' '.join(map(str, (getattr(obj, 'meta', None) or {}).get('chython_parsing_log', [])))
    if 'ignored' in log and 'molecule' in log:
        return 'reaction-drops-invalid-molecule'
    if 'two dots' in log:
        return 'reaction-empty-component'
    if re.search(r'%[0-9]($|[>.])', smi):
        return 'percent-single-digit-at-end'
    if re.search(r'(^|[>.])\(', smi):
        return 'leading-branch'
    return 'other'


def classify_reject(s, kind, gs):
    smi = s.split()[0]
    graphs = [g for g in (gs if kind == 'rxn' else [gs]) if g]
    if not all(_tabulated(g) for g in graphs):
        return None                      # isotope the periodic table does not list: outside the supported domain
    if any(getattr(g, 'ring_zero', False) for g in graphs):
        return 'ring-number-0'
    if kind == 'rxn':
        from . import c03_ref as R
        for part in smi.split('>'):
            for comp in part.split('.'):
                if comp:
                    try:
                        R.parse(comp)
                    except R.Reject:
                        return 'reaction-split-at-dot'
    return 'other'


_STEREO_BAD = __import__('re').compile(r'\[[0-9]*(?!C@)[A-Za-z][a-z]?@')


def stereo_judgement(s, obj):
    """configuration (chirality marks, / \\ marks) judged with RDKit: the molecule chython built, written back by chython
    and re-read by RDKit, must have the same canonical isomeric SMILES as the input read by RDKit directly.
    Domain: strings RDKit reads and sanitises, chirality marks on carbon only. Returns None or (signature, what)."""
    if not any(c in s for c in '@/\\') or _STEREO_BAD.search(s):
        return None
    from rdkit import Chem
    rm = Chem.MolFromSmiles(s)
    if rm is None:
        return None
    try:
        w = str(obj)
    except Exception:
        return None              # the writer is not what is judged here
    rm2 = Chem.MolFromSmiles(w)
    if rm2 is None:
        return None
    a, b = Chem.MolToSmiles(rm), Chem.MolToSmiles(rm2)
    if a == b:
        return None
    if Chem.MolToSmiles(rm, isomericSmiles=False) != Chem.MolToSmiles(rm2, isomericSmiles=False):
        return None              # constitution / aromaticity perception differences are not a stereo judgement
    return ('C03/wrong-configuration/vs-rdkit',
            f'smiles({s!r}) was built as {w}: RDKit reads the input as {a} but the built molecule as {b}')


# lowest normal valence of the organic subset (OpenSMILES) and of their common closed-shell ions (isoelectronic neighbour)
_LOWVAL = {(5, 0): 3, (6, 0): 4, (7, 0): 3, (8, 0): 2, (9, 0): 1, (15, 0): 3, (16, 0): 2, (17, 0): 1, (35, 0): 1, (53, 0): 1,
           (5, -1): 4, (6, 1): 3, (6, -1): 3, (7, 1): 4, (7, -1): 2, (8, 1): 3, (8, -1): 1, (9, -1): 0, (15, 1): 4, (15, -1): 2,
           (16, 1): 3, (16, -1): 1, (17, -1): 0, (35, -1): 0, (53, -1): 0}


def expected_hydrogens(a, orders, named):
    """what the language says about ONE atom: None (not judged) | (hydrogens, radical or None=not judged, tag).
    `a` reference atom, `orders` orders of its bonds in the reference graph, `named` = listed in the CXSMILES ^n: block.
    Judged: bracket atoms -- the written count; a count that leaves exactly one open valence below the lowest normal
    valence is a radical (SMILES has no other way to write one). Unbracketed organic-subset atoms with bond order sum up to
    the lowest normal valence -- the difference (the range in which every reader agrees). Aromatic atoms: written count of
    bracket hetero atoms; carbon with two aromatic bonds and at most one more valence, or three aromatic bonds.
    Not judged: valences above the lowest normal one (hypervalent P, S, halogens, N(V): the valence model's domain, C04),
    elements outside the organic subset, unbracketed aromatic hetero atoms (left to kekule() by design)."""
    arom = sum(1 for o in orders if o == 4)
    sigma = sum(o for o in orders if o != 4)
    h = a.hcount if a.bracket else None
    if a.z == 1:
        return (0, None, 'H') if (h or 0) == 0 and not named else None
    if arom:
        if a.bracket:
            if a.z != 6 or a.charge:
                return (h, None, 'aromatic-bracket')
            if (arom == 2 and sigma + h <= 1) or (arom == 3 and sigma == 0 and h == 0):
                return (h, None, 'aromatic-bracket')
            return None
        if a.z == 6 and not named:
            if arom == 2 and sigma <= 1:
                return (1 - sigma, False, 'aromatic-c')
            if arom == 3 and sigma == 0:
                return (0, False, 'aromatic-c')
        return None
    v0 = _LOWVAL.get((a.z, a.charge))
    if v0 is None:
        return None
    if not a.bracket:
        t = sigma + (1 if named else 0)
        return (v0 - t, named, 'organic') if t <= v0 else None
    t = sigma + h
    if t > v0:
        return None
    d = v0 - t
    if named:
        return (h, True, 'bracket-radical') if d == 1 and not a.charge else None
    if d == 0:
        return (h, False, 'bracket')
    if a.charge:
        return None
    if d == 1:
        return (h, True, 'halogen-atom' if a.z in (9, 17, 35, 53) else 'bracket-radical')
    return (h, None, 'open-valence-2')


def hydrogen_judgement(s, obj, roles, want):
    k = 0
    for mols, g in roles:
        if not g:
            continue
        real = [(a.implicit_hydrogens, bool(a.is_radical)) for m in mols for a in m._atoms.values()]
        if len(real) != len(g.atoms):
            return None
        nb = [[] for _ in g.atoms]
        for (i, j), o in g.bonds.items():
            nb[i].append(o)
            nb[j].append(o)
        for i, a in enumerate(g.atoms):
            # whatever count the reader settled on: a neutral organic-subset atom with localised bonds whose bonds and
            # hydrogens already fill its lowest normal valence is not a radical unless the text names it as one
            v0 = _LOWVAL.get((a.z, 0)) if not a.charge else None
            if (v0 is not None and (k + i) not in want and 4 not in nb[i] and real[i][0] is not None and real[i][1]
                    and sum(nb[i]) + real[i][0] == v0):
                return ('C03/wrong-graph/radical',
                        f'smiles({s!r}) = {obj}: atom {k + i} of the text is built with {real[i][0]} hydrogens (valence {v0} filled) '
                        f'and marked as a radical, although the text does not name it in a radical block')
            e = expected_hydrogens(a, nb[i], (k + i) in want)
            if e is None:
                continue
            eh, er, tag = e
            if er is True and a.z in (9, 17, 35, 53):
                tag = 'halogen-atom'      # halogen radical, however written: [Cl], Cl |^1:0|, [Cl] |^1:0|
            rh, rr = real[i]
            if rh != eh or (er is not None and rr != er):
                if tag == 'open-valence-2':
                    sig = 'C03/wrong-graph/hydrogens-open-valence-2'
                elif tag == 'halogen-atom':
                    sig = 'C03/wrong-graph/hydrogens-halogen-atom'
                else:
                    sig = 'C03/wrong-graph/hydrogens'
                return sig, (f'smiles({s!r}) = {obj}: atom {k + i} of the text ({tag}) has hydrogens={rh} radical={rr}; '
                             f'the text means hydrogens={eh}' + ('' if er is None else f' radical={er}'))
        k += len(g.atoms)
    return None


def oracle(s, stereo=True):
    """property-level judgement of ONE string on the real code (never consults the Lean model).
    returns None if the property holds, else (signature, what)"""
    from . import c03_ref as R
    _, S, _ = _mods()
    from chython import ReactionContainer
    try:
        obj = S.smiles(s)
    except ValueError as e:
        obj, err = None, e
    except Exception as e:
        return f'C03/unrelated-exception/{type(e).__name__}', f'smiles({s!r}) raised {type(e).__name__}: {e}'
    try:
        kind, gs = ref_read(s)
    except R.Reject as e:
        kind, gs, why = None, None, str(e)
    except Exception as e:  # the reference reader must never be the reason of an alarm
        return None
    if obj is None:
        if kind is None:
            return None
        c = classify_reject(s, kind, gs)
        if c is None:
            return None
        return (f'C03/rejects-language-string/{c}',
                f'smiles({s!r}) raised {type(err).__name__}: {err}; the reference reader accepts it')
    if kind is None:
        c = classify_accept(s, obj)
        if c is None:
            return None
        return (f'C03/accepts-outside-language/{c}', f'smiles({s!r}) = {obj}; the reference reader rejects it: {why}')
    # both accept: same graph?
    is_rxn = isinstance(obj, ReactionContainer)
    if is_rxn != (kind == 'rxn'):
        return 'C03/wrong-kind', f'smiles({s!r}) built a {type(obj).__name__}'
    words = s.split()
    contracted = len(words) > 1 and 'f:' in words[1]
    if is_rxn:
        log = ' '.join(map(str, (obj.meta or {}).get('chython_parsing_log', [])))
        if 'ignored' in log and 'molecule' in log:
            if all(_tabulated(g) for g in gs if g):
                # every molecule of the text is a valid graph for the reference reader, yet one was dropped on the way
                return ('C03/wrong-graph/reaction-molecule-dropped',
                        f'smiles({s!r}) = {obj}: a molecule of the text is missing (parsing log: {log[:200]})')
            return None
        roles = [(obj.reactants, gs[0]), (obj.reagents, gs[1]), (obj.products, gs[2])]
        allcls = [a.cls for g in gs if g for a in g.atoms if a.cls]
    else:
        roles = [([obj], gs)]
        allcls = [a.cls for a in gs.atoms if a.cls]
    for mols, g in roles:
        atoms, bonds, nums = real_view(mols)
        ra, rb = R.view(g) if g else ([], {})
        if contracted:
            if sorted((a[0], a[1] or 0, a[2]) for a in ra) != sorted((a[0], a[1] or 0, a[2]) for a in atoms) or len(rb) != len(bonds):
                return 'C03/wrong-graph/contracted', f'smiles({s!r}) = {obj}: atoms/bond count differ from the reference reading'
            continue
        if [(a[0], a[1], a[2]) for a in ra] != atoms:
            return 'C03/wrong-graph/atoms', f'smiles({s!r}): atoms {atoms} vs reference {[(a[0], a[1], a[2]) for a in ra]}'
        if rb != bonds:
            diff = sorted(set(rb.items()) ^ set(bonds.items()))[:6]
            return 'C03/wrong-graph/bonds', f'smiles({s!r}): bonds differ from the reference reading: {diff}'
        # atom maps: an atom written [X:n] is atom number n (molecule: first use of n; reaction: n used once in the text,
        # repeated classes are renumbered by documented rules that are not judged here)
        classes = [a[3] for a in ra]
        for k, c in enumerate(classes):
            if c and ((not is_rxn and classes.index(c) == k) or (is_rxn and allcls.count(c) == 1)) and nums[k] != c:
                return 'C03/wrong-graph/atom-number', f'smiles({s!r}): atom {k} of {"a role" if is_rxn else "the molecule"} has class {c} but number {nums[k]}'
    # CXSMILES radicals, per role and per atom in text order: an atom named in the ^n: block is a radical; an atom written
    # without brackets (hydrogens computed, never guessed to be a radical) is a radical only if it is named there
    if not contracted:
        want = getattr(ref_read, 'radicals', set())
        k = 0
        for mols, g in roles:
            flags = [bool(a.is_radical) for m in mols for a in m._atoms.values()]
            for a, f in zip(g.atoms if g else [], flags):
                if k in want and not f:
                    return 'C03/wrong-graph/radical', f'smiles({s!r}) = {obj}: atom {k} of the text is named in the radical block but is not a radical'
                if k not in want and f and not a.bracket:
                    return 'C03/wrong-graph/radical', f'smiles({s!r}) = {obj}: atom {k} of the text is not named in the radical block but was made a radical'
                k += 1
    # hydrogens and radical state the reader leaves on every atom (molecule or any role of a reaction), judged against the
    # written count / the OpenSMILES normal valences -- see hydrogen_judgement
    if not contracted:
        r = hydrogen_judgement(s, obj, roles, getattr(ref_read, 'radicals', set()))
        if r is not None:
            return r
    # RDKit as a second, fully independent reader (molecules without CXSMILES only)
    if not is_rxn and len(words) == 1 and '~' not in s:
        rv = rdkit_view(s)
        if rv is not None:
            atoms, bonds, _ = real_view([obj])
            if rv[0] != atoms or rv[1] != bonds:
                return 'C03/wrong-graph/vs-rdkit', f'smiles({s!r}): {atoms} {bonds} but RDKit reads {rv}'
        if stereo and not gs.dir_conflict:  # contradictory marks on the two ends of a ring bond have no defined meaning
            return stereo_judgement(s, obj)
    return None


# every keyword of smiles() that is forwarded to create_molecule / create_reaction, at a non-default value (and the defaults)
OPTION_GRID = [{}, {'keep_implicit': True}, {'ignore_carbon_radicals': True}, {'ignore_aromatic_radicals': False},
               {'ignore_bad_isotopes': True}, {'ignore': False}, {'ignore_stereo': True}, {'remap': True},
               {'keep_implicit': True, 'ignore_carbon_radicals': True, 'ignore_aromatic_radicals': False, 'ignore_bad_isotopes': True}]
OPTION_MOLS = ['[CH3]', 'C[CH2]', 'C[O]', '[CH2]', '[OH3]', 'C[NH]', '[CH3]C', 'c1cc[c]cc1', '[n]1cccc1', 'c1cc[n]c1', '[3CH4]', '[3C]C',
               '[13CH3]', 'N[C@H](C)O', 'F/C=C/F', 'C[N+](C)(C)C', '[NH4+]', 'CC(=O)[O-]', '[CH3:7]C', 'C1CC1', 'CS(C)C', '[Cl]', 'C=[CH3]',
               '[cH2]1ccccc1', 'c1ccccc1[CH2]', 'Cl[C](Cl)Cl', 'CC(C)(C)O[O]',
               'C[C@H](N)O', 'C[C@@H](N)O', '[C@H](F)(Cl)Br', 'F/C=C\\F', 'C/C=C/C=C\\C', 'N[C@@]1(C)CCO1', 'C[C@H](O)/C=C/[C@@H](N)C',
               'F/C=C/1CCOC1', 'CC(C)=C=C(C)F', 'O[C@H]1CC[C@@H](N)CC1']
ROLE_TEMPLATES = ['{m}>>', '>{m}>', '>>{m}', '{m}>>C', 'C>{m}>C', 'C>>{m}']


def mol_full_view(m):
    """everything the reader decided about one built molecule, atoms in construction order (numbers left out)"""
    pos = {n: k for k, n in enumerate(m._atoms)}
    atoms = [(a.atomic_number, a.isotope, a.charge, a.implicit_hydrogens, bool(a.is_radical), getattr(a, 'stereo', None))
             for a in m._atoms.values()]
    bonds = sorted((min(pos[n], pos[k]), max(pos[n], pos[k]), int(b), getattr(b, 'stereo', None))
                   for n, ms in m._bonds.items() for k, b in ms.items() if pos[n] < pos[k])
    return atoms, bonds, None, str(m)


def role_relation(m, t, opts):
    """the reader agrees with itself: the text `m` placed in one role of a reaction (`t`) is built exactly as `m` read alone,
    for the same keyword arguments. Returns None or (signature, what)."""
    _, S, _ = _mods()
    try:
        a = S.smiles(m, **opts)
        av = mol_full_view(a)
    except ValueError as e:
        av = None
    except Exception as e:
        return f'C03/unrelated-exception/{type(e).__name__}', f'smiles({m!r}, **{opts}) raised {type(e).__name__}: {e}'
    try:
        r = S.smiles(t, **opts)
    except ValueError as e:
        if av is None:
            return None
        return ('C03/wrong-graph/reaction-role-differs-from-molecule',
                f'smiles({t!r}, **{opts}) raised {type(e).__name__}: {e}, but smiles({m!r}, **{opts}) = {a}')
    except Exception as e:
        return f'C03/unrelated-exception/{type(e).__name__}', f'smiles({t!r}, **{opts}) raised {type(e).__name__}: {e}'
    if av is None:
        if opts.get('ignore', True):
            return None      # known: ignore=True drops the molecule the builder rejects
        return ('C03/wrong-graph/reaction-role-differs-from-molecule',
                f'smiles({t!r}, **{opts}) = {r} although smiles({m!r}, **{opts}) is rejected')
    a_, b_, c_ = t.split('>')
    role = r.reactants if a_.startswith(m) and a_ == m else (r.reagents if b_ == m else r.products)
    views = [mol_full_view(x) for x in role]
    if av not in views:
        return ('C03/wrong-graph/reaction-role-differs-from-molecule',
                f'smiles({t!r}, **{opts}) builds {[v[3] for v in views]} {[v[0] for v in views]} for the role written {m!r}; '
                f'smiles({m!r}, **{opts}) = {av[3]} {av[0]}')
    return None


def option_semantics(s, opt):
    """documented meaning of ONE keyword of smiles() (its docstring), judged on the real code for the text `s` (a molecule or a
    reaction without CXSMILES block). Returns None or (signature, what). Independent of the Lean model."""
    from . import c03_ref as R
    _, S, _ = _mods()
    from chython import ReactionContainer
    try:
        kind, gs = ref_read(s)
    except Exception:
        return None
    try:
        obj = S.smiles(s, **{opt: True})
    except ValueError as e:
        if opt == 'ignore_bad_isotopes':
            try:
                S.smiles(s.replace('[3', '[').replace('[999', '['))      # the same text without the bad isotope marks
            except Exception:
                return None
            return ('C03/option-semantics/ignore_bad_isotopes',
                    f'smiles({s!r}, ignore_bad_isotopes=True) raised {type(e).__name__}: {e}; the keyword resets an invalid isotope mark')
        return None
    except Exception as e:
        return f'C03/unrelated-exception/{type(e).__name__}', f'smiles({s!r}, {opt}=True) raised {type(e).__name__}: {e}'
    is_rxn = isinstance(obj, ReactionContainer)
    roles = [(obj.reactants, gs[0]), (obj.reagents, gs[1]), (obj.products, gs[2])] if is_rxn else [([obj], gs)]
    sig = f'C03/option-semantics/{opt}'
    for mols, g in roles:
        atoms = [a for m in mols for a in m._atoms.values()]
        bonds = [b for m in mols for n, ms in m._bonds.items() for b in ms.values()]
        if not g or len(atoms) != len(g.atoms):
            continue
        if opt == 'remap' and not is_rxn:
            nums = [n for m in mols for n in m._atoms]
            if nums != list(range(1, len(nums) + 1)):
                return sig, f'smiles({s!r}, remap=True): atom numbers {nums}, documented: numbers started from one'
        if opt == 'ignore_stereo':
            if any(getattr(a, 'stereo', None) is not None for a in atoms) or any(getattr(b, 'stereo', None) is not None for b in bonds):
                return sig, f'smiles({s!r}, ignore_stereo=True) = {obj}: stereo labels present'
        if opt == 'keep_implicit':
            for k, (a, ra) in enumerate(zip(atoms, g.atoms)):
                if ra.bracket and a.implicit_hydrogens != ra.hcount:
                    return sig, (f'smiles({s!r}, keep_implicit=True) = {obj}: bracket atom {k} of a role has {a.implicit_hydrogens} hydrogens, '
                                 f'written {ra.hcount}')
        if opt == 'ignore_bad_isotopes':
            from chython.periodictable import Element
            for k, (a, ra) in enumerate(zip(atoms, g.atoms)):
                ok = ra.isotope is None or ra.isotope in Element.from_atomic_number(ra.z)().isotopes_distribution
                want = ra.isotope if ok else None
                if a.isotope != want:
                    return sig, f'smiles({s!r}, ignore_bad_isotopes=True) = {obj}: atom {k} of a role has isotope {a.isotope}, expected {want}'
        if opt == 'ignore_carbon_radicals':
            for k, a in enumerate(atoms):
                if a.atomic_number == 6 and a.is_radical:
                    return sig, f'smiles({s!r}, ignore_carbon_radicals=True) = {obj}: carbon {k} of a role is a radical (no CXSMILES mark in the text)'
    return None


def probe(inp):
    """re-execute one input (or a short list of inputs of the same finding) on the real code"""
    if 'option' in inp:      # documented meaning of one keyword
        r = option_semantics(inp['smiles'], inp['option'])
        return (True, r[1]) if r is not None else (False, f"smiles({inp['smiles']!r}, {inp['option']}=True): as documented")
    if 'options' in inp:     # relational input: molecule text, reaction text, keyword arguments
        r = role_relation(inp['molecule'], inp['smiles'], inp['options'])
        return (True, r[1]) if r is not None else (False, f"smiles({inp['smiles']!r}, **{inp['options']}): role agrees with the molecule read alone")
    ss = inp['smiles']
    ss = [ss] if isinstance(ss, str) else list(ss)
    want = inp.get('signature')
    out = []
    for s in ss:
        r = oracle(s)
        if r is not None and (want is None or r[0] == want):
            out.append(r[1])
    if out:
        return True, ' ; '.join(out)
    return False, '; '.join(f'smiles({s!r}): property holds' for s in ss)


def shrink(s, r):
    """smallest string (by deleting characters) on which the oracle reports the same signature"""
    changed = True
    while changed and len(s) > 1:
        changed = False
        for w in (8, 6, 5, 4, 3, 2, 1):  # delete windows, large ones first (a bracket atom, a branch)
            for i in range(len(s) - w + 1):
                t = s[:i] + s[i + w:]
                q = oracle(t) if t else None
                if q and q[0] == r[0]:
                    s, r, changed = t, q, True
                    break
            if changed:
                break
    return s, r


def search(ctx):
    """failing-input search: property-level oracle on the real code, starting from the disagreeing strings, then
    their single-/double-edit neighbourhood, then handmade + corrupted grammar strings"""
    rng = ctx.rng
    seeds = list(dict.fromkeys(getattr(ctx, '_c03_disagree', [])))
    tried = set()
    found = set()

    def judge(s):
        if not s or s in tried or any(ord(c) > 126 for c in s):
            return
        tried.add(s)
        r = oracle(s)
        if r:
            if r[0] not in found:  # first input of this kind: shrink it (greedy single-character deletion)
                s, r = shrink(s, r)
            found.add(r[0])
            ctx.fail(r[0], r[1], {'smiles': s})

    for s in seeds:
        judge(s)
    # systematic single-edit neighbourhood of the shortest disagreeing strings
    for s in sorted(seeds, key=len)[:40]:
        for i in range(len(s) + 1):
            judge(s[:i] + s[i + 1:])
            for c in ALPHA_FULL:
                judge(s[:i] + c + s[i:])
                judge(s[:i] + c + s[i + 1:])
    for s in HANDMADE:
        judge(s)
    budget = 6000 if ctx.quick else 60000
    pool = seeds + HANDMADE + [gen_mol(rng) for _ in range(300)] + [gen_reaction(rng) for _ in range(100)]
    n = 0
    while n < budget:
        s = rng.choice(pool)
        for _ in range(rng.choice([0, 1, 1, 2, 3])):
            s = corrupt(rng, s)
        n += 1
        judge(s)
