"""C03 — SMILES reader builds exactly the molecule the text denotes, rejects the rest.

Tie: G (charge/bond tables, character classes, atom regex in normal form, element + isotope keys regenerated into
Gen/C03Tables.lean) + K (the executable Lean model of `_tokenize`/`_atom_parse`/`smiles_tokenize`, `parser`, the
`smiles()` front end, `_mapping` numbering and the structural part of `create_molecule`/`create_reaction` is run
against the real functions on exhaustive short strings, exhaustive bracket contents, grammar-generated strings,
corpus strings and single-edit corruptions; outcome class, token list, parsed record and built graph compared).
Search / standing relational stream: RDKit and an independent recursive-descent reader written from the
OpenSMILES grammar judge what the real `smiles()` builds; "raises something that is not ValueError" for the rest.
"""
import itertools
import sys

from .. import core
from ..gen import gen_c03

LEVEL = 'translation_validation'
LEVEL_TEXT = ('The reader is decided by an executable Lean model that mirrors tokenizer, atom parser, parser, front end and '
              'numbering branch by branch, validated against the real functions on every run (exhaustive over all short '
              'strings of the SMILES alphabet, generated and corpus strings, corruptions), plus universally quantified '
              'theorems about that model: no input can reach an unrelated exception, the parser result is well formed, and '
              'on the core grammar the reader builds exactly the graph an independent denotational semantics assigns. '
              'Translation validation is the right level because the hand-written model is tied to the Python text by '
              'differential execution, not by a proof about the Python text.')
LEVEL_NOTE = ('Trusted: Lean kernel; gen_c03 translator (CPython sre parser for atom_re, AST of _tokenize); the harness '
              'canonicaliser; hand transcription of the Python control flow (validated, not proved); str.isnumeric/str.split '
              'modelled for ASCII only; calc_implicit / stereo assignment after graph construction are outside the model.')
TECHNIQUE = 'Lean 4 executable model + theorems (invariants, denotational spec) + exhaustive/generated differential correspondence'
RULE = ('strings: (a) every string up to a length bound over the SMILES alphabet, (b) every bracket-atom body up to a bound '
        'over the bracket alphabet, (c) grammar-generated molecules/reactions/CXSMILES, (d) corpus + repository test strings, '
        '(e) single-edit corruptions of (c),(d). A case is one (stream, string); it is non-trivial when the string has at '
        'least 2 characters; distinct by (stream, string).')
TRUSTED = ['gen_c03 translator (atom_re via CPython sre parser into a restricted normal form; _tokenize character classes via AST)',
           'hand-written model of the two CXSMILES regexes (translator refuses to run if the patterns change)']
ASSUMPTIONS = ['ASCII input (str.isnumeric / str.split whitespace modelled for ASCII)',
               'default keyword arguments of smiles() (ignore=True, remap=False)',
               'calc_implicit, radical guessing and stereo assignment never raise under ignore=True (checked on every generated input, not proved)']
HAS_DRIVER = True
EXTRA_MODULES = []
FINDINGS_MODULE = 'ChythonModel.Findings.C03'
SEARCH_ALWAYS_IN_THOROUGH = False

ALPHA_FULL = list('CcNOnoBSlrFH[]()12%0=#-/\\.:+@;!,~>^| 9')
ALPHA_CORE = list('CcNOl()12%=-/.[]@H+>')
ALPHA_BRACKET = list('19C0cHNasel@+-2:t4Z')


# ------------------------------------------------------------------------------------------------
# real side
# ------------------------------------------------------------------------------------------------

def _mods():
    import importlib
    T = importlib.import_module('chython.files.daylight.tokenize')
    importlib.import_module('chython.files.daylight.smiles')
    S = sys.modules['chython.files.daylight.smiles']
    P = importlib.import_module('chython.files.daylight.parser')
    return T, S, P


def enc(s):
    return ' '.join(str(ord(c)) for c in s)


def opt(v):
    return '-1' if v is None else str(int(v))


def tri(v):
    return '-1' if v is None else str(int(bool(v)))


def atom_str(d):
    el = '.'.join(str(ord(c)) for c in d['element'])
    br = 1 if 'charge' in d else 0
    return (f"{el}:{br}:{opt(d.get('isotope'))}:{opt(d.get('parsed_mapping'))}:{d.get('charge', 0)}:"
            f"{opt(d.get('implicit_hydrogens'))}:{tri(d.get('stereo'))}:{int(bool(d.get('is_radical', False)))}")


def val_str(v):
    from chython.containers.bonds import QueryBond
    if v is None:
        return 'N'
    if isinstance(v, bool):
        return 'bT' if v else 'bF'
    if isinstance(v, int):
        return f'i{v}'
    if isinstance(v, str):
        return 's' + '.'.join(str(ord(c)) for c in v)
    if isinstance(v, list):
        return 'l' + '.'.join(map(str, v))
    if isinstance(v, QueryBond):
        return 'q' + '.'.join(map(str, v.order)) + ('T' if v.in_ring else 'F')
    return '?' + type(v).__name__


def tok_str(t):
    ty, v = t
    if ty in (0, 8) and isinstance(v, dict):
        return f'A{ty}:{atom_str(v)}'
    if ty == 1 and isinstance(v, int) and not isinstance(v, bool):
        return f'B{v}'
    if ty == 2:
        return '('
    if ty == 3:
        return ')'
    if ty == 4:
        return '.'
    if ty == 6 and isinstance(v, int) and not isinstance(v, bool):
        return f'C{v}'
    if ty == 9 and isinstance(v, bool):
        return 'D1' if v else 'D0'
    return f'O{ty}:{val_str(v)}'


def err_class(e):
    from chython.exceptions import IncorrectSmiles
    if isinstance(e, IncorrectSmiles):
        return 'lib:IncorrectSmiles'
    if isinstance(e, ValueError):
        return 'lib:ValueError'
    return 'crash:' + type(e).__name__


def rec_str(data):
    atoms = ','.join(atom_str(a) for a in data['atoms'])
    bonds = ','.join(f'{a}-{b}-{int(o)}' for a, b, o in data['bonds'])
    order = ';'.join(f'{k}:' + ','.join(opt(x) for x in v) for k, v in sorted(data['order'].items()))
    sa = ','.join(f'{k}:{int(v)}' for k, v in data['stereo_atoms'].items())
    sb = ';'.join(f'{k}>' + ','.join(f'{m}:{int(b)}' for m, b in d.items()) for k, d in sorted(data['stereo_bonds'].items()))
    mp = ','.join(map(str, data.get('mapping', [])))
    return f'atoms={atoms} bonds={bonds} order={order} satoms={sa} sbonds={sb} map={mp}'


def mol_str(m):
    atoms = ','.join(f'{n}:{a.atomic_number}:{opt(a.isotope)}:{a.charge}' for n, a in m._atoms.items())
    adj = ';'.join(f'{n}>' + ','.join(f'{k}:{int(b)}' for k, b in ms.items()) for n, ms in m._bonds.items())
    return f'{atoms} {adj}'


def real_tok(s):
    T, S, P = _mods()
    try:
        toks = T.smiles_tokenize(s)
    except Exception as e:
        return err_class(e)
    return ('ok ' + ' '.join(tok_str(t) for t in toks)).rstrip() if toks else 'ok '


def real_smiles(s, want_obj=False):
    """run the real smiles(); returns canonical line (and the built object)"""
    T, S, P = _mods()
    cap = {}
    ocm, ocr = S.create_molecule, S.create_reaction

    def cm(data, **kw):
        cap['rec'] = rec_str(data)
        return ocm(data, **kw)

    def cr(data, **kw):
        pre = {k: [(id(m), rec_str(m)) for m in data[k]] for k in ('reactants', 'reagents', 'products')}
        cap['rxn'] = pre
        try:
            return ocr(data, **kw)
        finally:
            cap['kept'] = {k: [dict(pre[k]).get(id(m), '?') for m in data[k]] for k in ('reactants', 'reagents', 'products')}

    S.create_molecule, S.create_reaction = cm, cr
    try:
        obj = S.smiles(s)
    except Exception as e:
        out = err_class(e)
        return (out, None) if want_obj else out
    finally:
        S.create_molecule, S.create_reaction = ocm, ocr
    from chython import ReactionContainer
    if isinstance(obj, ReactionContainer):
        def rr(d):
            return ('R[' + ' | '.join(d['reactants']) + '] G[' + ' | '.join(d['reagents']) + '] P[' + ' | '.join(d['products']) + ']')
        pre = {k: [x[1] for x in v] for k, v in cap['rxn'].items()}
        built = {'reactants': [mol_str(m) for m in obj.reactants], 'reagents': [mol_str(m) for m in obj.reagents],
                 'products': [mol_str(m) for m in obj.products]}
        out = f"ok R {rr(pre)} # {rr(cap['kept'])} # {rr(built)}"
    else:
        out = f"ok M {cap['rec']} # {mol_str(obj)}"
    return (out, obj) if want_obj else out


def norm_model(line):
    """model line -> (comparable line, message)"""
    if line.startswith('lib:') or line.startswith('crash:'):
        head, _, msg = line.partition(' @')
        if head == 'lib:IncorrectSmarts':
            head = 'lib:IncorrectSmiles'
        return head, msg
    return line.rstrip() if line != 'ok ' else 'ok ', ''


# ------------------------------------------------------------------------------------------------
# generators
# ------------------------------------------------------------------------------------------------

def all_strings(alpha, n):
    for k in range(1, n + 1):
        for t in itertools.product(alpha, repeat=k):
            yield ''.join(t)


ORGANIC = ['C', 'C', 'C', 'N', 'O', 'S', 'P', 'F', 'Cl', 'Br', 'I', 'B']
AROM = ['c', 'c', 'c', 'n', 'o', 's']
BRACKET = ['[H]', '[CH3]', '[NH4+]', '[O-]', '[13C]', '[13CH3]', '[2H]', '[Na+]', '[Fe+2]', '[Fe+++]', '[C@H]', '[C@@H]', '[C@]',
           '[C@@]', '[nH]', '[n+]', '[se]', '[Cu]', '[Si]', '[N+]', '[C-]', '[CH2:1]', '[C:2]', '[OH:3]', '[CH]', '[S--]',
           '[Al+3]', '[238U]', '[te]', '[as]', '[cH-]', '[B-]', '[NH3+:7]', '[C:1]', '[O:1]', '[N-2]', '[Ti++++]']
BONDS = ['', '', '', '', '-', '=', '#', ':', '/', '\\', '~']


def gen_mol(rng, size=None, depth=0):
    """grammar-driven SMILES (mostly valid): chain, branches, ring closures, dots, stereo"""
    n = size or rng.randint(1, 12)
    out = []
    open_rings = []
    next_ring = [1]
    aromatic_run = 0

    def atom():
        nonlocal aromatic_run
        r = rng.random()
        if aromatic_run > 0:
            aromatic_run -= 1
            return rng.choice(AROM) if rng.random() < 0.9 else '[nH]'
        if r < 0.65:
            return rng.choice(ORGANIC)
        if r < 0.85:
            return rng.choice(BRACKET)
        aromatic_run = rng.randint(2, 5)
        return rng.choice(AROM)

    def ring_label(k):
        return str(k) if k < 10 and rng.random() < 0.9 else '%%%02d' % k if k >= 10 else '%%%02d' % k

    for i in range(n):
        if i:
            r = rng.random()
            if r < 0.06:
                out.append('.')
            else:
                out.append(rng.choice(BONDS))
        out.append(atom())
        # ring closures
        while rng.random() < 0.22 and len(open_rings) < 4:
            k = next_ring[0] if rng.random() < 0.8 else rng.randint(1, 99)
            if k in open_rings:
                continue
            next_ring[0] = k + 1 if k < 98 else 1
            open_rings.append(k)
            out.append(rng.choice(['', '', '', '=', '/', '-']) + ring_label(k))
        if open_rings and rng.random() < 0.3 and i > 1:
            k = open_rings.pop(rng.randrange(len(open_rings)))
            out.append(rng.choice(['', '', '', '', '=', '\\']) + ring_label(k))
        # branch
        if depth < 3 and rng.random() < 0.2:
            inner = gen_mol(rng, rng.randint(1, 4), depth + 1)
            out.append('(' + rng.choice(['', '', '=', '.', '/', '#']) + inner + ')')
    # close what is open (mostly)
    if out and rng.random() < 0.93:
        for k in open_rings:
            out.append(rng.choice(ORGANIC[:4]) + ring_label(k))
    return ''.join(out)


def gen_cx(rng, natoms_hint=6, nmol=3):
    parts = []
    if rng.random() < 0.6:
        parts.append('^%d:%s' % (rng.randint(0, 8), ','.join(str(rng.randint(0, natoms_hint)) for _ in range(rng.randint(1, 3)))))
    if rng.random() < 0.6:
        groups = []
        for _ in range(rng.randint(1, 2)):
            groups.append('.'.join(str(rng.randint(0, nmol)) for _ in range(rng.randint(1, 3))))
        parts.append('f:' + ','.join(groups))
    if rng.random() < 0.2:
        parts.append('^1:' + str(rng.randint(0, 3)))
    rng.shuffle(parts)
    body = ','.join(parts)
    r = rng.random()
    if r < 0.85:
        return ' |' + body + '|'
    if r < 0.9:
        return ' |' + body
    if r < 0.95:
        return ' ' + body + '|'
    return '\t|' + body + '| title'


def gen_reaction(rng):
    def side(lo=0, hi=3):
        return '.'.join(gen_mol(rng, rng.randint(1, 4)) for _ in range(rng.randint(lo, hi)))
    r = rng.random()
    if r < 0.9:
        s = side(0, 3) + '>' + side(0, 2) + '>' + side(0, 3)
    elif r < 0.95:
        s = side(1, 2) + '>' + side(0, 2)
    else:
        s = side(1, 2) + '>>' + side(1, 2) + '>' + side(0, 1)
    if rng.random() < 0.6:
        s += gen_cx(rng, 5, s.count('.') + 3)
    return s


def corrupt(rng, s):
    if not s:
        return s
    i = rng.randrange(len(s) + 1)
    r = rng.random()
    c = rng.choice(ALPHA_FULL)
    if r < 0.35:
        return s[:i] + c + s[i:]
    if r < 0.7 and i < len(s):
        return s[:i] + s[i + 1:]
    if i < len(s):
        return s[:i] + c + s[i + 1:]
    return s + c


def repo_test_strings():
    """SMILES-looking string literals of the repository's own daylight tests"""
    import ast
    out = []
    for p in sorted((core.REPO / 'chython/files/daylight/test').glob('test_*.py')):
        try:
            tree = ast.parse(p.read_text())
        except SyntaxError:
            continue
        for node in ast.walk(tree):
            if isinstance(node, ast.Constant) and isinstance(node.value, str) and 0 < len(node.value) < 200 and '\n' not in node.value:
                out.append(node.value)
    return sorted(set(out))


HANDMADE = ['(', ';', ';@', 'C |^1:5|', 'C-;@C', 'C!~C', 'C!', 'C;', 'C-;', 'C.(C)', 'C1CC%1', '(C)C', 'C~C', '   ', 'C11', 'C12CCC12',
            '[Xx]', '[999C]', '[13C]', '[1C]', 'C-;@;@C', 'C-,=C', 'C1.C1>>CC', 'C.C>> |f:0.1|', 'C>>C |^1:7|', '>>', 'C>', 'C>>C>',
            '[C:0]', '[C+5]', '[C+-]', '[C@@@H]', 'c1ccccc1c2ccccc2', 'C%', 'C%1', 'C%01', 'C0', 'C(1)', 'C()', 'C((C))C', 'C(C', 'C)',
            'C=', '=C', 'C==C', 'C.', '.C', 'C..C', 'C1=CC=1', 'C1=CC-1', 'C=1CC1', 'C/1CC\\1', '[H]', '[HH]', '[Hg]', '[CH5]', '[C@]',
            'Cl', 'Bl', 'Cr', 'Brr', 'C\tC', 'C |f:0.1|', 'C.C |f:0.1|', 'C |', 'C ||', 'C |^1:0| x', '[se]1cccc1', '[te]', '[as]', '[b]',
            'bccc', 'C%10CC%10', 'C%100C%10C0', '[C:12345]', '[C:1234]', '[1000C]', '[012C]', 'C$C', 'C:C', 'c:c', 'cc', 'c=c', 'C(=O)',
            'C(C)(C)', 'C(.C)', 'C(=.C)', 'C.=C', 'C1.C1', 'C(C)1CC1', 'C1(C)CC1', '[C@H](F)(Cl)Br', 'F/C=C/F', 'F/C=C/1.F1', '[2H]',
            '[H+]', '[C--]', '[C-2]', '[C---]', '[C-3]', '[C+++]', '[CH1]', '[CH0]', '[CH]', '[cH-]1cccc1', 'C.C.C>C.C>C.C |f:0.1,3.4,5.6|',
            'C.C.C>C.C>C.C |f:0.3|', 'C.C>>C |f:0.1,1.2|', 'C.C>>C |f:0.9|', 'C.C>>C |f:0.1.2|', 'C.C>C>C.C |f:2.3,^1:0,1|',
            '[C:1][C:1]>>[C:1][C:2]', '[C:1]>[C:1]>[C:1]', 'C>>[999C]', '[999C]>>', 'C11>>C', 'C1CC1>CC>C=C |^1:0,2,f:0.1|',
            'C |^1:0,0|', 'C |^1:0,^2:0|', 'CC |^1:0,1,^3:1|', 'CC |^1:1|', 'CC |^8:1|', 'CC |^1:|', 'C..C>>C', 'C.>>C', '.>>', '> >',
            'F/C=C/F>>F/C=C\\F', 'C/C=C1/CCCC1', 'C1=CC=CC=C1', 'N[C@@H](C)C(=O)O', 'C[C@@]1(F)CCCC1', '[C@H]1(F)CCCC1', 'C[C@H]1CC[C@@H](C)CC1',
            'C=1C=CC=CC1', 'C%11CC%11', 'C%99CC%99', 'C1CC1C1CC1', 'C12CC1C2', 'C1CC2CC1CC2', 'c1ccc2c(c1)ccc1ccccc12', '[Fe++++]', '[Fe+4]',
            '[O--]', '[N---]', '[C----]', '[C+2-]', '[C++-]', 'C-C=C#N', 'C:1:C:C:C:C:C:1', 'c1cc[nH]c1', 'c1ccn(C)c1', '[nH]1cccc1',
            'C/C=C/C=C/C', 'C\\C=C/C', 'C/1=C/CCCC1', 'F/C=C1/CCC/1', 'C[S@](=O)CC', '[C@@](F)(Cl)(Br)I', 'CC[C@H](F)[C@@H](Cl)C',
            'OC[C@H]1OC(O)[C@H](O)[C@@H](O)[C@@H]1O', 'C\x0bC', 'C\x1cC', 'C\nC', '\tC', ' C ', 'C  |^1:0|', '|^1:0|', '|', '| |',
            'C(C)(C)(C)C', 'C(C(C(C)))', 'C(=O)(O)', 'B', 'Br', 'BrB', 'CBr', 'CCl', 'ClC', 'BC', 'CB', 'Cc', 'cC', 'cB', 'Bc', 'b1ccccc1',
            'C%12', 'C%1%1', '%1C', 'C(%11)', 'C%(11)', 'C1%01', 'C10', 'C1C0', 'C01', '[0C]', '[C0]', '[CH4-]', '[H-]', '[HH1]', '[HH2+]']


def streams(ctx):
    """yield (tag, string)"""
    rng = ctx.rng
    quick = ctx.quick
    for s in HANDMADE:
        yield 'handmade', s
    for s in repo_test_strings():
        yield 'repo-tests', s
    # exhaustive short strings
    n_full = 3 if quick else 4
    for s in all_strings(ALPHA_FULL, n_full):
        yield f'exhaustive-full<={n_full}', s
    n_core = 4 if quick else 5
    for s in all_strings(ALPHA_CORE, n_core):
        if len(s) > n_full:
            yield f'exhaustive-core<={n_core}', s
    n_br = 3 if quick else 5
    for s in all_strings(ALPHA_BRACKET, n_br):
        yield f'exhaustive-bracket<={n_br}', '[' + s + ']'
    # structured bracket atoms: isotope x element x stereo x H x charge x map
    from chython.files.daylight.tokenize import charge_dict
    els = ['C', 'N', 'c', 'se', 'Cl', 'H', 'Fe', 'U', 'te', 'as', 'Xx', 't', 'ca', 'D']
    for iso in ['', '1', '12', '13', '238', '999', '0', '1000']:
        for el in els:
            for st in ['', '@', '@@', '@@@']:
                for h in ['', 'H', 'H1', 'H4', 'H5', 'H0']:
                    if rng.random() < (0.05 if quick else 0.5):
                        ch = rng.choice(list(charge_dict) + ['', '', '+5', '+-', '+++++', '-1-'])
                        mp = rng.choice(['', '', ':1', ':0', ':12', ':1234', ':12345', ':', ':a'])
                        yield 'bracket-grid', f'[{iso}{el}{st}{h}{ch}{mp}]'
    # corpus
    from .. import molgen
    smis = molgen.corpus_smiles()
    idx = range(len(smis)) if not quick else sorted(rng.sample(range(len(smis)), 700))
    corpus = [smis[i] for i in idx]
    for s in corpus:
        yield 'corpus', s
    n_gen = 2500 if quick else 20000
    gen = []
    for _ in range(n_gen):
        r = rng.random()
        if r < 0.6:
            s = gen_mol(rng)
            if rng.random() < 0.15:
                s += gen_cx(rng, max(1, len(s) // 2), 2)
        else:
            s = gen_reaction(rng)
        gen.append(s)
        yield 'grammar', s
    base = gen + corpus
    n_cor = 2500 if quick else 20000
    for _ in range(n_cor):
        s = rng.choice(base)
        for _ in range(rng.choice([1, 1, 1, 2])):
            s = corrupt(rng, s)
        yield 'corruption', s


# ------------------------------------------------------------------------------------------------
# plugin interface
# ------------------------------------------------------------------------------------------------

def generate(ctx):
    return [gen_c03.generate()]


def features(s):
    f = []
    if '>' in s:
        f.append('reaction')
    if '|' in s:
        f.append('cx')
    if '[' in s:
        f.append('bracket')
    if '(' in s:
        f.append('branch')
    if any(c.isdigit() for c in s):
        f.append('digit')
    if '@' in s or '/' in s or '\\' in s:
        f.append('stereo')
    if '.' in s:
        f.append('dot')
    return f


def correspond(ctx):
    ctx.cov['programs'] = 9  # smiles, smiles_tokenize, _tokenize, _atom_parse, parser, postprocess_parsed_molecule, postprocess_parsed_reaction, create_molecule, create_reaction
    if not ctx.build_ok:
        ctx.notes.append('driver not built: correspondence skipped')
        return
    seen = set()
    cases = []
    for tag, s in streams(ctx):
        if not s or (tag, s) in seen or any(ord(c) > 126 for c in s):
            continue
        seen.add((tag, s))
        cases.append((tag, s))
    reqs = []
    for tag, s in cases:
        reqs.append('T ' + enc(s))
        reqs.append('S ' + enc(s))
    resp = core.run_driver('C03', reqs)
    if len(resp) != len(reqs):
        ctx.broke('correspondence', 'driver-protocol', f'{len(reqs)} requests, {len(resp)} responses')
        return
    bad = {}
    for i, (tag, s) in enumerate(cases):
        mt, _ = norm_model(resp[2 * i])
        ms, msg = norm_model(resp[2 * i + 1])
        rt = real_tok(s)
        rs = real_smiles(s)
        nontrivial = len(s) >= 2
        ctx.count(('T', s), nontrivial)
        ctx.count(('S', s), nontrivial)
        ctx.dist('stream:' + tag)
        head = ms.split(' ', 2)
        ctx.dist('outcome:' + (head[0] if head[0] != 'ok' else 'ok-' + head[1]))
        if msg:
            ctx.dist('site:' + msg)
        for f in features(s):
            ctx.dist('feature:' + f)
        if tag in ('grammar', 'corpus') and len(ctx.cov['samples']) < 6 and len(s) > 6:
            ctx.sample({'stream': tag, 'input': s, 'model': ms[:300], 'real': rs[:300]})
        if mt != rt:
            bad.setdefault('smiles_tokenize', []).append((s, mt, rt))
        if ms != rs:
            bad.setdefault('smiles', []).append((s, ms, rs))
    for name, lst in bad.items():
        ctx.cov['disagreements_checked'] += len(lst)
        lst.sort(key=lambda x: len(x[0]))
        s, m, r = lst[0]
        ctx.broke('correspondence', name, f'{len(lst)} disagreements; shortest input {s!r}: model={m[:400]} real={r[:400]}')
        ctx._c03_disagree = getattr(ctx, '_c03_disagree', []) + [x[0] for x in lst[:200]]
    ctx.exhaustive = False


def oracle(s):
    """property-level judgement of ONE string on the real code (never consults the Lean model).
    returns None if the property holds, else (signature, what)"""
    _, S, _ = _mods()
    try:
        obj = S.smiles(s)
    except ValueError:
        return None
    except Exception as e:
        return f'C03/unrelated-exception/{type(e).__name__}', f'smiles({s!r}) raised {type(e).__name__}: {e}'
    return None


def probe(inp):
    s = inp['smiles']
    kind = inp.get('kind', 'oracle')
    if kind == 'oracle':
        r = oracle(s)
        if r is None:
            return False, f'smiles({s!r}): property holds (ValueError or accepted)'
        return True, r[1]
    return False, 'unknown probe kind'


def search(ctx):
    rng = ctx.rng
    seeds = list(getattr(ctx, '_c03_disagree', []))
    tried = set()
    budget = 4000 if ctx.quick else 40000
    pool = seeds + HANDMADE
    for s in pool:
        if s in tried:
            continue
        tried.add(s)
        r = oracle(s)
        if r:
            ctx.fail(r[0], r[1], {'kind': 'oracle', 'smiles': s})
    n = 0
    while n < budget and pool:
        s = rng.choice(pool)
        for _ in range(rng.choice([1, 1, 2, 3])):
            s = corrupt(rng, s)
        n += 1
        if s in tried or not s:
            continue
        tried.add(s)
        r = oracle(s)
        if r:
            ctx.fail(r[0], r[1], {'kind': 'oracle', 'smiles': s})
