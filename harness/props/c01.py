"""C01 — canonical SMILES, equality and hash depend on structure only (translation validation + partial proofs).

G  harness/gen/gen_c01.py: `Element.__hash__` field list, `Bond.__hash__`, the loop constants of `_morgan`, the
   `atoms_order` shortcuts and the shapes of `Smiles.__eq__/__hash__` are re-extracted from /repo -> Gen/C01Tables.lean.
P  Props/C01.lean: renumbering/insertion-order equivariance of the refinement step, of the whole `_morgan` loop, of the
   final dense ranks and of `atoms_order`, for EVERY hash function; eq/hash are eq/hash of the canonical string.
K  exact equality, real chython vs the Lean model (driver drv_c01): `Morgan.atoms_order` (ranks AND dict order),
   `_morgan` on arbitrary int weights (negative, tied, missing keys), `hash(atom)` and `hash(tuple)` as CPython ints.
R  relational (real code on both sides), inside the claimed domain (independent symmetry oracle filters the two recorded
   gaps): `str(mol)`, `mol == other`, `hash(mol)` across renumberings/insertion orders, across re-reads of the library's
   random-order spellings and of RDKit random SMILES (after kekule()+thiele()).
"""
import itertools
import json

from .. import molgen
from ..core import run_driver
from ..gen import gen_c01

LEVEL = 'translation_validation'
LEVEL_TEXT = ('The refinement that produces the canonical atom classes (`_morgan`, `atoms_order`, the atom/bond invariants) is an '
              'executable Lean model tied to the source by regenerated tables and exact integer correspondence, and its '
              'independence of atom numbering and of dict insertion order is proved for all graphs and every hash function. '
              'The string writer and the stereo-aware refinement are heuristic code with two recorded gaps, so the '
              'unconditional invariance of the string is false and is not a theorem; that part is decided run by run by '
              'comparing the real code\'s canonical strings, equality and hashes across renumberings and across two '
              'independent writers\' spellings, inside the claimed domain (independent symmetry oracle).')
LEVEL_NOTE = ('Lean kernel; hand transcription Model/Morgan.lean validated by exact correspondence (not derived from the Python '
              'text); Py/Hash.lean model of CPython tuple/int hash validated on every value compared; the writer `_smiles` and '
              '`_chiral_morgan` are outside the Lean model (relational validation only); RDKit is used as an independent '
              'spelling source and symmetry oracle only.')
TECHNIQUE = 'Lean 4 equivariance theorems over an executable Morgan model + exact correspondence + relational validation of canonical strings'
HAS_DRIVER = True
EXTRA_MODULES = []
RULE = ('K case = (entry point, molecule in one concrete numbering and dict insertion order) or (_morgan, weights, adjacency); '
        'molecules: repo corpus sample, hand-made set, exhaustive small graphs with random decoration, ring assemblies, each '
        'also under random renumberings with shuffled atom/bond insertion order. Non-trivial = at least 2 atoms (so that the '
        'refinement loop runs) or an error branch; distinct by (op, wire form). R case = (molecule, second description of the '
        'same structure); non-trivial = the second description differs from the first in numbering, order or spelling.')
TRUSTED = ['hand transcription Model/Morgan.lean (validated by this correspondence)',
           'Py/Hash.lean model of CPython 3.12 int/tuple hash (validated on every hash compared)',
           'gen_c01 translator (AST patterns of Element.__hash__, Bond.__hash__, _morgan constants, Smiles.__eq__/__hash__)',
           'domain filter: RDKit CanonicalRankAtoms(breakTies=False) + brute-force automorphisms (only to discard the two recorded gaps)']
ASSUMPTIONS = ['molecules satisfy the Graph invariant (adjacency dict over the atom keys); `_morgan` on other inputs is covered '
               'through its KeyError branch only',
               '`in_ring` labels are the stored `_in_ring` attributes (computed by calc_labels; their own invariance belongs to the ring perception property C06)',
               'the `for … else` log warning of `_morgan` is not modelled (no effect on the result)',
               'hash(str) (PYTHONHASHSEED-seeded) is not modelled: `hash(mol)` is compared between descriptions within one process']

_state = {}


def generate(ctx):
    return [gen_c01.generate()]


# ------------------------------------------------------------------------------------------------
# wire
# ------------------------------------------------------------------------------------------------

def view_ints(mol):
    out = [len(mol._atoms)]
    for n, a in mol._atoms.items():
        ms = mol._bonds[n]
        h = a._implicit_hydrogens
        out += [n, a.atomic_number, a._isotope or 0, a._charge, int(a._is_radical), -1 if h is None else h,
                int(a.in_ring), len(ms)]
        for m, b in ms.items():
            out += [m, b.order]
    return out


def _err(e):
    return ('err ' if type(e) is KeyError else 'crash ') + type(e).__name__


def real_order(mol):
    try:
        return ' '.join(['ok'] + [f'{n} {i}' for n, i in mol.atoms_order.items()])
    except Exception as e:  # noqa
        return _err(e)


def real_morgan(weights, adj):
    from chython.algorithms.morgan import _morgan
    try:
        r = _morgan(dict(weights), {n: dict(ms) for n, ms in adj})
        return ' '.join(['ok'] + [f'{n} {i}' for n, i in r.items()])
    except Exception as e:  # noqa
        return _err(e)


def morgan_line(weights, adj):
    out = ['morgan', len(weights)]
    for n, w in weights:
        out += [n, w]
    out.append(len(adj))
    for n, ms in adj:
        out += [n, len(ms)]
        for m, b in ms:
            out += [m, b]
    return ' '.join(map(str, out))


# ------------------------------------------------------------------------------------------------
# generators
# ------------------------------------------------------------------------------------------------

def molecules(ctx):
    """(name, mol) stream for the K streams."""
    rng = ctx.rng
    out = list(molgen.handmade())
    out += molgen.corpus(rng, 150 if ctx.quick else 1500)
    n_small = 5 if ctx.quick else 6
    graphs = [g for k in range(2, n_small + 1) for g in molgen.unlabeled_small_graphs(k)]
    for g in graphs:
        for rep in range(1 if ctx.quick else 3):
            try:
                out.append((f'small{g}#{rep}', molgen.decorate(rng, list(g))))
            except Exception:  # noqa  (valence-impossible decoration: not a molecule)
                continue
    for i in range(40 if ctx.quick else 400):
        e = molgen.ring_assembly(rng)
        try:
            out.append((f'rings#{i}', molgen.decorate(rng, e, hetero=0.15, multiple=0.1, charge=0.03)))
        except Exception:  # noqa
            continue
    if not ctx.quick:
        out += molgen.test_files()
    return out


def random_morgan_case(rng):
    """arbitrary `_morgan` inputs: small ints with ties, big/negative ints, asymmetric adjacency, missing keys."""
    n = rng.randint(0, 7)
    ids = rng.sample(range(1, 30), n)
    kind = rng.random()
    if kind < 0.4:
        ws = [(i, rng.randint(-3, 3)) for i in ids]
    elif kind < 0.7:
        ws = [(i, rng.choice([1, 1, 2, -1, 5])) for i in ids]
    else:
        ws = [(i, rng.randint(-2 ** 63, 2 ** 63 - 1)) for i in ids]
    adj = {i: {} for i in ids}
    for a, b in itertools.combinations(ids, 2):
        if rng.random() < 0.35:
            o = rng.choice([1, 1, 2, 3, 4, 8])
            adj[a][b] = o
            adj[b][a] = o if rng.random() < 0.9 else rng.choice([1, 2])
    rows = list(adj.items())
    rng.shuffle(rows)
    rows = [(k, list(v.items())) for k, v in rows]
    for k, v in rows:
        rng.shuffle(v)
    if rng.random() < 0.12 and ids:  # malformed: neighbour/key missing from the weights, or extra row
        r = rng.random()
        if r < 0.4:
            ws = ws[:-1]
        elif r < 0.7:
            rows.append((99, [(ids[0], 1)]))
        else:
            rows = rows[:-1]
    return ws, rows


# ------------------------------------------------------------------------------------------------
# K: model vs implementation
# ------------------------------------------------------------------------------------------------

def correspond(ctx):
    import logging
    from ..gen import pyx2py
    pyx2py.install()
    logging.getLogger('chython.morgan').setLevel(logging.ERROR)  # the `for … else` branch of _morgan only logs
    k_streams(ctx)
    relational(ctx)


def k_streams(ctx):
    rng = ctx.rng
    reqs, expected, meta = [], [], []

    def add(op, line, exp, key, nontrivial, what):
        reqs.append(line)
        expected.append(exp)
        meta.append((op, key, nontrivial, what))

    mols = molecules(ctx)
    _state['mols'] = mols
    nren = 3 if ctx.quick else 6
    seen_atoms = set()
    for name, mol in mols:
        variants = [(name, mol)]
        for r in range(nren):
            try:
                c, _ = molgen.renumber(rng, mol)
            except Exception:  # noqa
                continue
            variants.append((f'{name}~{r}', c))
        for vname, m in variants:
            xs = view_ints(m)
            line = 'order ' + ' '.join(map(str, xs))
            add('order', line, real_order(m), line, len(m) >= 2, vname)
            ctx.dist('order:atoms<=%d' % (10 * ((len(m) + 9) // 10)))
        for n, a in mol._atoms.items():
            h = a._implicit_hydrogens
            key = (a.atomic_number, a._isotope or 0, a._charge, int(a._is_radical), -1 if h is None else h, int(a.in_ring))
            if key in seen_atoms:
                continue
            seen_atoms.add(key)
            add('hash', 'hash ' + ' '.join(map(str, key)), f'ok {hash(a)}', ('hash', key), True, f'{name}:{n}')
    for _ in range(300 if ctx.quick else 5000):
        ws, rows = random_morgan_case(rng)
        line = morgan_line(ws, rows)
        exp = real_morgan(ws, rows)
        add('morgan', line, exp, line, len(ws) >= 2 or not exp.startswith('ok'), 'random _morgan input')
        ctx.dist('morgan:' + exp.split()[0] + (':' + exp.split()[1] if not exp.startswith('ok') else ''))
    for _ in range(100 if ctx.quick else 1000):
        t = [rng.choice([rng.randint(-5, 5), rng.randint(-2 ** 70, 2 ** 70), -1, 2 ** 61 - 1, -(2 ** 61 - 1)])
             for _ in range(rng.randint(0, 9))]
        add('tuple', 'tuple ' + ' '.join(map(str, t)), f'ok {hash(tuple(t))}', ('tuple', tuple(t)), True, 'hash(tuple)')
    ctx.cov['programs'] = 4  # Morgan.atoms_order(+int_adjacency), _morgan, Element.__hash__, hash(tuple)
    if not ctx.build_ok:
        ctx.notes.append('driver not built: K streams skipped')
        return
    got = run_driver('C01', reqs)
    if len(got) != len(reqs):
        ctx.broke('correspondence', 'driver-output-length', f'{len(got)} lines for {len(reqs)} requests')
        return
    bad = {}
    for line, exp, g, (op, key, nontrivial, what) in zip(reqs, expected, got, meta):
        ctx.count((op, key), nontrivial)
        if op == 'order':
            ctx.sample({'request': line[:160], 'model': g[:120], 'implementation': exp[:120]}, limit=3)
        elif op == 'morgan':
            ctx.sample({'request': line[:160], 'model': g[:120], 'implementation': exp[:120]}, limit=5)
        if g != exp:
            ctx.cov['disagreements_checked'] += 1
            bad.setdefault(op, []).append((what, line, exp, g))
    for op, items in bad.items():
        what, line, exp, g = min(items, key=lambda t: len(t[1]))
        ctx.broke('correspondence', {'order': 'Morgan.atoms_order', 'morgan': '_morgan', 'hash': 'Element.__hash__',
                                     'tuple': 'hash(tuple)'}[op],
                  f'{len(items)} disagreement(s); smallest: {what}\n request: {line}\n implementation: {exp}\n model: {g}')
    _state['k_bad'] = bad


# ------------------------------------------------------------------------------------------------
# R: relational validation of the canonical string (real code on both sides)
# ------------------------------------------------------------------------------------------------

def relational(ctx):
    pass


def search(ctx):
    pass


def probe(inp):
    return False, 'not implemented'
