"""C01 — canonical SMILES, equality and hash depend on structure only (translation validation + partial proofs).

G  harness/gen/gen_c01.py: `Element.__hash__` field list, `Bond.__hash__`, the loop constants of `_morgan`, the
   `atoms_order` shortcuts and the shapes of `Smiles.__eq__/__hash__` are re-extracted from /repo -> Gen/C01Tables.lean.
P  Props/C01.lean: renumbering/insertion-order equivariance of the refinement step, of the whole `_morgan` loop, of the
   final dense ranks and of `atoms_order`, for EVERY hash function; eq/hash are eq/hash of the canonical string.
K  exact equality, real chython vs the Lean model (driver drv_c01): `Morgan.atoms_order` (ranks AND dict order),
   `_chiral_morgan` (op `cfull`: tetrahedral, cis/trans AND allene labels incl. the R/S-pair differentiation of all three
   blocks and the KeyError branches; only the set-order branches are answered `notmodelled`; op `cmorgan`: the older
   tetrahedral-only model, proved to be extended by the full one), `MoleculeStereo.cumulenes` (op `cumul`),
   `_morgan` on arbitrary int weights (negative, tied, missing keys), `hash(atom)` and `hash(tuple)` as CPython ints.
R  relational (real code on both sides), inside the claimed domain (independent symmetry oracle filters the two recorded
   gaps): `str(mol)`, `mol == other`, `hash(mol)` across renumberings/insertion orders, across re-reads of the library's
   random-order spellings and of RDKit random SMILES (after kekule()+thiele()).
"""
import itertools
import json

from .. import molgen
from ..core import run_driver
from ..gen import gen_c01

LEVEL = 'translation_validation'
LEVEL_TEXT = ('The refinement that produces the canonical atom classes (`_morgan`, `atoms_order`, the atom/bond invariants, `_chiral_morgan` with tetrahedral, cis/trans and allene labels incl. `cumulenes`/`stereogenic_cumulenes`) is an '
              'executable Lean model tied to the source by regenerated tables and exact integer correspondence, and its '
              'independence of atom numbering and of dict insertion order is proved for all graphs and every hash function. '
              'For stereo labels (of any kind) on pairwise inequivalent elements the stereo-aware weights are proved equal to atoms_order, hence fully invariant; the whole stereo-aware refinement is proved independent of the atom numbers. '
              'The string writer and the set-order branches of the stereo-aware refinement are heuristic code with two recorded gaps, so the '
              'unconditional invariance of the string is false and is not a theorem; that part is decided run by run by '
              'comparing the real code\'s canonical strings, equality and hashes across renumberings and across two '
              'independent writers\' spellings (incl. ring-closure direction marks at the opening / closing / both digits, explicit bonds and hydrogens, two-digit ring numbers; configuration judged independently by the other toolkit\'s canonical isomeric SMILES of the re-written string), inside the claimed domain (independent symmetry oracle). '
              'On candidates with pairwise different weights the two choice points of the writer model (start atom, sorted front) are proved independent of set order, BFS distance and numbering; the rest of the factoring hypothesis for the string is still a hypothesis.')
LEVEL_NOTE = ('Lean kernel; hand transcription Model/Morgan.lean validated by exact correspondence (not derived from the Python '
              'text); Py/Hash.lean model of CPython tuple/int hash validated on every value compared; the writer `_smiles` and '
              'the set-iteration-order branches of `_chiral_morgan` (ring groups; test on group[0] not uniform over a group) are outside the Lean model (relational validation only); RDKit is used as an independent '
              'spelling source and symmetry oracle only.')
TECHNIQUE = 'Lean 4 equivariance / naturality theorems over an executable model of the Morgan and stereo-aware refinement (incl. cumulenes, cis/trans and allene differentiation) + exact correspondence + relational validation of canonical strings across renumberings, histories and two toolkits\' spellings with an independent configuration oracle'
HAS_DRIVER = True
EXTRA_MODULES = []
FINDINGS_MODULE = 'ChythonModel.Findings.C01'
RULE = ('K case = (entry point, molecule in one concrete numbering and dict insertion order) or (_morgan, weights, adjacency); '
        'molecules: repo corpus sample, hand-made set, exhaustive small graphs with random decoration, ring assemblies, each '
        'also under random renumberings with shuffled atom/bond insertion order. Non-trivial = at least 2 atoms (so that the '
        'refinement loop runs) or an error branch; distinct by (op, wire form). R case = (molecule, second description of the '
        'same structure); non-trivial = the second description differs from the first in numbering, order or spelling.')
TRUSTED = ['hand transcriptions Model/Morgan.lean, Model/ChiralMorgan.lean, Model/C01Chiral.lean (validated by this correspondence)',
           'Model/Stereo.lean translateTetra / translateCisTrans / translateAllene (C12) and Gen/PeriodicTable.lean is_forming_single_bonds / is_forming_double_bonds flags (C18) used by the stereo-aware model',
           'Py/Hash.lean model of CPython 3.12 int/tuple hash (validated on every hash compared)',
           'gen_c01 translator (AST patterns of Element.__hash__, Bond.__hash__, _morgan constants, Smiles.__eq__/__hash__)',
           'domain filter: RDKit CanonicalRankAtoms(breakTies=False) + brute-force automorphisms (only to discard the two recorded gaps)']
ASSUMPTIONS = ['molecules satisfy the Graph invariant (adjacency dict over the atom keys); `_morgan` on other inputs is covered '
               'through its KeyError branch only',
               '`in_ring` labels are the stored `_in_ring` attributes (computed by calc_labels; their own invariance belongs to the ring perception property C06)',
               'the `for … else` log warning of `_morgan` is not modelled (no effect on the result)',
               'hash(str) (PYTHONHASHSEED-seeded) is not modelled: `hash(mol)` is compared between descriptions within one process']

_state = {}


def generate(ctx):
    return [gen_c01.generate()]


# ------------------------------------------------------------------------------------------------
# wire
# ------------------------------------------------------------------------------------------------

def view_ints(mol):
    out = [len(mol._atoms)]
    for n, a in mol._atoms.items():
        ms = mol._bonds[n]
        h = a._implicit_hydrogens
        out += [n, a.atomic_number, a._isotope or 0, a._charge, int(a._is_radical), -1 if h is None else h,
                int(a.in_ring), len(ms)]
        for m, b in ms.items():
            out += [m, b.order]
    return out


def sview_ints(mol):
    """the `cmorgan` wire: like view_ints plus the stereo labels"""
    from ..wire import tri
    out = [len(mol._atoms)]
    for n, a in mol._atoms.items():
        ms = mol._bonds[n]
        h = a._implicit_hydrogens
        out += [n, a.atomic_number, a._isotope or 0, a._charge, int(a._is_radical), -1 if h is None else h,
                int(a.in_ring), tri(a._stereo), len(ms)]
        for m, b in ms.items():
            out += [m, b.order, tri(getattr(b, '_stereo', None))]
    return out


def real_chiral_morgan(mol):
    try:
        return ' '.join(['ok'] + [f'{n} {i}' for n, i in mol._chiral_morgan.items()])
    except Exception as e:  # noqa
        return _err(e)


def stereo_kind(mol):
    if any(b._stereo is not None for _, _, b in mol.bonds()):
        return 'bond-label'
    if any(a._stereo is not None for a in mol._atoms.values()):
        return 'atom-label'
    return 'label-free'


def _err(e):
    return ('err ' if type(e) is KeyError else 'crash ') + type(e).__name__


def real_order(mol):
    try:
        return ' '.join(['ok'] + [f'{n} {i}' for n, i in mol.atoms_order.items()])
    except Exception as e:  # noqa
        return _err(e)


def real_morgan(weights, adj):
    from chython.algorithms.morgan import _morgan
    try:
        r = _morgan(dict(weights), {n: dict(ms) for n, ms in adj})
        return ' '.join(['ok'] + [f'{n} {i}' for n, i in r.items()])
    except Exception as e:  # noqa
        return _err(e)


def morgan_line(weights, adj):
    out = ['morgan', len(weights)]
    for n, w in weights:
        out += [n, w]
    out.append(len(adj))
    for n, ms in adj:
        out += [n, len(ms)]
        for m, b in ms:
            out += [m, b]
    return ' '.join(map(str, out))


# ------------------------------------------------------------------------------------------------
# generators
# ------------------------------------------------------------------------------------------------

def molecules(ctx):
    """(name, mol) stream for the K streams."""
    rng = ctx.rng
    out = list(molgen.handmade())
    out += [(t, molgen.parse(t)) for t in SYMMETRIC + STEREO_PAIRS + ISOTOPES + EXPLICIT_H_STEREO + ez_catalogue() + OLIGOMERS
            + RADICALS + COORDINATED + ALLENES + PI_STEREO + RING_EZ + ODD_GROUPS + HYPERVALENT_PI + oligomers(rng, 30 if ctx.quick else 200) if molgen.parse(t) is not None]
    out += molgen.corpus(rng, 300 if ctx.quick else 1500)
    n_small = 5 if ctx.quick else 6
    graphs = [g for k in range(2, n_small + 1) for g in molgen.unlabeled_small_graphs(k)]
    for g in graphs:
        for rep in range(1 if ctx.quick else 3):
            try:
                out.append((f'small{g}#{rep}', molgen.decorate(rng, list(g))))
            except Exception:  # noqa  (valence-impossible decoration: not a molecule)
                continue
    for i in range(40 if ctx.quick else 400):
        e = molgen.ring_assembly(rng)
        try:
            out.append((f'rings#{i}', molgen.decorate(rng, e, hetero=0.15, multiple=0.1, charge=0.03)))
        except Exception:  # noqa
            continue
    if not ctx.quick:
        out += molgen.test_files()
    return out


def forced_labels(rng, mol):
    """labels written directly into `_stereo` on the members of one atoms_order class (also on atoms that are not
    stereogenic): reaches the KeyError branch of __differentiation and R/S pairs the parser would never produce."""
    c = mol.copy()
    classes = {}
    for n, r in c.atoms_order.items():
        if c._atoms[n].atomic_number == 6:
            classes.setdefault(r, []).append(n)
    cands = [v for v in classes.values() if len(v) >= 2]
    if not cands:
        return None
    grp = rng.choice(cands)
    k = rng.choice([2, 2, len(grp)])
    for n in rng.sample(grp, min(k, len(grp))):
        c._atoms[n]._stereo = rng.random() < 0.5
    c.flush_cache()
    return c


PI_STEREO = [
    # cumulenes with an odd number of double bonds (cis/trans over the chain) and an even number (allene-like centre)
    'C/C=C=C=C/C', 'C/C=C=C=C\\C', 'CC/C=C=C=C/C', 'C/C(F)=C=C=C(/C)F', 'C/C(F)=C=C=C(\\C)F', 'C/C=C=C=C/C.C/C=C=C=C\\C',
    'CC(F)=C=[C@]=C=C(C)F', 'CC(F)=C=[C@@]=C=C(C)F', 'CC=C=[C@]=C=CC.CC=C=[C@@]=C=CC',
    # equivalent allenes: like / unlike pairs, three of a kind, in one chain and as components
    'CC=[C@]=CC.CC=[C@@]=CC', 'CC=[C@]=CC.CC=[C@]=CC', 'CC=[C@]=CCCC=[C@]=CC', 'CC=[C@]=CCCC=[C@@]=CC',
    'CC(Cl)=[C@]=CC=[C@@]=C(Cl)C', 'CC(Cl)=[C@]=CC=[C@]=C(Cl)C', 'CC=[C@]=CC.CC=[C@@]=CC.CC=[C@]=CC',
    'CC=[C@]=CCOCC=[C@@]=CC', 'ClC=[C@]=CCC=[C@@]=CCl', 'CC=[C@]=CC.CC=[C@@]=CC.CC=[C@]=CC.CC=[C@@]=CC',
    # equivalent double bonds as components / around a centre
    'C/C=C/C.C/C=C\\C', 'C/C=C/C.C/C=C/C', 'C/C=C/C.C/C=C\\C.C/C=C/C', 'F/C=C/Cl.F/C=C\\Cl', 'C/C=C/C.C/C=C\\C.C/C=C/C.C/C=C\\C',
    'F/C=C/C(/C=C/F)/C=C\\F', 'F/C=C/C(C)(/C=C/F)', 'F/C=C/C(C)/C=C\\F', 'F/C=C/[C@H](C)/C=C\\F', 'F/C=C/[C@@H](C)/C=C\\F',
    # mixtures of tetrahedral centres with double bonds / allenes
    'C[C@H](O)/C=C/[C@H](O)C', 'C[C@H](O)/C=C/[C@@H](O)C', 'C[C@H](O)/C=C\\[C@@H](O)C', 'C[C@H](O)/C=C\\[C@H](O)C',
    'C[C@H](O)C=[C@]=C[C@H](O)C', 'C[C@H](O)C=[C@]=C[C@@H](O)C', 'C[C@H](Cl)/C=C/C=[C@]=CC', 'C[C@H](Cl)/C=C/C=C/[C@@H](Cl)C',
    'C[C@H](Cl)/C=C/C=C\\[C@@H](Cl)C', 'C/C=C/[C@H](O)[C@@H](O)/C=C/C', 'C/C=C/[C@H](O)[C@@H](O)/C=C\\C',
    'C/C=C/[C@H](O)[C@H](O)/C=C\\C', 'CC=[C@]=C[C@H](O)[C@@H](O)C=[C@@]=CC', 'CC=[C@]=C[C@H](O)[C@@H](O)C=[C@]=CC',
    # hetero double bonds, ring double bonds, conjugated trienes and tetraenes
    'C/C=N/O', 'C/C(=N\\O)/C(C)=N/O', 'C/C(=N/O)/C(C)=N/O', 'C/N=N/C', 'C/N=N\\C', 'c1ccccc1/N=N/c1ccccc1', 'C/C=N/N=C/C',
    'C/C=N/N=C\\C', 'C1CCC/C=C\\CC1', 'C1CCC/C=C/CCCC1', 'F/C=C/C=C/C=C/F', 'F/C=C/C=C\\C=C/F', 'F/C=C\\C=C/C=C\\F',
    'F/C=C/C=C/C=C\\F', 'C/C=C/C=C/C=C/C=C/C', 'C/C=C/C=C\\C=C/C=C/C', 'C/C=C/C=C/C=C\\C=C/C', 'C/C=C\\C=C/C=C/C=C\\C',
    'C/C=C/c1ccc(/C=C\\C)cc1', 'C/C=C/c1ccc(/C=C/C)cc1', 'C/C=C/C(=O)OC(=O)/C=C\\C', 'C/C=C/C(=O)OC(=O)/C=C/C',
    'C/C=C/CC/C=C/CC/C=C\\C', 'C/C=C/CC(C/C=C/C)C/C=C\\C', 'C/C=C/S(=O)(=O)/C=C\\C', 'C/C=C/[Si](C)(C)/C=C\\C',
    'C/C=C/P(=O)(O)/C=C\\C', 'O=C(/C=C/c1ccccc1)/C=C\\c1ccccc1', 'C/C=C/C#C/C=C\\C', 'C/C=C/C#C/C=C/C',
]


# double-bond chains through atoms with more than two bonds (the `break` branch of `cumulenes`), three double bonds on one
# atom, and coordinate (order 8) bonds on the ends of labelled double bonds (skipped by `stereogenic_cumulenes`)
HYPERVALENT_PI = [
    'CN(=O)=O', 'C[SH](=O)=O', 'CP(=O)=O', 'O=S(=O)=O', 'OS(=O)(=O)O', 'CS(C)(=O)=O', 'C=S(C)=O', 'CC=S(C)=C',
    'O=N(=O)c1ccccc1', 'C/C=C/N(=O)=O', 'C=C=S(C)=O', 'O=P(=O)O', 'C[As](=O)=O', 'CC(C)=S(=O)=O', 'C=S(=O)=O', 'O=S(C)(=C)C',
    'C/C=N(/C)~[Cu]', 'C/C=N(\\C)~[Cu]', 'C/C=N(/O)~[Pd]', 'C/C=C(/C)~[Cu]', 'C/C=C(\\C)~[Cu]', 'C/C=C/N(C)~[Cu]',
    'C/C=N/C.C/C=N(/C)~[Cu]', 'CC=[C@]=C(C)~[Pd]', 'C/C(~[Cu])=C(/C)~[Cu]', 'C/C=C/C=N(/C)~[Ni]', 'O=C=C=C=O', 'C=C=C=C=C',
    'CC=S(C)#N', 'C/C=S(/C)#N', 'CC=P(C)#N', 'CC=S(CC)#N.O', 'N=C=N', 'CN=C=NC', 'C/C=C=C=C=C=C/C', 'O=C=C(C)C', 'S=C=S', 'C=C=N', '[N-]=[N+]=N', 'C=[N+]=[N-]', 'C/C=C/[N+](C)=C',
]


def forced_pi_labels(rng, mol):
    """labels written directly into `_stereo` of double bonds and of sp-carbon atoms: several stereogenic double bonds /
    allene centres at once with random signs (equivalent ones get like and unlike pairs the parser rarely produces),
    sometimes also a double bond or an atom that is NOT stereogenic (KeyError branches of `_chiral_morgan`)."""
    c = mol.copy()
    try:
        centers = sorted(set(c._stereo_cis_trans_centers.values()))
        allenes = sorted(c.stereogenic_allenes)
    except Exception:  # noqa
        return None
    doubles = sorted({(min(n, m), max(n, m)) for n, m, b in c.bonds() if b.order == 2})
    if not doubles:
        return None
    done = False
    wild = rng.random() < 0.15
    for i, j in centers:
        if rng.random() < 0.8:
            c._bonds[i][j]._stereo = rng.random() < 0.5
            done = True
    for n in allenes:
        if rng.random() < 0.8:
            c._atoms[n]._stereo = rng.random() < 0.5
            done = True
    if wild:
        i, j = rng.choice(doubles)
        c._bonds[i][j]._stereo = rng.random() < 0.5
        if rng.random() < 0.5:
            c._atoms[rng.choice([i, j])]._stereo = rng.random() < 0.5
        done = True
    if not done:
        return None
    c.flush_cache()
    return c


def real_cumulenes(mol):
    try:
        cu = mol.cumulenes
        return ' '.join(['ok', str(len(cu))] + [' '.join([str(len(p))] + [str(x) for x in p]) for p in cu])
    except Exception as e:  # noqa
        return _err(e)


def real_stereo_tables(mol):
    """the five dicts the cis/trans and allene blocks read, in dict order (the `stabs` op)"""
    def o(x):
        return '-1' if x is None else str(x)

    def e(env):
        return f'{env[0]} {env[1]} {o(env[2])} {o(env[3])}'
    try:
        sc = mol.stereogenic_cumulenes
        out = ['ok', 'SC', str(len(sc))] + [' '.join([str(len(p))] + [str(x) for x in p]) + ' ' + e(env) for p, env in sc.items()]
        al = mol.stereogenic_allenes
        out += ['AL', str(len(al))] + [f'{c} ' + e(env) for c, env in al.items()]
        ct = mol.stereogenic_cis_trans
        out += ['CT', str(len(ct))] + [f'{k[0]} {k[1]} ' + e(env) for k, env in ct.items()]
        ce = mol._stereo_cis_trans_centers
        out += ['CE', str(len(ce))] + [f'{k} {v[0]} {v[1]}' for k, v in ce.items()]
        te = mol._stereo_cis_trans_terminals
        out += ['TE', str(len(te))] + [f'{k} {v[0]} {v[1]}' for k, v in te.items()]
        return ' '.join(out)
    except Exception as ex:  # noqa
        return _err(ex)


def inequivalent_elements(mol):
    """hypothesis of theorem `chiral_full_is_atoms_order_of_inequivalent_elements`, evaluated on the real molecule: the
    labelled tetrahedral atoms, the labelled double bonds (key = smaller terminal class) and the labelled allene centres
    have pairwise different grouping keys in `atoms_order`"""
    ao = mol.atoms_order
    tet = set(mol.tetrahedrons)
    t = [ao[n] for n, a in mol._atoms.items() if a._stereo is not None and n in tet]
    al = [ao[n] for n, a in mol._atoms.items() if a._stereo is not None and n not in tet]
    term = mol._stereo_cis_trans_terminals
    pairs = {term[n] for n, mb in mol._bonds.items() if any(b._stereo is not None for b in mb.values())}
    ct = [min(ao[a], ao[b]) for a, b in pairs]
    return all(len(set(x)) == len(x) for x in (t, al, ct))


def pi_kind(mol):
    """which kinds of labels a molecule carries (distribution tag of the `cfull` stream)"""
    try:
        tet = set(mol.tetrahedrons)
    except Exception:  # noqa
        tet = set()
    ks = []
    if any(a._stereo is not None and n in tet for n, a in mol._atoms.items()):
        ks.append('tetrahedral')
    if any(a._stereo is not None and n not in tet for n, a in mol._atoms.items()):
        ks.append('allene')
    if any(b._stereo is not None for _, _, b in mol.bonds()):
        ks.append('cis-trans')
    return '+'.join(ks) or 'label-free'


def random_morgan_case(rng):
    """arbitrary `_morgan` inputs: small ints with ties, big/negative ints, asymmetric adjacency, missing keys."""
    n = rng.randint(0, 7)
    ids = rng.sample(range(1, 30), n)
    kind = rng.random()
    if kind < 0.4:
        ws = [(i, rng.randint(-3, 3)) for i in ids]
    elif kind < 0.7:
        ws = [(i, rng.choice([1, 1, 2, -1, 5])) for i in ids]
    else:
        ws = [(i, rng.randint(-2 ** 63, 2 ** 63 - 1)) for i in ids]
    adj = {i: {} for i in ids}
    for a, b in itertools.combinations(ids, 2):
        if rng.random() < 0.35:
            o = rng.choice([1, 1, 2, 3, 4, 8])
            adj[a][b] = o
            adj[b][a] = o if rng.random() < 0.9 else rng.choice([1, 2])
    rows = list(adj.items())
    rng.shuffle(rows)
    rows = [(k, list(v.items())) for k, v in rows]
    for k, v in rows:
        rng.shuffle(v)
    if rng.random() < 0.12 and ids:  # malformed: neighbour/key missing from the weights, or extra row
        r = rng.random()
        if r < 0.4:
            ws = ws[:-1]
        elif r < 0.7:
            rows.append((99, [(ids[0], 1)]))
        else:
            rows = rows[:-1]
    return ws, rows


# ------------------------------------------------------------------------------------------------
# K: model vs implementation
# ------------------------------------------------------------------------------------------------

def correspond(ctx):
    import logging
    from ..gen import pyx2py
    pyx2py.install()
    logging.getLogger('chython.morgan').setLevel(logging.ERROR)  # the `for … else` branch of _morgan only logs
    try:
        from rdkit import RDLogger
        RDLogger.DisableLog('rdApp.*')
    except Exception:  # noqa
        pass
    k_streams(ctx)
    relational(ctx)


def k_streams(ctx):
    rng = ctx.rng
    reqs, expected, meta = [], [], []

    def add(op, line, exp, key, nontrivial, what):
        reqs.append(line)
        expected.append(exp)
        meta.append((op, key, nontrivial, what))

    mols = molecules(ctx)
    _state['mols'] = mols
    nren = 3 if ctx.quick else 6
    seen_atoms = set()
    for name, mol in mols:
        variants = [(name, mol)]
        for r in range(nren):
            try:
                c, _ = molgen.renumber(rng, mol)
            except Exception:  # noqa
                continue
            variants.append((f'{name}~{r}', c))
        if stereo_kind(mol) == 'label-free' and len(mol) <= 30 and rng.random() < 0.35:
            try:
                f = forced_labels(rng, mol)
            except Exception:  # noqa
                f = None
            if f is not None:
                variants.append((f'{name}+forced-labels', f))
        if any(b.order == 2 for _, _, b in mol.bonds()) and len(mol) <= 40 and \
                (stereo_kind(mol) == 'label-free' or rng.random() < 0.3):
            for r in range(2):
                try:
                    f = forced_pi_labels(rng, mol)
                except Exception:  # noqa
                    f = None
                if f is not None:
                    variants.append((f'{name}+forced-pi-labels#{r}', f))
                    try:
                        variants.append((f'{name}+forced-pi-labels#{r}~', molgen.renumber(rng, f)[0]))
                    except Exception:  # noqa
                        pass
        for vname, m in variants:
            xs = view_ints(m)
            line = 'order ' + ' '.join(map(str, xs))
            add('order', line, real_order(m), line, len(m) >= 2, vname)
            ctx.dist('order:atoms<=%d' % (10 * ((len(m) + 9) // 10)))
            line = 'cmorgan ' + ' '.join(map(str, sview_ints(m)))
            exp = real_chiral_morgan(m)
            kind = stereo_kind(m)
            if kind == 'atom-label' and exp.startswith('ok'):
                ao = m.atoms_order
                lab = [ao[n] for n, a in m._atoms.items() if a._stereo is not None]
                if len(set(lab)) == len(lab):
                    kind = 'atom-label+centres-pairwise-inequivalent (theorem: = atoms_order)'
            if kind == 'atom-label' and exp.startswith('ok') and exp != real_order(m):
                kind = 'atom-label+classes-split-by-configuration'
            add('cmorgan', line, exp, line, len(m) >= 2, (vname, kind))
            # the full model (tetrahedral + cis/trans + allene labels) on the same wire
            if kind != 'label-free':
                pk = pi_kind(m)
                if exp.startswith('ok') and exp != real_order(m):
                    pk += ':classes-split-by-configuration'
                try:
                    ineq = exp.startswith('ok') and inequivalent_elements(m)
                except Exception:  # noqa
                    ineq = False
                if ineq:
                    # the theorem's claim, checked on the REAL code: pairwise inequivalent elements => = atoms_order
                    ctx.count(('theorem-inequivalent-elements', line), True)
                    ctx.dist('cfull:elements-pairwise-inequivalent (theorem: = atoms_order, invariant)')
                    if exp != real_order(m):
                        ctx.cov['disagreements_checked'] += 1
                        ctx.broke('relational', 'chiral_full_is_atoms_order_of_inequivalent_elements vs the real _chiral_morgan',
                                  f'{vname}: labelled elements pairwise inequivalent but _chiral_morgan != atoms_order; wire {line[:300]}')
                line = 'cfull' + line[len('cmorgan'):]
                add('cfull', line, exp, line, len(m) >= 2, (vname, pk))
            if any(b.order == 2 for _, _, b in m.bonds()):
                line = 'cumul ' + ' '.join(map(str, sview_ints(m)))
                add('cumul', line, real_cumulenes(m), line, True, vname)
                line = 'stabs' + line[len('cumul'):]
                add('stabs', line, real_stereo_tables(m), line, True, vname)
        # the stored `in_ring` label that Element.__hash__ reads is the structural fact "lies on a cycle of covalent bonds"
        # (coordinate `~` bonds are not ring bonds for the library; ring perception itself is C06's subject)
        ring_atoms = set().union(*[comp for comp, _ in ring_systems({n: {m: 1 for m, b in ms.items() if b.order != 8} for n, ms in mol._bonds.items()})] or [set()])
        wrong = [n for n, a in mol._atoms.items() if bool(a.in_ring) != (n in ring_atoms)]
        ctx.count(('in_ring', tuple(xs0 := view_ints(mol))), bool(ring_atoms))
        ctx.dist('in_ring-label:checked')
        if wrong:
            ctx.cov['disagreements_checked'] += 1
            ctx.broke('relational', 'Element.in_ring label vs lies-on-a-cycle', f'{name}: atoms {wrong[:8]}; wire {xs0}')
        for n, a in mol._atoms.items():
            h = a._implicit_hydrogens
            key = (a.atomic_number, a._isotope or 0, a._charge, int(a._is_radical), -1 if h is None else h, int(a.in_ring))
            if key in seen_atoms:
                continue
            seen_atoms.add(key)
            add('hash', 'hash ' + ' '.join(map(str, key)), f'ok {hash(a)}', ('hash', key), True, f'{name}:{n}')
    # exhaustive: ALL n! numberings of every small molecule (insertion order follows the new numbers)
    nmax = 5 if ctx.quick else 6
    small = [(name, mol) for name, mol in mols if 2 <= len(mol) <= nmax]
    seen_small = set()
    for name, mol in small:
        key0 = tuple(view_ints(mol))
        if key0 in seen_small:
            continue
        seen_small.add(key0)
        nums = list(mol._atoms)
        for perm in itertools.permutations(range(1, len(nums) + 1)):
            try:
                m = permuted(mol, dict(zip(nums, perm)))
            except Exception:  # noqa
                break
            line = 'order ' + ' '.join(map(str, view_ints(m)))
            add('order', line, real_order(m), line, True, f'{name}@{perm}')
            ctx.dist('order:all-permutations')
    _state['small'] = small
    for _ in range(300 if ctx.quick else 5000):
        ws, rows = random_morgan_case(rng)
        line = morgan_line(ws, rows)
        exp = real_morgan(ws, rows)
        add('morgan', line, exp, line, len(ws) >= 2 or not exp.startswith('ok'), 'random _morgan input')
        ctx.dist('morgan:' + exp.split()[0] + (':' + exp.split()[1] if not exp.startswith('ok') else ''))
    for _ in range(100 if ctx.quick else 1000):
        t = [rng.choice([rng.randint(-5, 5), rng.randint(-2 ** 70, 2 ** 70), -1, 2 ** 61 - 1, -(2 ** 61 - 1)])
             for _ in range(rng.randint(0, 9))]
        add('tuple', 'tuple ' + ' '.join(map(str, t)), f'ok {hash(tuple(t))}', ('tuple', tuple(t)), True, 'hash(tuple)')
    ctx.cov['programs'] = 8  # + the five stereo dicts (op stabs); + _chiral_morgan with cis/trans and allene labels (+cumulenes, stereogenic_cumulenes, stereogenic_cis_trans/allenes, _stereo_cis_trans_centers/terminals, _translate_cis_trans_sign/_translate_allene_sign), MoleculeStereo.cumulenes; Morgan.atoms_order(+int_adjacency), _morgan, _chiral_morgan(+tetrahedrons, stereogenic_tetrahedrons, __differentiation), Element.__hash__, hash(tuple)
    if not ctx.build_ok:
        ctx.notes.append('driver not built: K streams skipped')
        return
    got = run_driver('C01', reqs)
    if len(got) != len(reqs):
        ctx.broke('correspondence', 'driver-output-length', f'{len(got)} lines for {len(reqs)} requests')
        return
    bad = {}
    for line, exp, g, (op, key, nontrivial, what) in zip(reqs, expected, got, meta):
        if op == 'cmorgan':
            what, kind = what
            if not exp.startswith('ok'):
                kind += ':' + exp.replace(' ', '-')
            if g == 'notmodelled':   # labelled double bond / allene / ring-group branch: outside the Lean model
                ctx.count((op, key), False)
                ctx.dist(f'cmorgan:{kind}:outside-the-model')
                continue
            ctx.dist(f'cmorgan:{kind}:compared')
        if op == 'cfull':
            what, kind = what
            if not exp.startswith('ok'):
                kind += ':' + exp.replace(' ', '-')
            if g == 'notmodelled':   # set-order branches (ring group / test on group[0] not uniform over the group)
                ctx.count((op, key), False)
                ctx.dist(f'cfull:{kind}:outside-the-model')
                continue
            ctx.dist(f'cfull:{kind}:compared')
        ctx.count((op, key), nontrivial)
        if op == 'order':
            ctx.sample({'request': line[:160], 'model': g[:120], 'implementation': exp[:120]}, limit=3)
        elif op == 'morgan':
            ctx.sample({'request': line[:160], 'model': g[:120], 'implementation': exp[:120]}, limit=5)
        if g != exp:
            ctx.cov['disagreements_checked'] += 1
            bad.setdefault(op, []).append((what, line, exp, g))
    for op, items in bad.items():
        what, line, exp, g = min(items, key=lambda t: len(t[1]))
        ctx.broke('correspondence', {'order': 'Morgan.atoms_order', 'morgan': '_morgan', 'hash': 'Element.__hash__',
                                     'cmorgan': 'MoleculeStereo._chiral_morgan',
                                     'cfull': 'MoleculeStereo._chiral_morgan (tetrahedral + cis/trans + allene labels)',
                                     'cumul': 'MoleculeStereo.cumulenes',
                                     'stabs': 'stereogenic_cumulenes / stereogenic_allenes / stereogenic_cis_trans / _stereo_cis_trans_centers / _stereo_cis_trans_terminals',
                                     'tuple': 'hash(tuple)'}[op],
                  f'{len(items)} disagreement(s); smallest: {what}\n request: {line}\n implementation: {exp}\n model: {g}')
    _state['k_bad'] = bad


# ------------------------------------------------------------------------------------------------
# independent symmetry oracle (never consults chython's Morgan code): constitution graph, colour refinement,
# RDKit symmetry classes, automorphism search, ring systems
# ------------------------------------------------------------------------------------------------

def const_graph(mol):
    """constitution only: atom -> (Z, charge, isotope, radical, implicit H); adjacency atom -> {nbr: order}"""
    atoms = {n: (a.atomic_number, a._charge, a._isotope or 0, int(a._is_radical), a._implicit_hydrogens or 0)
             for n, a in mol._atoms.items()}
    adj = {n: {m: b.order for m, b in ms.items()} for n, ms in mol._bonds.items()}
    return atoms, adj


def wl_classes(atoms, adj):
    """1-dimensional Weisfeiler-Leman colour refinement to the fixed point (own implementation)."""
    col = {n: atoms[n] + (len(adj[n]),) for n in atoms}
    ids = {c: i for i, c in enumerate(sorted(set(col.values())))}
    col = {n: ids[c] for n, c in col.items()}
    while True:
        sig = {n: (col[n], tuple(sorted((col[m], o) for m, o in adj[n].items()))) for n in atoms}
        ids = {c: i for i, c in enumerate(sorted(set(sig.values())))}
        new = {n: ids[c] for n, c in sig.items()}
        if len(set(new.values())) == len(set(col.values())):
            return new
        col = new


def rdkit_classes(atoms, adj):
    """RDKit CanonicalRankAtoms(breakTies=False) on an RDKit molecule built here from the constitution graph."""
    from rdkit import Chem
    bt = {1: Chem.BondType.SINGLE, 2: Chem.BondType.DOUBLE, 3: Chem.BondType.TRIPLE, 4: Chem.BondType.AROMATIC,
          8: Chem.BondType.ZERO}
    rw = Chem.RWMol()
    idx = {}
    for n, (z, ch, iso, rad, h) in atoms.items():
        a = Chem.Atom(z)
        a.SetFormalCharge(ch)
        if iso:
            a.SetIsotope(iso)
        a.SetNoImplicit(True)
        a.SetNumExplicitHs(h)
        a.SetNumRadicalElectrons(rad)
        idx[n] = rw.AddAtom(a)
    for n, ms in adj.items():
        for m, o in ms.items():
            if n < m:
                rw.AddBond(idx[n], idx[m], bt[o])
                if o == 4:
                    rw.GetAtomWithIdx(idx[n]).SetIsAromatic(True)
                    rw.GetAtomWithIdx(idx[m]).SetIsAromatic(True)
    m = rw.GetMol()
    m.UpdatePropertyCache(strict=False)
    Chem.FastFindRings(m)
    ranks = list(Chem.CanonicalRankAtoms(m, breakTies=False, includeChirality=False))
    return {n: ranks[i] for n, i in idx.items()}


def sym_classes(mol):
    """coarsest common coarsening of the RDKit classes and the WL classes (either oracle saying 'equivalent' counts)."""
    atoms, adj = const_graph(mol)
    wl = wl_classes(atoms, adj)
    try:
        rd = rdkit_classes(atoms, adj)
    except Exception:  # noqa  RDKit cannot represent it: WL alone
        rd = wl
    parent = {n: n for n in atoms}

    def find(x):
        while parent[x] != x:
            parent[x] = parent[parent[x]]
            x = parent[x]
        return x
    for part in (wl, rd):
        first = {}
        for n, c in part.items():
            if c in first:
                parent[find(n)] = find(first[c])
            else:
                first[c] = n
    return {n: find(n) for n in atoms}, atoms, adj


def ring_systems(adj):
    """connected components of the subgraph of ring bonds (non-bridges): list of (atom set, number of independent rings)."""
    # bridges by DFS low-link (iterative)
    disc, low, bridges, t = {}, {}, set(), [0]
    for root in adj:
        if root in disc:
            continue
        stack = [(root, None, iter(adj[root]))]
        disc[root] = low[root] = t[0]
        t[0] += 1
        while stack:
            v, par, it = stack[-1]
            for w in it:
                if w == par:
                    continue
                if w in disc:
                    low[v] = min(low[v], disc[w])
                else:
                    disc[w] = low[w] = t[0]
                    t[0] += 1
                    stack.append((w, v, iter(adj[w])))
                    break
            else:
                stack.pop()
                if par is not None:
                    low[par] = min(low[par], low[v])
                    if low[v] > disc[par]:
                        bridges.add(frozenset((par, v)))
    radj = {n: [m for m in ms if frozenset((n, m)) not in bridges] for n, ms in adj.items()}
    seen, out = set(), []
    for n in radj:
        if n in seen or not radj[n]:
            continue
        comp, st = {n}, [n]
        while st:
            x = st.pop()
            for y in radj[x]:
                if y not in comp:
                    comp.add(y)
                    st.append(y)
        seen |= comp
        e = sum(len(radj[x]) for x in comp) // 2
        out.append((comp, e - len(comp) + 1))
    return out


def stereo_elements(mol):
    """labelled stereo elements as lists of substituent groups: each group is the list of substituent atoms of one end
    (tetrahedron: one group with all neighbours; double bond / allene: one group per terminal atom, partner excluded)."""
    out = []
    ctc = None
    for n, a in mol._atoms.items():
        if a._stereo is None:
            continue
        nb = list(mol._bonds[n])
        if len(nb) >= 3 and all(b.order in (1, 4) or b.order == 8 for b in mol._bonds[n].values()):
            out.append(('tetrahedron', n, [(nb, a._implicit_hydrogens or 0)]))
        else:  # allene centre: walk to both terminals
            groups = []
            for first in nb:
                prev, cur = n, first
                while True:
                    nxt = [m for m, b in mol._bonds[cur].items() if m != prev and b.order == 2]
                    if len(nxt) == 1 and len(mol._bonds[cur]) == 2:
                        prev, cur = cur, nxt[0]
                    else:
                        break
                groups.append(([m for m in mol._bonds[cur] if m != prev], mol._atoms[cur]._implicit_hydrogens or 0))
            out.append(('allene', n, groups))
    done = set()
    for n, ms in mol._bonds.items():
        for m, b in ms.items():
            if b._stereo is None or (m, n) in done:
                continue
            done.add((n, m))
            groups = []
            for start, other in ((n, m), (m, n)):  # walk outwards along a cumulene chain to its terminal
                prev, cur = other, start
                while True:
                    nxt = [k for k, bb in mol._bonds[cur].items() if k != prev and bb.order == 2]
                    if len(nxt) == 1 and len(mol._bonds[cur]) == 2:
                        prev, cur = cur, nxt[0]
                    else:
                        break
                groups.append(([k for k in mol._bonds[cur] if k != prev], mol._atoms[cur]._implicit_hydrogens or 0))
            out.append(('cis-trans', (n, m), groups))
    return out


def odd_equivalent_elements(mol, cls):
    """an odd number (>= 3) of labelled stereo elements of one kind that are constitutionally equivalent (independent
    oracle): `__differentiation` only looks at groups of even size, so their configurations never split the classes."""
    groups = {}
    for kind, where, _ in stereo_elements(mol):
        key = (kind, cls[where]) if kind != 'cis-trans' else (kind, tuple(sorted((cls[where[0]], cls[where[1]]))))
        groups[key] = groups.get(key, 0) + 1
    return any(v >= 3 and v % 2 for v in groups.values())


def gap_stereo(mol, cls):
    """recorded gap (i): a labelled stereo element with two constitutionally equivalent substituents."""
    for kind, where, groups in stereo_elements(mol):
        for subs, nh in groups:
            cs = [cls[x] for x in subs]
            if len(set(cs)) < len(cs) or nh >= 2 or (nh == 1 and any(mol._atoms[x].atomic_number == 1 for x in subs)):
                return f'{kind}@{where}'
    return None


def gap_cage(mol, cls, adj, min_rings=3):
    """recorded gap (ii): a ring system with >= 3 rings containing symmetry-equivalent ring atoms."""
    for comp, k in ring_systems(adj):
        if k >= min_rings:
            cs = [cls[x] for x in comp]
            if len(set(cs)) < len(cs):
                return f'{k}-ring system of {len(comp)} atoms'
    return None


def exists_automorphism(atoms, adj, col, fixed, budget=20000):
    """is there an automorphism of the constitution graph extending the partial map `fixed`? (backtracking, colour-pruned)"""
    order = list(fixed)
    seen = set(order)
    # extend in BFS order so that every new vertex has a mapped neighbour when possible
    queue = list(order)
    rest = [n for n in atoms if n not in seen]
    while queue or rest:
        if not queue:
            queue.append(rest[0])
            if rest[0] not in seen:
                seen.add(rest[0])
                order.append(rest[0])
        x = queue.pop(0)
        for y in adj[x]:
            if y not in seen:
                seen.add(y)
                order.append(y)
                queue.append(y)
        rest = [n for n in rest if n not in seen]
    steps = [0]

    def ok(v, w, mp):
        if col[v] != col[w] or atoms[v] != atoms[w] or len(adj[v]) != len(adj[w]):
            return False
        for u, o in adj[v].items():
            if u in mp and adj[w].get(mp[u]) != o:
                return False
        return True

    for v, w in fixed.items():
        part = {k: fixed[k] for k in fixed if k != v}
        if not ok(v, w, part):
            return False
    if len(set(fixed.values())) != len(fixed):
        return False

    def rec(i, mp, used):
        steps[0] += 1
        if steps[0] > budget:
            raise TimeoutError
        if i == len(order):
            return True
        v = order[i]
        if v in mp:
            return rec(i + 1, mp, used)
        cands = None
        for u in adj[v]:
            if u in mp:
                c = set(adj[mp[u]])
                cands = c if cands is None else cands & c
        if cands is None:
            cands = set(atoms)
        for w in sorted(cands):
            if w in used or not ok(v, w, mp):
                continue
            mp[v] = w
            used.add(w)
            if rec(i + 1, mp, used):
                return True
            del mp[v]
            used.discard(w)
        return False
    return rec(0, dict(fixed), set(fixed.values()))


def bfs_dist(adj, v):
    d, q = {v: 0}, [v]
    while q:
        x = q.pop(0)
        for y in adj[x]:
            if y not in d:
                d[y] = d[x] + 1
                q.append(y)
    return d


def rigid_tie(atoms, adj, col):
    """Is there a choice point where two same-class atoms tie and no symmetry of the molecule that keeps the earlier
    choice in place exchanges them?  (v = an atom already chosen, u = the atom whose neighbours x, y are compared;
    x, y in one class and equally far from v.)  Returns a witness or None; 'budget' when the search was cut."""
    try:
        for v in atoms:
            d = bfs_dist(adj, v)
            for u in atoms:
                if u not in d:
                    continue
                nb = [x for x in adj[u] if x != v]
                for x, y in itertools.combinations(nb, 2):
                    if col[x] == col[y] and d.get(x) == d.get(y):
                        fixed = {v: v, x: y, y: x} if u == v else {v: v, u: u, x: y, y: x}
                        if not exists_automorphism(atoms, adj, col, fixed):
                            return (v, u, x, y)
        # start atom / component choice: two same-class atoms that no automorphism exchanges
        reps = {}
        for n in atoms:
            reps.setdefault(col[n], []).append(n)
        for c, ns in reps.items():
            for y in ns[1:]:
                if not exists_automorphism(atoms, adj, col, {ns[0]: y}):
                    return (None, None, ns[0], y)
    except TimeoutError:
        return 'budget'
    return None


# ------------------------------------------------------------------------------------------------
# descriptions of one structure
# ------------------------------------------------------------------------------------------------

def _odd(a, b):
    p = [a.index(x) for x in b]
    return sum(1 for i in range(len(p)) for j in range(i + 1, len(p)) if p[i] > p[j]) % 2 == 1


def _ends_sign(env, a, b, s):
    """label of a double bond / allene relative to the substituent pair (a, b), given the stored label `s` relative to
    env = (n0, n1, n2, n3) (n0, n2 on one end; n1, n3 on the other). Written here from the meaning of the label — exchanging the
    reference substituent on exactly one end inverts it — not by calling the library's translation functions."""
    ia, ib = env.index(a), env.index(b)
    if ia % 2 == ib % 2:
        raise ValueError('substituents of the same end')
    return s ^ ((ia >= 2) != (ib >= 2))


def reorder(rng, mol):
    """Same structure: new atom numbers, random insertion order of atoms, of adjacency rows and of neighbour dicts.
    Stereo labels are stored relative to the neighbour *insertion order*, so they are re-expressed for the new order
    (tetrahedra: permutation parity computed here; double bonds / allenes: the library's sign translation)."""
    c, mapping = molgen.renumber(rng, mol)
    return _restereo(mol, c, mapping), mapping


def permuted(mol, mapping):
    """Same structure under the given renumbering; atoms and neighbours inserted in increasing NEW number."""
    c = mol.copy()
    c.remap(mapping)
    order = sorted(c._atoms)
    atoms = {n: c._atoms[n] for n in order}
    adj = {n: {m: c._bonds[n][m] for m in sorted(c._bonds[n])} for n in order}
    c._atoms, c._bonds = atoms, adj
    c.flush_cache()
    c._changed = None
    c._backup = None
    c.calc_labels()
    return _restereo(mol, c, mapping)


def _restereo(mol, c, mapping):
    inv = {v: k for k, v in mapping.items()}
    st, sa, sc = mol.stereogenic_tetrahedrons, mol.stereogenic_allenes, mol.stereogenic_cis_trans
    new_a, new_b = {}, {}
    for n, a in mol._atoms.items():
        if a._stereo is None:
            continue
        n2 = mapping[n]
        if n in st:
            new_env = tuple(inv[x] for x in c.stereogenic_tetrahedrons[n2])
            new_a[n2] = a._stereo ^ _odd(st[n], new_env)
        elif n in sa:
            e = c.stereogenic_allenes[n2]
            new_a[n2] = _ends_sign(sa[n], inv[e[0]], inv[e[1]], a._stereo)
        else:
            raise ValueError('stereo label on an atom that is not stereogenic')
    ctc = mol._stereo_cis_trans_centers
    for (n, m) in sc:
        i, j = ctc[n]
        if mol._bonds[i][j]._stereo is None:
            continue
        n2, m2 = mapping[n], mapping[m]
        e = c.stereogenic_cis_trans[(n2, m2)] if (n2, m2) in c.stereogenic_cis_trans else c.stereogenic_cis_trans[(m2, n2)]
        s = _ends_sign(sc[(n, m)], inv[e[0]], inv[e[1]], mol._bonds[i][j]._stereo)
        new_b[(mapping[i], mapping[j])] = s
    for n2, s in new_a.items():
        c._atoms[n2]._stereo = s
    for (i, j), s in new_b.items():
        c._bonds[i][j]._stereo = s
    c.flush_cache()
    return c


def ring_junction_label(mol):
    """a labelled atom with >= 4 ring bonds (spiro / three-ring fusion atom)"""
    for n, a in mol._atoms.items():
        if a._stereo is not None and a.in_ring and sum(1 for m in mol._bonds[n] if mol._atoms[m].in_ring) >= 4:
            return True
    return False


def normalise(mol):
    """'once aromaticity is normalised': Kekulé form, then the library's aromatisation."""
    m = mol.copy()
    m.kekule()
    m.thiele()
    return m


# ---- second descriptions reached through a HISTORY of public-API calls and observations -----------------------------------
# Each history gets (rng, mol), never touches `mol`, and returns an object that denotes the same structure. Histories are
# replayable by name + seed (cached state cannot travel in a wire form).

def _touch(rng, c, k=None):
    """read cached observables in a random order (what a user does between edits: put in a set, print, sort, …)"""
    obs = [lambda: hash(c), lambda: str(c), lambda: c.smiles_atoms_order, lambda: c.atoms_order, lambda: c._chiral_morgan,
           lambda: format(c, 'h'), lambda: format(c, '!s'), lambda: c.__format__('', _return_order=True),
           lambda: c == c.copy(), lambda: {c: 1}, lambda: c.sssr, lambda: c.connected_components]
    rng.shuffle(obs)
    for f in obs[:k or rng.randint(1, len(obs))]:
        f()


def h_edit_roundtrip(rng, mol):
    c = mol.copy()
    _touch(rng, c)
    n = c.add_atom('C')
    _touch(rng, c, 2)
    c.delete_atom(n)
    return c


def h_union_split(rng, mol):
    from chython import smiles
    if mol.connected_components_count != 1:
        raise LookupError('single-component molecules only')
    other = smiles(rng.choice(['O', 'CCO', '[Na+]', 'c1ccccc1']))
    if len(other) >= len(mol):
        raise LookupError('partner not smaller')
    u = mol.union(other, remap=True)
    _touch(rng, u, 3)
    return max(u.split(), key=len)


def h_substructure(rng, mol):
    c = mol.copy()
    _touch(rng, c, 3)
    return c.substructure(list(c._atoms))


def h_transaction(rng, mol):
    c = mol.copy()
    _touch(rng, c)
    k = rng.choice(list(c._atoms))
    with c:
        ch = c._atoms[k].charge
        c._atoms[k].charge = ch
    return c


def h_order_first(rng, mol):
    c = mol.copy()
    c.smiles_atoms_order  # noqa
    return c


def h_format_order_first(rng, mol):
    c = mol.copy()
    c.__format__('', _return_order=True)
    return c


def h_in_reaction_first(rng, mol):
    from chython import ReactionContainer, smiles
    c = mol.copy()
    if rng.random() < 0.5:
        str(c)
    r = ReactionContainer([c], [smiles('O')]) if rng.random() < 0.5 else ReactionContainer([smiles('CC')], [c], [c.copy()])
    str(r)
    hash(r)
    return c


def h_observe_all(rng, mol):
    c = mol.copy()
    _touch(rng, c, 12)
    _touch(rng, c)
    return c


def h_stepwise_observed_build(rng, mol):
    """rebuild through the public API — atoms and bonds in random order, then every stereo label through the public setters
    (`add_atom_stereo`, `add_cis_trans_stereo`) — reading hash/str/orders between the steps"""
    from chython import MoleculeContainer
    c = MoleculeContainer()
    atoms = list(mol._atoms.items())
    rng.shuffle(atoms)
    for n, a in atoms:
        c.add_atom(a.copy(hydrogens=True, stereo=False), n, _skip_calculation=True)
    bonds = [(n, m, b.order) for n, m, b in mol.bonds()]
    rng.shuffle(bonds)
    for n, m, o in bonds:
        if rng.random() < 0.5:
            n, m = m, n
        c.add_bond(n, m, o, _skip_calculation=True)
    c.fix_structure(recalculate_hydrogens=False)
    _touch(rng, c)
    todo = []
    st, sa, sc = mol.stereogenic_tetrahedrons, mol.stereogenic_allenes, mol.stereogenic_cis_trans
    for n, a in mol._atoms.items():
        if a._stereo is None:
            continue
        if n in st:
            env = list(st[n])
            rng.shuffle(env)
            todo.append(('atom', n, tuple(env), mol._translate_tetrahedron_sign(n, env)))
        elif n in sa:
            e = sa[n]
            todo.append(('atom', n, (e[0], e[1]), mol._translate_allene_sign(n, e[0], e[1])))
        else:
            raise LookupError('label on a non-stereogenic atom')
    ctc = mol._stereo_cis_trans_centers
    for (n, m), e in sc.items():
        i, j = ctc[n]
        if mol._bonds[i][j]._stereo is not None:
            todo.append(('bond', (n, m), (e[0], e[1]), mol._translate_cis_trans_sign(n, m, e[0], e[1])))
    rng.shuffle(todo)
    for _ in range(len(todo) + 1):
        rest = []
        for kind, where, env, mark in todo:
            try:
                if kind == 'atom':
                    c.add_atom_stereo(where, env, mark)
                else:
                    c.add_cis_trans_stereo(where[0], where[1], env[0], env[1], mark)
                _touch(rng, c, rng.randint(1, 3))
            except Exception:  # noqa  (not recognised as chiral yet: depends on labels still to come)
                rest.append((kind, where, env, mark))
        if not rest or len(rest) == len(todo):
            todo = rest
            break
        todo = rest
    if todo:
        raise LookupError('labels the public setters refuse')
    return c


HISTORIES = {'edit-roundtrip': h_edit_roundtrip, 'union+split': h_union_split, 'substructure': h_substructure,
             'transaction': h_transaction, 'order-first': h_order_first, 'format-order-first': h_format_order_first,
             'in-reaction-first': h_in_reaction_first, 'observe-all': h_observe_all,
             'stepwise-observed-build': h_stepwise_observed_build}


def reread_own(rng, mol):
    """the library's own random-order writer, read back"""
    import chython.algorithms.smiles as sm
    from chython import smiles
    old = sm.random
    sm.random = rng.random
    try:
        text = format(mol, 'r')
    finally:
        sm.random = old
    return text, normalise(smiles(text))


def reread_rdkit(rng, text, kekule):
    """another toolkit's random spelling of the same input text, read back"""
    from rdkit import Chem
    from chython import smiles
    rm = Chem.MolFromSmiles(text)
    if rm is None:
        return None, None
    if kekule:
        Chem.Kekulize(rm, clearAromaticFlags=True)
    n = rm.GetNumAtoms()
    t = Chem.MolToSmiles(rm, rootedAtAtom=rng.randrange(n), canonical=False, kekuleSmiles=kekule) if rng.random() < 0.5 \
        else Chem.MolToRandomSmilesVect(rm, 1, randomSeed=rng.randrange(1, 2 ** 31), kekuleSmiles=kekule)[0]
    return t, normalise(smiles(t))



# cis/trans double bonds INSIDE rings of >= 8 atoms, next to ring-closure bonds, in macrocycles, exocyclic to rings: another
# toolkit writes the direction mark of a ring-closure bond at the closing digit only, chython's writer at both digits, a
# hand can write it at the opening digit only -- three branches of the reader
RING_EZ = [
    'C1CCCCC/C=C/CCCC1', 'C1CCCCC/C=C\\CCCC1', 'C/C1=C\\CCCCCCCCC1', 'C/C1=C/CCCCCCCCC1', 'O=C1CCCC/C=C/CCCCO1',
    'O=C1CCCC/C=C\\CCCCO1', 'CC1CCCC/C=C/C=C\\CCCC1', 'CC1CCCC/C=C/C=C/CCCC1', 'OC1CC/C=C\\CCC1', 'OC1CC/C=C/CCC1',
    'C1CCC/C=C/CC1', 'C1CCC/C=C\\CC1', 'C1CCCC/C=C/CCC1', 'C1CCCC/C=C\\CCC1', 'O=C1CCCCCCC/C=C\\CCCCCO1',
    'O=C1CCCCCCC/C=C/CCCCCO1', 'C1CC/C=C/CCC/C=C\\CC1', 'C1CC/C=C/CCC/C=C/CC1', 'C1CC/C=C\\CCC/C=C\\CC1',
    'CC1CCCCCC/C(C)=C/CCC1', 'CC1CCCCCC/C(C)=C\\CCC1', 'N1CCCC/C=C/CCCCC1', 'O1CCCC/C=C\\CCCCC1', 'C1CCCC/C=C/CCCCS1',
    'C[C@H]1CCCC/C=C/CCCCO1', 'C[C@@H]1CCCC/C=C\\CCCCO1', 'O=C1CCC/C=C/CC[C@H](C)OC(=O)CC1', 'ClC1=C/CCCCCCCCCC/1',
    'C/C=C1/CCCC(O)C1', 'C/C=C1\\CCCC(O)C1', 'C/C=C1/CCCCC1C', 'O/N=C1/CCCCC1C', 'O/N=C1\\CCCCC1C', 'C/C=C/C1CCCCC1',
    'C/C=C\\C1CCCCC1', 'c1ccccc1/C=C/c1ccccc1', 'c1ccccc1/C=C\\c1ccccc1', 'c1ccccc1/C=C/C', 'C(/C=C/c1ccccc1)c1ccccc1',
    'F/C=C/C1CCC(/C=C\\Cl)CC1O', 'C1CCCCC/C=C/CCCC1.C/C=C/C', 'CC(=O)O[C@H]1CCCC/C=C/CCCC1', 'C1CCCCCC/C=C/C=C/CCCC1',
    'C1CCCCCC/C=C\\C=C/CCCC1', 'O=C1/C=C/CCCCCCCCCC1', 'O=C1/C=C\\CCCCCCCCCC1', 'C1CCCCCC/N=N/CCCCC1',
]


# an ODD number (3, 5) of constitutionally equivalent stereo elements with unlike configurations
ODD_GROUPS = [
    'N(C[C@H](C)O)(C[C@H](C)O)C[C@@H](C)O', 'N(C[C@H](C)O)(C[C@H](C)O)C[C@H](C)O', 'C[C@H](Cl)CC(C[C@H](C)Cl)C[C@@H](C)Cl',
    'C/C=C/CC(C/C=C/C)C/C=C\\C', 'C/C=C/CC(C/C=C/C)C/C=C/C', 'B(O[C@H](C)CC)(O[C@H](C)CC)O[C@@H](C)CC',
    'C[C@H](O)CC.C[C@H](O)CC.C[C@@H](O)CC', 'P(/C=C/C)(/C=C/C)/C=C\\C', 'c1c(C[C@H](C)O)cc(C[C@H](C)O)cc1C[C@@H](C)O',
    'CC=[C@]=CCN(CC=[C@]=CC)CC=[C@@]=CC', 'C[C@H](F)C(C)([C@H](C)F)[C@@H](C)F',
]


def rdkit_canonical(text):
    """the other toolkit's own canonical isomeric SMILES of a spelling: the independent referee of 'same stereoisomer'"""
    from rdkit import Chem
    m = Chem.MolFromSmiles(text)
    if m is None:
        return None
    return Chem.MolToSmiles(m)


def _mark_variants(t):
    """candidate re-placements of the direction mark of a ring-closure bond: closing digit only (as the other toolkit writes
    it), opening digit only, both digits, every direction; the referee decides afterwards which of them spell the same isomer"""
    import re
    if re.search(r'\[[^\]]*\d', t) or '%' in t:
        return []
    out = []
    for mt in re.finditer(r'([/\\])(\d)', t):
        mark, digit = mt.group(1), mt.group(2)
        first = t.find(digit)
        while first >= 0 and first > 0 and t[first - 1] in '/\\':
            first = t.find(digit, first + 1)
        if first < 0 or first >= mt.start():
            continue   # the marked digit is the opening one
        for om in '/\\':
            both = t[:first] + om + t[first:]
            j = both.find(mark + digit, first + 2)
            if j >= 0:
                # (both digits, opening digit only). Two marks on one bond are a valid spelling only if they do not
                # contradict each other: `a/1 … b\\1` (a/b and b\\a are one direction); `a/1 … b/1` is contradictory and
                # toolkits resolve it differently (the other toolkit: closing mark wins; chython: opening mark wins)
                out.append((both if om != mark else None, both[:j] + both[j + 1:]))
    return out


def toolkit_spellings(rng, text, nrand):
    """spellings of `text` by the other toolkit (rooted at every atom, seeded random) and re-placements of ring-closure
    direction marks; only those the referee reads as the same stereoisomer as `text`"""
    from rdkit import Chem
    rd = Chem.MolFromSmiles(text)
    ref = rdkit_canonical(text)
    if rd is None or ref is None:
        return None, []
    cand = []
    for i in range(rd.GetNumAtoms()):
        try:
            cand.append(Chem.MolToSmiles(rd, rootedAtAtom=i, canonical=False))
        except Exception:  # noqa
            pass
    try:
        cand += list(Chem.MolToRandomSmilesVect(rd, nrand, randomSeed=rng.randrange(1, 2 ** 31)))
    except Exception:  # noqa
        pass
    # the other toolkit's writer options: every bond explicit (`-`, `:`), every hydrogen count explicit (bracket atoms),
    # Kekulé form; and two-digit ring-closure numbers (`%nn`) — reader branches its default output never reaches
    n = rd.GetNumAtoms()
    for kw in ({'allBondsExplicit': True}, {'allHsExplicit': True}, {'allBondsExplicit': True, 'allHsExplicit': True},
               {'kekuleSmiles': True, 'allBondsExplicit': True}):
        for i in ([rng.randrange(n) for _ in range(2)] if n else []):
            try:
                rk = Chem.Mol(rd)
                if kw.get('kekuleSmiles'):
                    Chem.Kekulize(rk, clearAromaticFlags=True)
                cand.append(Chem.MolToSmiles(rk, rootedAtAtom=i, canonical=False, **kw))
            except Exception:  # noqa
                pass
    import re
    for t in list(cand[:3]):
        if not re.search(r'\[[^\]]*\d', t) and '%' not in t and re.search(r'\d', t):
            cand.append(re.sub(r'(\d)', lambda mt: '%1' + mt.group(1), t))
    cand = list(dict.fromkeys(cand))
    out = []
    for t in cand:
        try:
            if rdkit_canonical(t) != ref:
                continue
        except Exception:  # noqa
            continue
        out.append(t)
        for both, opening in _mark_variants(t):
            try:
                if rdkit_canonical(opening) == ref:
                    out.append(opening)
                    if both is not None and rdkit_canonical(both) == ref:
                        out.append(both)
            except Exception:  # noqa
                continue
    return ref, list(dict.fromkeys(out))


def mark_form(t):
    """which reader branch a spelling exercises (distribution tag)"""
    import re
    if '%' in t:
        return 'two-digit-ring-numbers'
    if re.search(r'[A-Za-z\]]-[A-Za-z\[]', t) or ':' in t:
        return 'all-bonds-explicit'
    marked = {(m.start(2), m.group(2)) for m in re.finditer(r'([/\\])(\d)', t)}
    if not marked:
        return 'marks-on-chain-bonds-only'
    kinds = set()
    for pos, d in marked:
        first = t.find(d)
        others = [p for p, dd in marked if dd == d]
        if len(others) >= 2:
            kinds.add('both-digits')
        elif pos == first:
            kinds.add('opening-digit-only')
        else:
            kinds.add('closing-digit-only')
    return '+'.join(sorted(kinds))


def cross_toolkit(ctx, texts=None, nrand=None):
    """'re-read from another toolkit's spelling' for ring / macrocycle cis-trans bonds, judged twice: (1) chython's canonical
    string, == and hash of every spelling against the first one; (2) independently of chython's self-consistency, the other
    toolkit's canonical isomeric SMILES of chython's RE-WRITTEN string against that of the spelling (configuration oracle)."""
    from chython import smiles
    rng = ctx.rng
    nrand = nrand or (12 if ctx.quick else 60)
    for text in (texts if texts is not None else RING_EZ):
        try:
            base = normalise(smiles(text))
        except Exception as e:  # noqa
            ctx.dist('R:xtk:skipped:' + type(e).__name__)
            continue
        try:
            if in_domain(base):
                ctx.dist('R:xtk:filtered')
                continue
        except Exception:  # noqa
            continue
        ref, spellings = toolkit_spellings(rng, text, nrand)
        if ref is None:
            continue
        s0, h0 = describe(base)
        nb = sum(1 for _, _, b in base.bonds() if b._stereo is not None)
        for t in spellings:
            try:
                m2 = normalise(smiles(t))
            except Exception as e:  # noqa
                ctx.dist('R:xtk:skipped:spelling-not-read:' + type(e).__name__)
                continue
            if census(m2) != census(base):
                ctx.dist('R:xtk:skipped:census-differs')
                continue
            form = mark_form(t)
            ctx.dist('R:xtk:' + form)
            ok = compare(ctx, text, base, s0, h0, 'reread-other-toolkit-spelling:' + form, m2, t, spellings=(text, t))
            # (2) configuration oracle: what chython writes back must be, for the other toolkit, the isomer that was read
            s1 = str(m2).split(' ')[0]
            try:
                back = rdkit_canonical(s1)
            except Exception:  # noqa
                back = None
            ctx.count(('R', 'xtk-configuration', t), True)
            if back is None:
                ctx.dist('R:xtk:configuration-oracle:rewritten-string-not-read-by-the-other-toolkit')
                continue
            from rdkit import Chem
            nrd = sum(1 for b in Chem.MolFromSmiles(s1).GetBonds() if str(b.GetStereo()) not in ('STEREONONE', 'STEREOANY'))
            if nrd != nb:
                ctx.dist('R:xtk:configuration-oracle:toolkits-disagree-on-what-is-stereogenic')
                continue
            ctx.dist('R:xtk:configuration-oracle:checked')
            if back != ref and ok:
                # every spelling tried is misread the same way: no pair of spellings differs. Look for one that does.
                ctx.cov['disagreements_checked'] += 1
                found = False
                for t2 in [ref, text] + spellings:
                    try:
                        m3 = normalise(smiles(t2))
                    except Exception:  # noqa
                        continue
                    if census(m3) == census(m2) and (str(m3) != str(m2)):
                        found = not compare(ctx, text, m2, str(m2), hash(m2), 'configuration-changed-by-read+write', m3, t2,
                                            spellings=(t, t2))
                        if found:
                            break
                if not found:
                    ctx.broke('relational', 'configuration oracle (other toolkit) on chython read + write',
                              f'{t!r} read and written back as {s1!r}: the other toolkit reads {back!r}, expected {ref!r}')


# ------------------------------------------------------------------------------------------------
# R: relational validation of the canonical string (real code on both sides)
# ------------------------------------------------------------------------------------------------

SYMMETRIC = [
    'Cc1ccc(C)cc1', 'CC(C)C', 'CC(C)(C)C', 'Cc1cc(C)cc(C)c1', 'c1ccc2ccccc2c1', 'C1CCC2CCCCC2C1', 'C1CCC2(CC1)CCCCC2',
    'CC1CCC(C)CC1', 'OC(=O)CCC(=O)O', 'CCN(CC)CC', 'CC(C)c1ccc(cc1)C(C)C', 'O=C1CCC(=O)CC1', 'CC(C)(C)c1ccccc1',
    'FC(F)(F)c1cc(cc(c1)C(F)(F)F)C(F)(F)F', 'OCC(CO)(CO)CO', 'C1COCCO1', 'c1cc2ccc3cccc4ccc(c1)c2c34', 'CC(C)CC(C)C',
    'N(C)(C)c1ccc(cc1)N(C)C', 'C1CC1C1CC1', 'C(c1ccccc1)(c1ccccc1)c1ccccc1', 'CCOC(=O)CC(=O)OCC', 'C1CCC(CC1)C1CCCCC1',
    'O=S(=O)(c1ccccc1)c1ccccc1', 'CC(=O)OC(C)=O', 'C[N+](C)(C)C.[Cl-]', 'CCCC.CCCC', '[Na+].[Na+].[O-]C(=O)C([O-])=O',
    'C=CC=C', 'C1=CCC=CC1', 'C#CC#C', 'CC=C(C)C', 'C/C=C/C=C/C', 'C[C@H](O)[C@@H](C)O', 'C[C@H](O)[C@H](C)O',
    'O[C@H](C(=O)O)[C@@H](O)C(=O)O', 'F/C=C/F', 'F/C=C\\F', 'C[C@@H]1CCC[C@H](C)C1=O',
]

# molecules with several equivalent labelled centres (meso / C2 pairs): exercise the R/S pair branch of __differentiation
STEREO_PAIRS = [
    'C[C@H](O)[C@@H](C)O', 'C[C@H](O)[C@H](C)O', 'C[C@@H](O)[C@@H](C)O', 'O[C@H](C(=O)O)[C@@H](O)C(=O)O',
    'O[C@H](C(=O)O)[C@H](O)C(=O)O', 'C[C@H](Cl)C[C@@H](C)Cl', 'C[C@H](Cl)C[C@H](C)Cl', 'C[C@H](N)CC[C@@H](C)N',
    'F[C@H](Cl)[C@@H](F)Cl', 'F[C@H](Cl)[C@H](F)Cl', 'C[C@H](O)C(=O)[C@@H](C)O', 'C[C@H](O)C(=O)[C@H](C)O',
    'C[C@H](Br)c1ccc(cc1)[C@@H](C)Br', 'C[C@H](Br)c1ccc(cc1)[C@H](C)Br', 'OC[C@H](O)[C@@H](O)[C@H](O)[C@@H](O)CO',
    'OC[C@@H](O)[C@@H](O)[C@H](O)[C@H](O)CO', 'C[C@H](O)[C@H](O)[C@@H](C)O', 'N[C@@H](C)C(=O)N[C@@H](C)C(=O)O',
    'C[C@H](F)[C@@H](F)[C@H](C)F', 'CC[C@H](C)O[C@@H](C)CC', 'CC[C@H](C)O[C@H](C)CC',
]

# isotope labels, including the one EQUAL to the element's reference isotope, next to an unlabelled twin atom
ISOTOPES = [
    '[12CH3]CCC', '[12CH3]C(C)C', '[35Cl]CCCl', '[16OH]CCO', 'Cc1c[12cH]ccc1', '[13CH3]CCC', '[37Cl]CCCl',
    '[12CH3][12CH2]C[12CH3]', '[14NH2]CCN', '[1H]C([1H])([1H])C', '[2H]C([2H])([2H])C', '[32SH]CCS', '[19F]C(F)F',
    '[12C](C)(C)(C)C', 'c1cc[14n]cc1', '[79Br]CCBr', '[81Br]CCBr', '[31PH2]CP', '[12CH3]O[13CH3]', '[11BH2]CB',
]

# stereocentres whose hydrogen is an explicit atom (H, D, T): the first-atom rule of the writer vs the reader
EXPLICIT_H_STEREO = [
    'CC[C@]([2H])(N)C', 'CC[C@@]([2H])(N)C', 'N[C@@]([2H])(C)C(=O)O', 'C[C@@]([2H])(O)c1ccccc1', '[2H][C@](F)(Cl)Br',
    '[3H][C@](F)(Cl)Br', 'OC[C@@]([2H])(O)C=O', 'F[C@]([H])(Cl)Br', '[Na+].[O-]C(=O)[C@]([2H])(C)N', '[2H][C@@](C)(O)CC',
    'C[C@]([3H])(N)CC', '[2H][C@]1(C)CCCO1', 'CC[C@H](N)C', 'N[C@@H](C)C(=O)O', 'F[C@H](Cl)Br', 'C[C@](F)(Cl)Br',
    '[2H]C([2H])(C)O', 'C[C@@]([2H])(O)[C@]([2H])(C)N',
]


# labelled centres with four ring bonds (chiral spiro atoms, atoms shared by three rings): one atom closes a ring and opens
# another, so the order of ring-closure digits at that atom enters the chirality mark
RING_JUNCTION_STEREO = [
    'C1CCO[C@@]2(C1)CCCCO2', 'C1CCO[C@]2(C1)CCCCO2', 'O=C1CC[C@@]2(CCCO2)C1', 'C1CC[C@]2(C1)OCCCO2', 'N1CCC[C@]12CCCO2',
    'C1CO[C@@]2(C1)CCCN2', 'O=C1OC[C@]12CCCS2', 'C1C[C@@]2(CO2)CCO1', 'C1C[C@]2(CO2)CCN1', 'CC1CC[C@@]2(CC1)CCC(=O)O2',
    'COC1=CC(=O)C[C@@H](C)[C@]12Oc1c(Cl)c(OC)cc(OC)c1C2=O',
    'CC(=O)S[C@@H]1CC2=CC(=O)CC[C@]2(C)[C@H]2CC[C@@]3(C)[C@@H](CC[C@@]33CCC(=O)O3)[C@H]12',
    'CN1CC[C@]23c4c5ccc(O)c4O[C@H]2[C@@H](O)C=C[C@H]3[C@H]1C5', 'C[C@]12CC[C@H]3[C@@H](CCC4=CC(=O)CC[C@]34C)[C@@H]1CC[C@]21CO1',
    'C1C[C@@]23CCCC[C@H]2CC[C@@H]1O3', 'O1CC[C@]2(C1)C[C@@H]2C', 'C1CC[C@@]2(C1)C(=O)NC2=O',
]


# chiral allenes with two heavy substituents on an end (the reference substituent of an end can be the first or the second
# neighbour), cumulenes, and their mirror images
ALLENES = ['CC(Cl)=[C@]=C(F)CC', 'CC(Cl)=[C@@]=C(F)CC', 'CC=[C@]=C(C)Cl', 'CC=[C@@]=C(C)Cl', 'ClC(F)=[C@]=C(Br)I',
           'ClC(F)=[C@@]=C(Br)I', 'CC(N)=[C@]=C(C)O', 'OC(C)=[C@@]=C(Cl)CC', 'CC=[C@]=CCBr', 'CC(O)=[C@]=C(F)C(=O)O',
           '[2H]C(C)=[C@]=C(C)Cl', 'CC(Cl)=[C@]=C(F)CC.Cl', 'CCC(C)=[C@]=C(C)c1ccccc1', 'CC(=[C@@]=C(O)CC)C(C)C',
           'N#CC(C)=[C@]=C(F)OC', 'C[C@H](O)C(C)=[C@]=C(Cl)CC', 'CC(Cl)=[C@]=CC=[C@@]=C(F)CC']

COUNTERPARTS = ['Cl', '[Na+]', 'O', 'CC(=O)O', 'OS(=O)(=O)O', 'C[C@H](N)CC', '[Cl-]']


def ez_catalogue():
    """constitutionally equivalent stereo double bonds with EVERY E/Z label combination (conjugated, separated by sp3
    linkers, hetero atoms, carbonyls, aryl rings), plus non-equivalent controls"""
    templates = ['C{a}C=C{b}CC{c}C=C{d}C', 'C{a}C=C{b}C(=O){c}C=C{d}C', 'C{a}C=C{b}N{c}C=C{d}C', 'F{a}C=C{b}C=C{d}F',
                 'C{a}C=C{b}c1ccc(cc1){c}C=C{d}C', 'O=C({a}C=C{b}c1ccccc1){c}C=C{d}c1ccccc1', 'CC({a}C=C{b}F)({c}C=C{d}F)Cl',
                 'C{a}C=C{b}O{c}C=C{d}C', 'C{a}C=C{b}CCC{c}C=C{d}C', 'Cl{a}C=C{b}C{c}C=C{d}Cl', 'C{a}C=C{b}S{c}C=C{d}C',
                 'C{a}C=C{b}C(=O){c}C=C{d}CC', 'C{a}C=C{b}C=C{d}CC', 'C{a}C=C{b}c1cccc(c1){c}C=C{d}C']
    out = []
    for t in templates:
        for first in ('/', '\\'):
            for second in (('/', '/'), ('/', '\\')):
                c, d = second
                if '{c}' not in t:
                    c = ''
                out.append(t.format(a=first, b='/', c=c, d=d))
    return sorted(set(out))


def oligomers(rng, k):
    """Repeat-unit molecules: a terminal and an inner backbone atom of the same kind that see the same KINDS of neighbours in
    different NUMBERS (terminal A(S)n-1, inner A(S)n-2), optionally as mixtures of two chain lengths; plus chains that differ
    only in where the multiple bonds sit. Nothing but neighbour multiplicities / bond orders / distance along the chain tells
    their atoms apart — the inputs on which an under-discriminating refinement shows as numbering dependence."""
    centres = [('C', 4), ('N', 3), ('[Si]', 4), ('P', 3), ('B', 3), ('[N+]', 4), ('[Ge]', 4), ('[P+]', 4)]
    subs = ['C', 'F', 'Cl', 'O', 'N', 'CC', 'C(F)(F)F', 'OC', 'Br', 'S', '[2H]', 'C#N']
    links = ['', 'C', 'CC', 'O', 'CO', 'S', 'CCC', 'N', 'C=C', 'c1ccc(cc1)', 'C(=O)']
    out = []

    def chain(a, v, sub, link, units):
        br = f'({sub})' * (v - 2)
        return f'{sub}{a}{br}' + ''.join(f'{link}{a}{br}' for _ in range(units - 1)) + sub

    for _ in range(k):
        a, v = rng.choice(centres)
        sub, link = rng.choice(subs), rng.choice(links)
        units = rng.randint(2, 5)
        t = chain(a, v, sub, link, units)
        r = rng.random()
        if r < 0.2:   # mixture of two chain lengths of the same family (component order)
            t = t + '.' + chain(a, v, sub, link, units + rng.choice([-1, 1]) if units > 2 else units + 1)
        elif r < 0.3:  # two different families side by side
            a2, v2 = rng.choice(centres)
            t = t + '.' + chain(a2, v2, rng.choice(subs), rng.choice(links), rng.randint(2, 4))
        out.append(t)
    # same atoms, different placement of the multiple bonds / branches along a chain
    for _ in range(max(2, k // 4)):
        n = rng.randint(4, 9)
        bonds = [rng.choice(['', '', '=', '#']) for _ in range(n - 1)]
        for i in range(1, n - 1):   # keep carbon valence <= 4
            if {'=': 2, '#': 3, '': 1}[bonds[i - 1]] + {'=': 2, '#': 3, '': 1}[bonds[i]] > 4:
                bonds[i] = ''
        t = 'C' + ''.join(b + 'C' + ('(C)' if b == '' and rng.random() < 0.25 else '') for b in bonds)
        out.append(t)
    return out


OLIGOMERS = ['CN(C)CCN(C)CCN(C)C', 'FC(F)(F)C(F)(F)C(F)(F)F', 'C[Si](C)(C)O[Si](C)(C)O[Si](C)(C)C', 'CC(C)CC(C)CC(C)C',
             'CN(C)CCN(C)C', 'FC(F)(F)C(F)(F)F', 'CC(C)CC(C)C', 'CCCCOP(=O)(O)O.CCCCOP(=O)(O)OCCCC',
             '[O-][N+](=O)C([N+](=O)[O-])C([N+](=O)[O-])[N+](=O)[O-]', 'OCC(O)C(O)C(O)CO', 'CC(C)(C)CC(C)(C)CC(C)(C)C',
             'ClC(Cl)(Cl)C(Cl)(Cl)C(Cl)(Cl)C(Cl)(Cl)Cl', 'CP(C)CCP(C)CCP(C)C', 'COC(OC)C(OC)C(OC)OC',
             'C[N+](C)(C)CC[N+](C)(C)CC[N+](C)(C)C', 'CB(C)OB(C)OB(C)C', 'CC=CC=CC', 'C=CCC=CC', 'C#CC=CC#C', 'CC#CC(C)C#CC']


RADICALS = ['C[CH2] |^1:1|', 'C[O] |^1:1|', 'CC1(C)CCCC(C)(C)N1[O] |^1:10|', '[O]c1ccccc1 |^1:0|', 'C[CH]C |^1:1|',
            '[CH2]C=C |^1:0|', '[CH2]CC[CH2] |^1:0,3|', 'C[C@H](O)[CH2] |^1:4|', '[13CH2]C(C)C |^1:0|', 'C/C=C/[CH2] |^1:3|',
            '[Na+].CC(C)([O-])[C](C)C |^1:6|', 'CC(C)[CH]C(C)C |^1:3|', '[CH2]c1ccc(C)cc1 |^1:0|', 'CC([CH2])C |^1:2|']

# symmetric donors / pi systems: a metal (or any substituent) on ONE of two equivalent atoms is then the only difference
DONORS = ['NCCN', 'c1ccc(nc1)-c1ccccn1', 'C1COCCO1', 'COCCOC', 'CN(C)CCN(C)C', 'C=C', 'OC(=O)c1ccccc1C(=O)O', 'SCCS', 'N#CCC#N',
          'c1ccncc1', 'CP(C)CCP(C)C', 'OCCO', 'O=C(C)CC(C)=O', 'c1cnccn1', 'NCCNCCN', 'C1CSCCS1', 'CC(=O)[O-]', 'OCC(O)CO',
          'c1ccc2ncccc2c1', 'N1CCNCC1', 'C#C', 'COC', 'CSC']
COORDINATED = ['NCCN~[Cu]', 'C1COCCO1~[Li]', 'COCCOC~[Na]', 'CN(C)CCN(C)C~[Li]', 'N1CCN~[Cu]~1', 'Cl[Pt](Cl)(~N)~N', 'C=C~[Pt]',
               'O=C(C)C=C(C)O~[Fe]', 'c1ccncc1~[Ru]~n1ccccc1', '[Cu]~NCCN~[Cu]', 'OC(=O)c1ccccc1C(=O)O~[Cu]']


def attachment_decorations(rng, mol, per_class=2):
    """desymmetrise: ONE atom of a symmetry class gets a new neighbour through a bond of each kind the library knows —
    coordinate (order 8) to a metal, single to a halogen (public API recalculates H), and for two-membered or larger
    classes also the doubly decorated molecule — so that the attachment is the only thing telling the twins apart"""
    cls, atoms, adj = sym_classes(mol)
    members = {}
    for n in mol._atoms:
        members.setdefault(cls[n], []).append(n)
    groups = [v for v in members.values() if len(v) >= 2] or list(members.values())
    rng.shuffle(groups)
    for grp in groups[:per_class]:
        n = rng.choice(grp)
        for sym, order in ((rng.choice(['Cu', 'Li', 'Pt', 'Ru', 'Na', 'Fe', 'Pd', 'Zn']), 8), ('F', 1), ('Cl', 1)):
            if order == 1 and not (mol._atoms[n]._implicit_hydrogens or 0):
                continue
            try:
                c = mol.copy()
                k = c.add_atom(sym)
                c.add_bond(n, k, order)
                yield f'+{sym}{"~" if order == 8 else "-"}@{n}', c
                if order == 8 and len(grp) >= 3:   # second metal on another twin: the free ones must still be told apart
                    m2 = rng.choice([x for x in grp if x != n])
                    k2 = c.add_atom(sym)
                    c.add_bond(m2, k2, 8)
                    yield f'+2{sym}~@{n},{m2}', c.copy()
            except Exception:  # noqa
                continue


def multi_component_stereo(rng, k):
    """stereo molecules as salts / mixtures, the stereo component before, after and between other components"""
    pool = STEREO_PAIRS + EXPLICIT_H_STEREO + ALLENES + [t for t in molgen.HANDMADE if '@' in t or '/' in t]
    pool = [t for t in pool if '.' not in t and ' ' not in t]
    out = []
    for _ in range(k):
        t, c = rng.choice(pool), rng.choice(COUNTERPARTS)
        r = rng.random()
        out.append(f'{c}.{t}' if r < 0.4 else f'{t}.{c}' if r < 0.6 else f'{c}.{t}.{rng.choice(COUNTERPARTS)}'
                   if r < 0.8 else f'{rng.choice(pool)}.{t}')
    return out


def rooted_spellings(rng, mol, limit=4):
    """spellings by the library's own writer that START A COMPONENT AT A STEREO ATOM (or at a terminal of a stereo bond), with
    that component written first and written last — the positions where readers and writers apply their first-atom rules.
    (`_smiles(weights, random=True)` is the traversal the random-order writer uses; here the draw is chosen, not random.)"""
    comps = [list(c) for c in mol.connected_components]
    comp_of = {n: i for i, c in enumerate(comps) for n in c}
    cands = [n for n, a in mol._atoms.items() if a._stereo is not None]
    for n, ms in mol._bonds.items():
        if any(b._stereo is not None for b in ms.values()):
            cands.append(n)
    rng.shuffle(cands)
    out = []
    for start in cands[:limit]:
        for last in ((False, True) if len(comps) > 1 else (False,)):
            noise = {n: rng.random() for n in mol._atoms}
            rank = {i: rng.random() for i in range(len(comps))}
            rank[comp_of[start]] = 2.0 if last else -1.0

            def w(x, start=start, noise=noise, rank=rank):
                return (rank[comp_of[x]], 0.0 if x == start else 1.0 + noise[x])
            try:
                out.append(''.join(mol._smiles(w, random=True)) +
                           (f' {cx}' if (cx := mol._format_cxsmiles(mol._smiles(w, random=True, _return_order=True)[1])) else ''))
            except Exception:  # noqa
                continue
    return out


def isotope_decorations(mol, limit=3):
    """label ONE atom of each symmetry class with tabulated isotopes, always including the element's reference isotope
    (the one a writer prints as `[12C]` although it is 'the same' mass number as the unlabelled atom)"""
    cls, atoms, adj = sym_classes(mol)
    reps = {}
    for n in mol._atoms:
        reps.setdefault(cls[n], n)
    for n in reps.values():
        a = mol._atoms[n]
        if a._isotope:
            continue
        isos = [a.mdl_isotope] + [i for i in sorted(a.isotopes_distribution) if i != a.mdl_isotope][:limit - 1]
        for iso in isos:
            c = mol.copy()
            try:
                c._atoms[n]._isotope = iso
                c.flush_cache()
                c.calc_labels()
            except Exception:  # noqa
                continue
            yield f'[{iso}]@{n}', c


KF_COMPONENT = 'C01/canonical-string-depends-on-numbering/order-of-components-the-refinement-cannot-tell-apart'
KF_TIE = 'C01/canonical-string-depends-on-numbering/tie-between-same-class-atoms-not-exchangeable-by-symmetry'
KF_ODD = 'C01/canonical-string-depends-on-numbering/odd-number-of-equivalent-stereo-elements-not-differentiated'
KNOWN = (KF_COMPONENT, KF_TIE, KF_ODD)


def describe(mol):
    return str(mol), hash(mol)


def census(mol):
    """what a second spelling must at least preserve to be a spelling of the same structure"""
    return (sorted((a.atomic_number, a._charge, a._isotope or 0, a._implicit_hydrogens or 0) for a in mol._atoms.values()),
            sum(1 for a in mol._atoms.values() if a._stereo is not None),
            sum(1 for _, _, b in mol.bonds() if b._stereo is not None))


def in_domain(mol):
    """None when inside the claimed domain, else the name of the recorded gap."""
    cls, atoms, adj = sym_classes(mol)
    g = gap_stereo(mol, cls)
    if g:
        return 'gap-i:' + g
    g = gap_cage(mol, cls, adj)
    if g:
        return 'gap-ii:' + g
    return None


def classify_failure(mol, s0, s1):
    """signature of a numbering/spelling dependence observed on an in-domain molecule (independent oracle only)."""
    if '.' in s0 and sorted(s0.split(' ')[0].split('.')) == sorted(s1.split(' ')[0].split('.')):
        return KF_COMPONENT
    cls, atoms, adj = sym_classes(mol)
    w = rigid_tie(atoms, adj, cls)
    if w is not None:
        return KF_TIE
    if odd_equivalent_elements(mol, cls):
        return KF_ODD
    has_stereo = bool(stereo_elements(mol))
    return 'C01/canonical-string-differs/' + ('stereo' if has_stereo else 'no-stereo') + \
        ('/all-atoms-distinct' if len(set(cls.values())) == len(cls) else '/symmetric-but-exchangeable')


def second_description(rng, m, tries=8):
    """look for a second description of `m` whose canonical string differs: (other, mapping|None, kind) or None"""
    s0 = str(m)
    for _ in range(tries):
        c, mp = reorder(rng, m)
        if str(c) != s0:
            return c, mp, 'renumber+reinsert'
    for _ in range(2):
        try:
            t, m2 = reread_own(rng, m)
        except Exception:  # noqa
            continue
        if str(m2) != s0 and census(m2) == census(m):
            return m2, None, 'reread-own-random-spelling'
    return None


def shrink(rng, mol, sig, budget=60):
    """greedy atom deletion while a differing second description with the same signature still exists (in domain)."""
    cur, best = mol, None
    progress = True
    while progress and budget > 0 and len(cur) > 2:
        progress = False
        for n in sorted(cur._atoms, key=lambda x: len(cur._bonds[x])):
            if budget <= 0:
                break
            budget -= 1
            try:
                cand = cur.copy()
                cand.delete_atom(n)
                cand.flush_cache()
                cand = normalise(cand)
                if in_domain(cand):
                    continue
                found = second_description(rng, cand)
            except Exception:  # noqa
                continue
            if found and classify_failure(cand, str(cand), str(found[0])) == sig:
                cur, best, progress = cand, found, True
                break
    return (cur, best) if best else None


def compare(ctx, name, base, s0, h0, kind, other, detail, mapping=None, history=None, spellings=None):
    """one relational case: `other` is a second description of the structure `base`."""
    from .. import wire
    try:
        s1, h1 = describe(other)
        eq = (base == other) and (other == base)
    except Exception as e:  # noqa
        s1, h1, eq = f'<{type(e).__name__}: {e}>', None, False
    ctx.count(('R', kind, s0, detail), True)
    ctx.dist('R:' + kind)
    if mapping is not None and len(_state.setdefault('same_reqs', [])) < (4000 if ctx.quick else 40000):
        mp = sorted(mapping.items())
        _state['same_reqs'].append(('same ' + ' '.join(map(str, [len(mp)] + [x for kv in mp for x in kv] + view_ints(base) + view_ints(other))),
                                    f'{kind}: {name}'))
    ctx.sample({'relational': kind, 'first': s0[:100], 'second description': str(detail)[:100], 'canonical string of second': s1[:100]},
               limit=9)
    if s1 == s0 and eq and h1 == h0:
        return True
    if s1 == s0:
        sig = 'C01/eq-or-hash-disagrees-with-equal-strings'
    else:
        sig = classify_failure(base, s0, s1)
    ctx.cov['disagreements_checked'] += 1
    if sig in KNOWN and (sig, name) not in _state.setdefault('kf_noted', set()) and len(_state['kf_noted']) < 12:
        _state['kf_noted'].add((sig, name))
        ctx.notes.append(f'known finding met in the relational stream ({sig.split("/")[-1]}): {name} [{kind}]: {s0} vs {s1}')
    if history is not None:
        ctx.fail(sig.replace('canonical-string-differs', 'after-history-' + history[0]) if s1 != s0 else
                 'C01/eq-or-hash-disagrees-with-equal-strings/after-history-' + history[0],
                 f'{kind}: {name}: {s0!r} vs {s1!r}; ==: {eq}; hash equal: {h0 == h1}',
                 {'kind': 'history', 'history': history[0], 'seed': history[1], 'name': name, 'a': wire.mol_to_ints(base),
                  'str_a': s0, 'str_b': s1})
        return False
    if spellings is not None:
        ctx.fail(sig.replace('canonical-string-differs', 'canonical-string-differs-between-spellings-of-another-toolkit'),
                 f'{kind}: {spellings[0]!r} vs {spellings[1]!r} (one stereoisomer for the other toolkit): {s0!r} vs {s1!r}; '
                 f'==: {eq}; hash equal: {h0 == h1}',
                 {'kind': 'toolkit-spellings', 'a': spellings[0], 'b': spellings[1], 'str_a': s0, 'str_b': s1})
        return False
    shrunk_from = None
    if sig not in KNOWN and s1 != s0 and not s1.startswith('<') and len(base) > 4 \
            and _state.setdefault('shrinks', 0) < 4 and not any(f.signature == sig for f in ctx.failures):
        _state['shrinks'] += 1
        try:
            res = shrink(ctx.rng, base, sig)
        except Exception:  # noqa
            res = None
        if res:
            small, (o2, mp2, kind2) = res
            shrunk_from = f'{name}: {s0}'
            base, other, mapping, kind = small, o2, mp2, kind2
            s0, h0 = describe(base)
            s1, h1 = describe(other)
            eq = (base == other)
            detail = 'shrunk by atom deletion'
    ctx.fail(sig, f'{kind}: {name}: {s0!r} vs {s1!r}; ==: {eq}; hash equal: {h0 == h1}' +
             (f' (shrunk from {shrunk_from})' if shrunk_from else ''),
             {'kind': 'two-descriptions', 'how': kind, 'name': name, 'a': wire.mol_to_ints(base), 'b': wire.mol_to_ints(other),
              'str_a': s0, 'str_b': s1, 'detail': str(detail)[:300],
              'mapping': sorted(mapping.items()) if mapping else None})
    return False


FORMAT_SPECS = ['a', 'A', 'h', '!s', '!b', '!z', '!x', 'aAh!z']


def compare_formats(ctx, name, base, other, mapping):
    """the other deterministic renderings of `format(mol, spec)` (observe_at) must not depend on the description either"""
    from .. import wire
    for spec in FORMAT_SPECS:
        try:
            f0, f1 = format(base, spec), format(other, spec)
        except Exception as e:  # noqa
            f0, f1 = 'a', f'<{type(e).__name__}: {e}>'
        ctx.count(('R', 'format', spec, f0, tuple(sorted(mapping.items()))), True)
        ctx.dist('R:format-spec')
        if f0 == f1:
            continue
        sig = classify_failure(base, f0, f1)
        if sig not in KNOWN:
            sig = sig.replace('canonical-string-differs', f'format-{spec}-differs')
        ctx.cov['disagreements_checked'] += 1
        ctx.fail(sig, f'format(mol, {spec!r}): {name}: {f0!r} vs {f1!r}',
                 {'kind': 'two-descriptions', 'how': 'renumber+reinsert', 'spec': spec, 'name': name,
                  'a': wire.mol_to_ints(base), 'b': wire.mol_to_ints(other), 'str_a': f0, 'str_b': f1,
                  'mapping': sorted(mapping.items())})


def relational_molecules(ctx):
    from chython import smiles
    rng = ctx.rng
    out = []
    for s in molgen.HANDMADE + SYMMETRIC + STEREO_PAIRS + ISOTOPES + EXPLICIT_H_STEREO + ez_catalogue() + OLIGOMERS \
            + RING_JUNCTION_STEREO + RADICALS + COORDINATED + DONORS + ALLENES + RING_EZ + ODD_GROUPS + multi_component_stereo(rng, 30 if ctx.quick else 200) \
            + oligomers(rng, 50 if ctx.quick else 250):
        m = molgen.parse(s)
        if m is not None:
            out.append((s, s, m))
    # a metal / substituent on ONE of several equivalent atoms
    dbases = DONORS + [t for t in SYMMETRIC + OLIGOMERS if molgen.parse(t) is not None and len(molgen.parse(t)) <= 20]
    for t in (DONORS + rng.sample(dbases, 12) if ctx.quick else dbases):
        m = molgen.parse(t)
        if m is None:
            continue
        for tag, c in attachment_decorations(rng, m, per_class=1 if ctx.quick else 3):
            out.append((f'{t}{tag}', None, c))
    # one atom of each symmetry class labelled with its reference isotope and with other tabulated isotopes
    bases = [t for t in SYMMETRIC + molgen.HANDMADE if molgen.parse(t) is not None and 2 <= len(molgen.parse(t)) <= 14]
    for t in (rng.sample(bases, 14) if ctx.quick else bases):
        for tag, c in isotope_decorations(molgen.parse(t), limit=2 if ctx.quick else 4):
            out.append((f'{t}{tag}', None, c))
    smis = molgen.corpus_smiles()
    for i in rng.sample(range(len(smis)), 350 if ctx.quick else 1500):
        m = molgen.parse(smis[i])
        if m is not None:
            out.append((f'corpus[{i}]', smis[i], m))
    n_small = 5 if ctx.quick else 6
    for k in range(2, n_small + 1):
        for g in molgen.unlabeled_small_graphs(k):
            try:
                out.append((f'small{g}', None, molgen.decorate(rng, list(g))))
            except Exception:  # noqa
                continue
    for i in range(150 if ctx.quick else 400):
        e = molgen.ring_assembly(rng, max_rings=3)
        try:
            out.append((f'rings#{i}', None, molgen.decorate(rng, e, hetero=0.2, multiple=0.1, charge=0.03)))
        except Exception:  # noqa
            continue
    return out


def certify_pairs(ctx):
    """every (first, second description, renaming) triple produced by the harness goes through the proved Lean checker
    `C01Check.checkSame` (Props: check_same_sound): the second IS the first renamed, at the constitution level."""
    reqs = _state.pop('same_reqs', [])
    if not reqs or not getattr(ctx, 'build_ok', True):
        return
    got = run_driver('C01', [r for r, _ in reqs])
    bad = [(what, g) for (r, what), g in zip(reqs, got) if g != 'ok 1']
    for _ in reqs:
        ctx.dist('R:pair-certified-by-lean-checker')
    ctx.cov['evaluations'] += len(reqs)
    if len(got) != len(reqs) or bad:
        ctx.cov['disagreements_checked'] += len(bad)
        ctx.broke('relational', 'harness renumbering rejected by the Lean checker C01Check.checkSame',
                  f'{len(bad)} of {len(reqs)} pairs; first: {bad[:2]}')


def relational_molecules_small(ctx, nmax):
    out = []
    for s in molgen.HANDMADE + SYMMETRIC:
        m = molgen.parse(s)
        if m is not None and 2 <= len(m) <= nmax:
            out.append((s, s, m))
    for k in range(2, nmax + 1):
        for g in molgen.unlabeled_small_graphs(k):
            for rep in range(2):
                try:
                    out.append((f'small{g}#{rep}', None, molgen.decorate(ctx.rng, list(g))))
                except Exception:  # noqa
                    continue
    return out


def relational(ctx, mols=None, nvar=None):
    rng = ctx.rng
    nren = nvar or (3 if ctx.quick else 4)
    for name, text, raw in (mols if mols is not None else relational_molecules(ctx)):
        try:
            base = normalise(raw)
        except Exception as e:  # noqa  (not kekulisable: outside "once aromaticity is normalised")
            ctx.dist('R:skipped:normalise:' + type(e).__name__)
            continue
        try:
            gap = in_domain(base)
        except Exception as e:  # noqa
            ctx.notes.append(f'symmetry oracle failed on {name}: {type(e).__name__}: {e}')
            continue
        if gap:
            ctx.dist('R:filtered:' + gap.split(':')[0])
            continue
        try:
            s0, h0 = describe(base)
        except Exception as e:  # noqa  (e.g. a label left on an atom a decoration made non-stereogenic: not a molecule of the domain)
            ctx.dist('R:skipped:first-description-raises:' + type(e).__name__)
            continue
        for r in range(nren):
            try:
                c, mapping = reorder(rng, base)
            except Exception as e:  # noqa
                ctx.dist('R:skipped:reorder:' + type(e).__name__)
                continue
            ok = compare(ctx, name, base, s0, h0, 'renumber+reinsert', c, sorted(mapping.items())[:12], mapping)
            if ok and r == 0:
                compare_formats(ctx, name, base, c, mapping)
        special = bool(stereo_elements(base)) or base.is_radical or any(b.order == 8 for _, _, b in base.bonds())
        if special or rng.random() < (0.12 if ctx.quick else 0.2):
            import random as _random
            for hname in (HISTORIES if special else rng.sample(list(HISTORIES), 3)):
                seed = rng.randrange(2 ** 31)
                try:
                    m2 = HISTORIES[hname](_random.Random(seed), base)
                except Exception as e:  # noqa
                    ctx.dist(f'R:skipped:history:{hname}:{type(e).__name__}')
                    continue
                if census(m2) == census(base):
                    compare(ctx, name, base, s0, h0, 'history:' + hname, m2, hname, history=(hname, seed))
                else:
                    ctx.dist(f'R:skipped:history:{hname}:census-differs')
        try:
            from chython import smiles as _smiles
            m2 = normalise(_smiles(s0))
            if census(m2) == census(base):
                compare(ctx, name, base, s0, h0, 'reread-canonical-string', m2, s0)
            else:
                ctx.dist('R:skipped:reread-canonical:census-differs')
        except Exception as e:  # noqa
            ctx.dist('R:skipped:reread-canonical:' + type(e).__name__)
        if stereo_elements(base):
            from chython import smiles as _sm
            for t in rooted_spellings(rng, base):
                try:
                    m2 = normalise(_sm(t))
                except Exception as e:  # noqa
                    ctx.dist('R:skipped:reread-rooted:' + type(e).__name__)
                    continue
                if census(m2) == census(base):
                    compare(ctx, name, base, s0, h0, 'reread-own-writer-rooted-at-stereo-atom', m2, t)
                else:
                    ctx.dist('R:skipped:reread-rooted:census-differs')
        for _ in range(1 if not stereo_elements(base) else (8 if ring_junction_label(base) else 3)):
            try:
                t, m2 = reread_own(rng, base)
                compare(ctx, name, base, s0, h0, 'reread-own-random-spelling', m2, t)
            except Exception as e:  # noqa
                ctx.dist('R:skipped:reread-own:' + type(e).__name__)
        if text is not None and ' ' not in text and '>' not in text:
            for kek in ((False, True) if not ctx.quick else (rng.random() < 0.5,)):
                try:
                    t, m2 = reread_rdkit(rng, text, kek)
                except Exception as e:  # noqa
                    ctx.dist('R:skipped:reread-rdkit:' + type(e).__name__)
                    continue
                if m2 is None:
                    continue
                if census(m2) != census(base):
                    # the other toolkit changed the description itself (explicit H removed, allene / unsupported stereo
                    # dropped): not a spelling of the same structure
                    ctx.dist('R:skipped:rdkit-spelling-changes-atoms-or-stereo-count')
                    continue
                compare(ctx, name, base, s0, h0, 'reread-rdkit-' + ('kekule' if kek else 'aromatic'), m2, t)
    if mols is None:
        # exhaustive: the canonical string under ALL n! numberings of every small molecule
        nmax = 5 if ctx.quick else 6
        done = set()
        for name, text, raw in relational_molecules_small(ctx, nmax):
            try:
                base = normalise(raw)
                if in_domain(base):
                    continue
            except Exception:  # noqa
                continue
            s0, h0 = describe(base)
            if s0 in done:
                continue
            done.add(s0)
            nums = list(base._atoms)
            for perm in itertools.permutations(range(1, len(nums) + 1)):
                try:
                    c = permuted(base, dict(zip(nums, perm)))
                except Exception as e:  # noqa
                    ctx.dist('R:skipped:permuted:' + type(e).__name__)
                    break
                compare(ctx, name, base, s0, h0, 'all-permutations', c, perm, dict(zip(nums, perm)))
        ctx.notes.append(f'exhaustive sub-domain: all n! numberings of every small molecule (<= {nmax} atoms) of the run, '
                         'for atoms_order (K) and for the canonical string (R); the property domain as a whole is sampled')
    if mols is None:
        cross_toolkit(ctx)
        # the same double judgement on a sample of the other catalogues (tetrahedral centres incl. explicit H and ring
        # junctions, open-chain E/Z, isotopes, charged / aromatic corpus molecules) with the other toolkit's writer options
        pool = STEREO_PAIRS + EXPLICIT_H_STEREO + RING_JUNCTION_STEREO + ez_catalogue() + ISOTOPES + ODD_GROUPS + SYMMETRIC
        smis = molgen.corpus_smiles()
        pool = rng.sample(pool, 25 if ctx.quick else len(pool)) + \
            [smis[i] for i in rng.sample(range(len(smis)), 25 if ctx.quick else 400)]
        cross_toolkit(ctx, [t for t in pool if ' ' not in t and '>' not in t], nrand=4 if ctx.quick else 20)
    certify_pairs(ctx)
    ctx.cov['programs'] = ctx.cov.get('programs', 0) + 3  # Smiles.__str__, __eq__, __hash__


# ------------------------------------------------------------------------------------------------
# search: property-level oracle on the real code, around whatever broke
# ------------------------------------------------------------------------------------------------

def search(ctx):
    """Runs when a theorem / translator / K stream broke and no failing input is in hand: many more descriptions per
    molecule, starting with the molecules of the disagreeing K cases, then the symmetric catalogue, then the corpus."""
    from .. import wire
    import time
    t_end = time.time() + (60 if ctx.quick else 600)
    first, seen_first = [], set()
    for op, items in (_state.get('k_bad') or {}).items():
        if op not in ('order', 'cmorgan', 'cfull', 'cumul', 'stabs'):
            continue
        for what, line, exp, g in items:
            xs = list(map(int, line.split()[1:]))
            try:
                m = view_to_mol(xs) if op == 'order' else sview_to_mol(xs, stereo=op in ('cfull', 'cumul', 'stabs'))
                key = str(m)
            except Exception:  # noqa
                continue
            if key in seen_first:
                continue
            seen_first.add(key)
            # lead: the implementation puts in one class atoms that an independent colour refinement tells apart
            try:
                atoms, adj = const_graph(m)
                wl = wl_classes(atoms, adj)
                real = m.atoms_order
                merged = len(set(wl.values())) - len(set(real.values()))
            except Exception:  # noqa
                merged = 0
            first.append((merged, len(m), what if isinstance(what, str) else what[0], m))
    first.sort(key=lambda t: (-t[0], t[1]))
    ctx.notes.append(f'search: {len(first)} distinct molecules from disagreeing K cases, '
                     f'{sum(1 for t in first if t[0] > 0)} of them with implementation classes coarser than an independent refinement')
    first = [(w, None, m) for _, _, w, m in first[:150]]
    cat = (PI_STEREO if any(op in ('cfull', 'cumul', 'stabs') for op in (_state.get('k_bad') or {})) else []) + ALLENES + multi_component_stereo(ctx.rng, 120) + COORDINATED + RADICALS + OLIGOMERS + RING_JUNCTION_STEREO + oligomers(ctx.rng, 150) + ISOTOPES + EXPLICIT_H_STEREO + ez_catalogue() + STEREO_PAIRS + SYMMETRIC + molgen.HANDMADE
    deco = []
    for t in SYMMETRIC + molgen.HANDMADE:
        m = molgen.parse(t)
        if m is not None and 2 <= len(m) <= 16:
            deco += [(f'{t}{tag}', None, c) for tag, c in isotope_decorations(m, limit=4)]
    for t in DONORS + SYMMETRIC + OLIGOMERS:
        m = molgen.parse(t)
        if m is not None and len(m) <= 24:
            deco += [(f'{t}{tag}', None, c) for tag, c in attachment_decorations(ctx.rng, m, per_class=3)]
    pools = [first, [(s, s, molgen.parse(s)) for s in cat if molgen.parse(s) is not None], deco]
    before = len(ctx.failures)
    cross_toolkit(ctx, nrand=40)
    if any(f.signature not in KNOWN for f in ctx.failures[before:]):
        return
    for pool in pools:
        relational(ctx, pool, nvar=12)
        if any(f.signature not in KNOWN for f in ctx.failures[before:]) or time.time() > t_end:
            return
    smis = molgen.corpus_smiles()
    idx = list(range(len(smis)))
    ctx.rng.shuffle(idx)
    for i in idx:
        if time.time() > t_end:
            break
        m = molgen.parse(smis[i])
        if m is None:
            continue
        relational(ctx, [(f'corpus[{i}]', smis[i], m)], nvar=6)
        if any(f.signature not in KNOWN for f in ctx.failures[before:]):
            return


def sview_to_mol(xs, stereo=False):
    """molecule from the `cmorgan` wire (constitution only; with `stereo` the labels are written back as stored)"""
    it = iter(xs)
    n_atoms = next(it)
    out = [n_atoms]
    alab, blab = [], []
    for _ in range(n_atoms):
        n, z, iso, ch, rad, h, ring, st, deg = (next(it) for _ in range(9))
        out += [n, z, iso, ch, rad, h, ring, deg]
        if st >= 0:
            alab.append((n, bool(st)))
        for _ in range(deg):
            k, o, bs = next(it), next(it), next(it)
            out += [k, o]
            if bs >= 0:
                blab.append((n, k, bool(bs)))
    m = view_to_mol(out)
    if stereo and (alab or blab):
        for n, v in alab:
            m._atoms[n]._stereo = v
        for n, k, v in blab:
            m._bonds[n][k]._stereo = v
        m.flush_cache()
    return m


def view_to_mol(xs):
    """molecule from the `order` wire (no stereo)."""
    from chython import MoleculeContainer
    from chython.periodictable import Element
    it = iter(xs)
    n_atoms = next(it)
    m = MoleculeContainer()
    edges = []
    for _ in range(n_atoms):
        n, z, iso, ch, rad, h, ring, deg = (next(it) for _ in range(8))
        m.add_atom(Element.from_atomic_number(z)(iso or None, charge=ch, is_radical=bool(rad),
                                                 implicit_hydrogens=None if h < 0 else h), n, _skip_calculation=True)
        for _ in range(deg):
            k, o = next(it), next(it)
            if n < k:
                edges.append((n, k, o))
    for n, k, o in edges:
        m.add_bond(n, k, o, _skip_calculation=True)
    m.calc_labels()
    return m


# ------------------------------------------------------------------------------------------------
# probe: re-execute one input on the real code
# ------------------------------------------------------------------------------------------------

def isomorphic(ma, mb):
    """constitution isomorphism of two molecules by own backtracking (disjoint union + automorphism exchanging them)."""
    aa, adja = const_graph(ma)
    ab, adjb = const_graph(mb)
    if sorted(aa.values()) != sorted(ab.values()) or len(aa) != len(ab):
        return False
    off = max(aa) + 1
    atoms = dict(aa)
    atoms.update({n + off: v for n, v in ab.items()})
    adj = {n: dict(ms) for n, ms in adja.items()}
    adj.update({n + off: {m + off: o for m, o in ms.items()} for n, ms in adjb.items()})
    col = wl_classes(atoms, adj)
    # search a bijection A -> B: automorphism of the union that maps every A vertex into B
    order = list(aa)

    def rec(i, mp, used):
        if i == len(order):
            return True
        v = order[i]
        for w in ab:
            w2 = w + off
            if w2 in used or col[v] != col[w2]:
                continue
            if any(u in mp and adj[w2].get(mp[u]) != o for u, o in adj[v].items()):
                continue
            if any(u in mp and mp[u] not in adj[w2] for u in adj[v]):
                continue
            mp[v] = w2
            used.add(w2)
            if rec(i + 1, mp, used):
                return True
            del mp[v]
            used.discard(w2)
        return False
    return rec(0, {}, set())


def verify_renumbering(a, b, mapping):
    """b is exactly a renamed by `mapping` (any insertion order): atoms, bonds, and tetrahedral labels re-expressed for
    b's neighbour order by permutation parity. Returns a list of discrepancies (empty = verified)."""
    bad = []
    if sorted(mapping.values()) != sorted(b._atoms) or sorted(mapping) != sorted(a._atoms):
        return ['atom sets differ']
    for n, x in a._atoms.items():
        y = b._atoms[mapping[n]]
        if (x.atomic_number, x._isotope, x._charge, x._is_radical, x._implicit_hydrogens) != \
                (y.atomic_number, y._isotope, y._charge, y._is_radical, y._implicit_hydrogens):
            bad.append(f'atom {n}')
        if {mapping[m]: bb.order for m, bb in a._bonds[n].items()} != {m: bb.order for m, bb in b._bonds[mapping[n]].items()}:
            bad.append(f'bonds of {n}')
        if (x._stereo is None) != (y._stereo is None):
            bad.append(f'stereo label presence at {n}')
        elif x._stereo is not None and all(bb.order in (1, 4) for bb in a._bonds[n].values()):
            ea = [mapping[m] for m in a._bonds[n] if a._atoms[m].atomic_number != 1]
            eb = [m for m in b._bonds[mapping[n]] if b._atoms[m].atomic_number != 1]
            if sorted(ea) != sorted(eb) or (x._stereo ^ _odd(ea, eb)) != y._stereo:
                bad.append(f'tetrahedral configuration at {n}')
    return bad


def probe(inp):
    from .. import wire
    from ..gen import pyx2py
    pyx2py.install()
    if inp.get('kind') == 'history':
        import random as _random
        ref, _ = wire.ints_to_mol(inp['a'], calc=True)
        sa, ha = str(ref), hash(ref)
        try:
            other = HISTORIES[inp['history']](_random.Random(inp['seed']), ref)
            sb, hb = str(other), hash(other)
            eq = (ref == other) and (other == ref)
        except Exception as e:  # noqa
            return False, f'history {inp["history"]} could not be replayed: {type(e).__name__}: {e}'
        same = isomorphic(ref, other) and census(ref) == census(other)
        fails = same and (sa != sb or not eq or ha != hb)
        return fails, (f'the molecule and the object reached through the public-API history {inp["history"]!r} (seed {inp["seed"]}; '
                       f'same atoms, bonds and label counts: {same}): str {sa!r} vs {sb!r}; ==: {eq}; hash equal: {ha == hb}')
    if inp.get('kind') == 'toolkit-spellings':
        from chython import smiles
        ra, rb = rdkit_canonical(inp['a']), rdkit_canonical(inp['b'])
        same = ra is not None and ra == rb
        a, b = normalise(smiles(inp['a'])), normalise(smiles(inp['b']))
        sa, sb = str(a), str(b)
        eq = (a == b) and (b == a)
        he = hash(a) == hash(b)
        fails = same and (sa != sb or not eq or not he)
        return fails, (f'two SMILES spellings {inp["a"]!r}, {inp["b"]!r}; the other toolkit canonicalises both to {ra!r} '
                       f'(same stereoisomer: {same}); chython: str {sa!r} vs {sb!r}; ==: {eq}; hash equal: {he}')
    if inp.get('kind') == 'two-spellings':
        from chython import smiles
        a, b = normalise(smiles(inp['a'])), normalise(smiles(inp['b']))
    else:
        a, _ = wire.ints_to_mol(inp['a'], calc=True)
        b, _ = wire.ints_to_mol(inp['b'], calc=True)
    same = isomorphic(a, b)
    note = ''
    if inp.get('mapping'):
        bad = verify_renumbering(a, b, {int(k): int(v) for k, v in inp['mapping']})
        note = ' second = first renamed by the recorded mapping, atoms/bonds/tetrahedral parity re-verified: ' + \
            ('yes' if not bad else 'NO ' + '; '.join(bad[:4]))
        same = same and not bad
    spec = inp.get('spec')
    sa, sb = (format(a, spec), format(b, spec)) if spec else (str(a), str(b))
    eq = (a == b) or bool(spec)
    he = hash(a) == hash(b) or bool(spec)
    fails = same and (sa != sb or not eq or not he)
    return fails, (f'two descriptions of one structure (constitution isomorphism verified independently: {same};{note}); '
                   f'{"format(mol, %r)" % spec if spec else "str"}: {sa!r} vs {sb!r}; ==: {eq}; hash equal: {he}')
