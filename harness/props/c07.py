"""C07 — substructure search returns exactly the set of valid embeddings (proof).

Lean side: `Model/Iso.lean` mirrors `_compile_query`, the `_get_mapping` stack machine, `Isomorphism._get_mapping`
(components x target components, permutations, scope, `seen` filter), `lazy_product`, `_get_automorphism_mapping` and the
operators; atom/bond compatibility are parameters.  `Props/C07.lean` proves soundness / completeness / no duplicates of
the matcher w.r.t. the declarative `Spec/Embedding.lean`.

Tie (K): every case is run through the real pure-Python path (`get_mapping(..., _cython=False)` for queries) and through
the compiled Lean model; mappings are compared as sorted MULTISETS of sorted pairs (duplicates visible).  The compatibility
tables the model needs (`q_atom == t_atom`, `q_bond == t_bond`) are evaluated with the real `__eq__` methods, so nothing
here depends on C08.  The linearisation of the real `_compile_query` is checked relationally (R) by the proved Lean checker
`checkCompiled`, so a rewrite that visits neighbours in another order is still accepted.

Stereo: `Model/IsoStereo.lean` mirrors the post-filter of `QueryIsomorphism.get_mapping`, `get_fast_mapping` and the
`match_stereo=True` glue; `GS`/`FM`/`MS`/`IC` requests compare them with the real code (exception classes included) and apply the
proved checker `isoCheck` to the real `get_fast_mapping` output.

Search: an independent reference enumerator (plain backtracking over the declarative conditions; on targets <= 9 atoms
additionally all injections) run against the real code only.
"""
import itertools
import re

from .. import core, molgen, wire

LEVEL = 'proof'
LEVEL_TEXT = ('The matcher is modelled function by function in Lean (query linearisation, explicit-stack search with truncation and '
              'exact closure-set test, component assignment via permutations, scope, lazy product, dict merge, automorphism filter, '
              'operators) and the WHOLE call is proved exact: for all well-formed patterns/targets, all scopes and all compatibility '
              'relations, get_mapping terminates normally and returns, without duplicates, exactly the maps satisfying the '
              'declarative specification IsEmbedding (get_mapping_exact), one per image set with the filter (get_mapping_filtered); '
              'the DFS compiler, the stack machine (= recursive enumerator), lazy_product and permutations each have their own '
              'theorem. The model is tied to the working tree by differential execution against the real pure-Python matcher on '
              'structured cases compared as multisets, with atom/bond compatibility evaluated by the model from attributes. The stereo '
              'post-filter of QueryIsomorphism.get_mapping is modelled statement by statement on top of property C12\'s sign-translation '
              'model and proved: it only removes mappings (sub-list, order kept), keeps exactly the embeddings on which every marked '
              'atom / bond passes, passes = label xor permutation parity (tetrahedron) resp. flip rule (double bond, allene) equals the '
              'mark, leaves mark-free queries untouched (get_mapping_stereo_exact), is invariant under mark-preserving automorphisms; '
              'get_fast_mapping / match_stereo glue are modelled, the real get_fast_mapping output is checked by a proved isomorphism '
              'checker. Proof is the right level because the property is a universally quantified statement about a search algorithm.')
LEVEL_NOTE = ('Trusted: the hand transcription Model/Iso.lean (validated by K, not derived from the Python text), the harness '
              '(wire encoding, canonicalisation, compatibility tables computed with the real __eq__), Lean kernel. Atom/bond '
              'equality semantics are parameters (C08). The target\'s stereo tables (stereogenic_*, _stereo_*_terminals) and the SMILES atom '
              'orders / whole-molecule equality used by get_fast_mapping are inputs read from the real objects (C12 / C02 territory). '
              'The Cython matcher is outside the model (its result is compared with the python path).')
TECHNIQUE = 'Lean 4 theorems about an executable model of the matcher and of the stereo post-filter + differential execution model vs real get_mapping (multisets, exception classes) + proved relational checkers (query linearisation, get_fast_mapping output) + independent stereo oracle'
RULE = ('cases = (pattern, target, automorphism_filter, scope): patterns cut from the target (induced and with a ring bond removed), '
        'fragments from other molecules, every SMARTS literal found in the repo source, multi-component patterns and targets, '
        'random/empty/partial scopes, exhaustive small graphs, automorphism groups, lazy_product/permutations on random lists; '
        'stereo-marked SMARTS (@, @@, / and \\: tetrahedra with 4/3/2 listed neighbours, double bonds, cumulenes, allenes) and marked queries '
        'cut from labelled molecules against labelled targets, mirror images, E/Z partners and unlabelled molecules; labelled '
        'molecule pairs through match_stereo=True and get_fast_mapping; '
        'a case is non-trivial when the target has at least one root candidate for the pattern; distinct by the full wire line')
TRUSTED = ['Model/Iso.lean and Model/IsoStereo.lean are hand transcriptions of isomorphism.py/_functions.py (validated by correspondence)',
           'Model/Stereo.lean (property C12) for the sign translation; the stereo tables of the target are read from the real object',
           'harness/props/c07.py: wire encoding, compatibility tables via the real __eq__, multiset canonicalisation',
           'Spec/Embedding.lean written from the property statement']
ASSUMPTIONS = ['generators share no mutable state, so a generator is modelled as the list of what it yields',
               'graphs are well-formed (symmetric adjacency, no loops) — checked by the driver on every case',
               'connected_components order is taken from the real code (CPython set order is not modelled); its being the '
               'component partition is re-checked by the Lean checker on every case']
HAS_DRIVER = True
EXTRA_MODULES = []
FINDINGS_MODULE = 'ChythonModel.Findings.C07'
SEARCH_ALWAYS_IN_THOROUGH = True

_state = {'suspects': []}


# ------------------------------------------------------------------------------------------------
# building blocks
# ------------------------------------------------------------------------------------------------

def rebuild(mol):
    """same `_atoms`/`_bonds` dict orders through the wire format; labels recomputed (what a replay will see)"""
    m, _ = wire.ints_to_mol(wire.mol_to_ints(mol), calc=True)
    return m


def use_pattern(p, tints, k=3):
    """run a search with the pattern (fills whatever the pattern object caches); results are thrown away"""
    t = make_target(tints)
    kw = {'_cython': False} if is_query(p) else {}
    for af in (True, False):
        list(itertools.islice(p.get_mapping(t, automorphism_filter=af, **kw), k))
    try:
        p.is_substructure(t)
    except Exception:
        pass


def run_history(steps):
    """A pattern OBJECT with a past: built, used in searches, then copied / joined / edited through the public API.
    steps: ['new', spec] ['use', target_ints] ['copy'] ['or', spec] ['ior', spec] ['union', spec] ['add_atom', symbol]
           ['add_bond', n, m, order] ['delete_bond', n, m] ['delete_atom', n] ['remap', [[old, new], ...]]"""
    p = None
    for st in steps:
        op = st[0]
        if op == 'new':
            p = make_pattern(st[1]) if isinstance(st[1], dict) else make_target(st[1])
        elif op == 'use':
            use_pattern(p, st[1])
        elif op == 'searched':      # the object is the TARGET of a search
            q = make_pattern(st[1])
            kw = {'_cython': False} if is_query(q) else {}
            for af in (True, False):
                list(itertools.islice(q.get_mapping(p, automorphism_filter=af, **kw), 3))
        elif op == 'touch':         # fill the caches other uses of the object fill (printing, components, rings, orders)
            for attr in ('connected_components', 'sssr', 'atoms_order', 'rings_count', '_compiled_query',
                         '_cython_compiled_structure', 'connected_components_count', 'stereogenic_tetrahedrons',
                         'stereogenic_allenes', 'stereogenic_cis_trans', '_stereo_cis_trans_terminals', '_stereo_allenes_terminals',
                         '_stereo_cis_trans_centers', '_chiral_morgan', 'smiles_atoms_order'):
                try:
                    getattr(p, attr)
                except Exception:
                    pass
            try:
                str(p)
            except Exception:
                pass
        elif op == 'copy':
            p = p.copy()
        elif op == 'or':
            p = p | make_pattern(st[1])
        elif op == 'ior':
            p |= make_pattern(st[1])
        elif op == 'union':
            p = p.union(make_pattern(st[1]), remap=True)
        elif op == 'add_atom':
            p.add_atom(st[1])
        elif op == 'add_bond':
            p.add_bond(st[1], st[2], st[3])
        elif op == 'delete_bond':
            p.delete_bond(st[1], st[2])
        elif op == 'delete_atom':
            p.delete_atom(st[1])
        elif op == 'remap':
            p.remap({a: b for a, b in st[1]})
        else:
            raise ValueError(op)
    return p


def make_pattern(spec):
    """spec: {'mol': [ints]} | {'smarts': str} | {'hist': [steps]} -> container"""
    if 'hist' in spec:
        return run_history(spec['hist'])
    if 'smarts' in spec:
        from chython import smarts
        return smarts(spec['smarts'])
    if 'qmol' in spec:
        return query_from_mol(spec['qmol'])
    m, _ = wire.ints_to_mol(spec['mol'], calc=True)
    return m


def query_from_mol(d):
    """A QueryContainer assembled through the public API from a molecule fragment: {'mol': wire ints, 'atoms': [n...] (insertion
    order), 'bonds': [[n, m]...] (insertion order), 'amarks': [[n, 0|1]...], 'bmarks': [[n, m, 0|1]...], 'any': [n...]}.
    Atoms become QueryElement.from_atom (element, charge, radical, isotope), atoms listed in 'any' become AnyElement; bonds
    QueryBond.from_bond; the stereo marks are set as given (they are read relative to the query's own neighbour order)."""
    from chython import QueryContainer
    from chython.containers.bonds import QueryBond
    from chython.periodictable import QueryElement, AnyElement
    m, _ = wire.ints_to_mol(d['mol'], calc=True)
    q = QueryContainer('')
    am = {n: bool(v) for n, v in d.get('amarks', [])}
    bm = {(n, k): bool(v) for n, k, v in d.get('bmarks', [])}
    wild = set(d.get('any', []))
    for n in d['atoms']:
        a = m._atoms[n]
        qa = AnyElement() if n in wild else QueryElement.from_atom(a)
        if n in am:
            qa.stereo = am[n]
        q.add_atom(qa, n)
    for n, k in d['bonds']:
        qb = QueryBond.from_bond(m._bonds[n][k])
        if (n, k) in bm or (k, n) in bm:
            qb.stereo = bm.get((n, k), bm.get((k, n)))
        q.add_bond(n, k, qb)
    return q


def make_target(ints):
    """ints (wire format) | {'hist': steps} — a target molecule with a past (searched, then edited through the public API)"""
    if isinstance(ints, dict):
        return run_history(ints['hist'])
    m, _ = wire.ints_to_mol(ints, calc=True)
    return m


def target_key(t):
    return repr(t) if isinstance(t, dict) else tuple(t)


def raw_mol_ints(atoms, bonds):
    """wire ints of a molecule given as plain data: atoms [(z, isotope|0, charge, radical)] numbered 1.., bonds [(i, j, order)];
    no valence check (the matcher does not need one), implicit H unknown"""
    adj = {i: [] for i in range(1, len(atoms) + 1)}
    for i, j, o in bonds:
        adj[i].append((j, o))
        adj[j].append((i, o))
    out = [len(atoms)]
    for n, (z, iso, ch, rad) in enumerate(atoms, 1):
        out += [n, z, iso or 0, ch, int(bool(rad)), -1, -1, len(adj[n])]
        for m, o in adj[n]:
            out += [m, o, -1]
    return out


def atom_fields(ints):
    """offsets of the per-atom records in a wire int list: {atom id: offset of `id`}"""
    offs, i = {}, 1
    for _ in range(ints[0]):
        offs[ints[i]] = i
        i += 8 + 3 * ints[i + 7]
    return offs


def perturbed_targets(rng, tints, atom):
    """the same target with ONE attribute of `atom` changed (radical toggled, charge +-1, another isotope): what every
    atom comparison must be sensitive to. Variants the container cannot hold are dropped."""
    off = atom_fields(tints)[atom]
    z, iso, ch, rad = tints[off + 1], tints[off + 2], tints[off + 3], tints[off + 4]
    variants = [('radical', off + 4, 1 - rad), ('charge', off + 3, ch + 1 if ch < 3 else ch - 1),
                ('charge', off + 3, ch - 1 if ch > -3 else ch + 1)]
    try:
        from chython.periodictable import Element
        isos = sorted(Element.from_atomic_number(z)().isotopes_distribution)
        others = [i for i in isos if i != iso]
        if others:
            variants.append(('isotope', off + 2, rng.choice(others)))
        if iso:
            variants.append(('isotope', off + 2, 0))
    except Exception:
        pass
    for what, pos, val in variants:
        v = list(tints)
        v[pos] = val
        try:
            make_target(v)
        except Exception:
            continue
        yield what, v


def instantiate(q, rng=None):
    """A molecule drawn FROM a query so that the query has a chance to match it (selection of inputs only): one element of
    every atom's list, its charge / radical / isotope, the first allowed bond order, extra carbon / nitrogen neighbours up to the
    requested neighbour and heteroatom counts, the requested implicit hydrogens. Returns wire ints or None."""
    from chython.periodictable import AnyElement, AnyMetal, ListElement, QueryElement, Element
    atoms, bonds, idx = [], [], {}
    hyd = {}
    for n, a in q._atoms.items():
        if isinstance(a, AnyMetal):
            z, iso, ch, rad = 26, 0, 0, False
        elif isinstance(a, Element):
            z, iso, ch, rad = a.atomic_number, a.isotope or 0, a.charge, a.is_radical
        else:
            if isinstance(a, ListElement):
                z = a.atomic_numbers[0]
            elif isinstance(a, QueryElement):
                z = a.atomic_number
            else:
                z = 6
            iso, ch, rad = (getattr(a, 'isotope', None) or 0), a.charge, a.is_radical
        atoms.append((z, iso, ch, rad))
        idx[n] = len(atoms)
        hs = getattr(a, 'implicit_hydrogens', ())
        hyd[idx[n]] = (hs or 0) if isinstance(a, Element) else (hs[0] if hs else 0)
    for n, m, b in bond_list(q):
        o = b.order[0] if isinstance(b.order, tuple) else b.order
        bonds.append((idx[n], idx[m], o))
    deg = {i: 0 for i in range(1, len(atoms) + 1)}
    het = {i: 0 for i in deg}
    for i, j, o in bonds:
        if o != 8:
            deg[i] += 1
            deg[j] += 1
            if atoms[j - 1][0] not in (1, 6):
                het[i] += 1
            if atoms[i - 1][0] not in (1, 6):
                het[j] += 1
    for n, a in q._atoms.items():
        i = idx[n]
        if isinstance(a, Element):
            continue
        want_n = [k for k in getattr(a, 'neighbors', ()) if k >= deg[i]]
        want_x = [k for k in getattr(a, 'heteroatoms', ()) if k >= het[i]]
        extra = (want_n[0] - deg[i]) if want_n else 0
        extra_het = (want_x[0] - het[i]) if want_x else 0
        extra = max(extra, extra_het) if want_x and not want_n else extra
        for k in range(extra):
            atoms.append((7 if k < extra_het else 6, 0, 0, False))
            bonds.append((i, len(atoms), 1))
            hyd[len(atoms)] = 3 if k >= extra_het else 2
    ints = raw_mol_ints(atoms, bonds)
    offs = atom_fields(ints)
    for i, h in hyd.items():
        ints[offs[i] + 5] = h
    try:
        make_target(ints)
    except Exception:
        return None
    return ints


def is_query(p):
    from chython.containers import QueryContainer
    return isinstance(p, QueryContainer)


def has_query_stereo(p):
    from chython.periodictable import ExtendedQuery
    for _, a in p.atoms():
        if isinstance(a, ExtendedQuery) and a.stereo is not None:
            return True
    return any(b.stereo is not None for _, _, b in p.bonds())


def real_mappings(p, t, af, scope, accelerated=False):
    kw = {'automorphism_filter': af}
    if scope is not None:
        kw['searching_scope'] = list(scope)
    if is_query(p):
        kw['_cython'] = bool(accelerated)
    return [dict(m) for m in p.get_mapping(t, **kw)]


_accel = {'ok': None}


def install_accelerated():
    """the translated `_isomorphism.pyx` (pyx2py rendering of the working tree) as `chython.algorithms._isomorphism`"""
    if _accel['ok'] is None:
        try:
            from ..gen import pyx2py
            pyx2py.install()
            from chython.algorithms._isomorphism import get_mapping  # noqa: F401
            _accel['ok'] = True
        except Exception as e:
            _accel['ok'] = False
            _accel['why'] = f'{type(e).__name__}: {e}'
    return _accel['ok']


def accel_domain(p, t):
    """inside the documented domain of the bit-mask matcher (its recorded gaps belong to C09): elements <= 116, query hydrogen
    counts <= 4, ring sizes <= 65, known hydrogen counts wherever the query constrains them, isotopes within the window"""
    from chython.periodictable import AnyMetal
    h_constrained = False
    for a in p._atoms.values():
        if isinstance(a, AnyMetal):
            continue
        if any(h > 4 for h in a.implicit_hydrogens) or any(r > 65 for r in a.ring_sizes):
            return False
        if getattr(a, 'atomic_number', 0) > 116 or any(z > 116 for z in getattr(a, 'atomic_numbers', ())):
            return False
        if getattr(a, 'isotope', None) and abs(a.isotope - a.mdl_isotope) > 8:
            return False
        h_constrained = h_constrained or bool(a.implicit_hydrogens)
    for a in t._atoms.values():
        if a.atomic_number > 116 or (a.implicit_hydrogens or 0) > 4 or a.neighbors > 14 or a.heteroatoms > 14:
            return False
        if a.isotope and abs(a.isotope - a.mdl_isotope) > 8:
            return False
        if h_constrained and a.implicit_hydrogens is None:
            return False
        if any(r > 65 for r in a.ring_sizes) or abs(a.charge) > 4:
            return False
    return True


def canon(ms):
    return sorted(tuple(sorted(m.items())) for m in ms)


def outcome(fn):
    """ok | lib:<ErrorClass> | crash:<ExcType>"""
    try:
        return 'ok', fn()
    except Exception as e:  # noqa
        mod = type(e).__module__ or ''
        return ('lib:' if mod.startswith('chython') else 'crash:') + type(e).__name__, None


def graph_ints(atoms, bonds):
    out = [len(atoms)]
    for n in atoms:
        ms = list(bonds[n])
        out += [n, len(ms)] + ms
    return out


def bond_list(g):
    seen, out = set(), []
    for n, ms in g._bonds.items():
        for m, b in ms.items():
            if (m, n) not in seen:
                seen.add((n, m))
                out.append((n, m, b))
    return out


def compat_tables(p, t):
    """atomOk rows and bond classes, evaluated with the real `__eq__` (pattern object on the left, as the matcher does)"""
    rows = []
    tatoms = list(t._atoms.items())
    for n, a in p._atoms.items():
        ok = [x for x, b in tatoms if a == b]
        rows.append(ok)
    pb, tb = bond_list(p), bond_list(t)
    cols = {}
    tcls = []
    for x, y, b in tb:
        col = tuple(bool(qb == b) for _, _, qb in pb)
        c = cols.setdefault(col, len(cols))
        tcls.append((x, y, c))
    inv = {c: col for col, c in cols.items()}
    pcls = []
    for i, (u, v, _) in enumerate(pb):
        pcls.append((u, v, [c for c in sorted(inv) if inv[c][i]]))
    return rows, pcls, tcls


def gm_line(p, t, af, scope, comps=None):
    rows, pcls, tcls = compat_tables(p, t)
    out = [int(bool(af))]
    if scope is None:
        out.append(-1)
    else:
        sc = list(dict.fromkeys(scope))
        out += [len(sc)] + sc
    out += graph_ints(list(p._atoms), p._bonds)
    out += graph_ints(list(t._atoms), t._bonds)
    comps = [sorted(c) for c in (t.connected_components if comps is None else comps)]
    out.append(len(comps))
    for c in comps:
        out += [len(c)] + c
    for r in rows:
        out += [len(r)] + r
    out.append(len(pcls))
    for u, v, cs in pcls:
        out += [u, v, len(cs)] + cs
    out.append(len(tcls))
    for x, y, c in tcls:
        out += [x, y, c]
    return 'GM ' + ' '.join(map(str, out)), any(rows[0]) if rows else False


def L(xs):
    xs = list(xs)
    return [len(xs)] + xs


def enc_patom(a):
    """pattern atom attributes (never the result of a comparison); None if the class is not one the model knows"""
    from chython.periodictable import AnyElement, AnyMetal, ListElement, QueryElement, Element
    if isinstance(a, Element):
        return [0, a.atomic_number, -1 if a.isotope is None else a.isotope, a.charge, int(a.is_radical)]
    if isinstance(a, AnyMetal):
        return [4, 0, 0] + L(a.neighbors) + L(a.hybridization) + [0, 0, 0]
    if isinstance(a, AnyElement):
        head = [2]
    elif isinstance(a, ListElement):
        head = [3] + L(a.atomic_numbers)
    elif isinstance(a, QueryElement):
        head = [1, a.atomic_number, -1 if a.isotope is None else a.isotope]
    else:
        return None
    return head + [a.charge, int(a.is_radical)] + L(a.neighbors) + L(a.hybridization) + L(a.ring_sizes) \
        + L(a.implicit_hydrogens) + L(a.heteroatoms)


def enc_tatom(a):
    h = a.implicit_hydrogens
    return [a.atomic_number, -1 if a.isotope is None else a.isotope, a.charge, int(a.is_radical), a.neighbors, a.hybridization] \
        + L(sorted(a.ring_sizes)) + [-1 if h is None else h, a.heteroatoms]


def enc_pbond(b):
    from chython.containers.bonds import Bond, QueryBond
    if isinstance(b, QueryBond):
        r = b.in_ring
        return [1] + L(b.order) + [-1 if r is None else int(bool(r))]
    if isinstance(b, Bond):
        return [0, b.order]
    return None


def ga_line(p, t, af, scope):
    """attribute mode: the Lean side evaluates `q_atom == t_atom` / `q_bond == t_bond` itself (Model/IsoCompat + Model/QueryEq)"""
    from chython.containers.bonds import Bond
    out = [int(bool(af))]
    if scope is None:
        out.append(-1)
    else:
        sc = list(dict.fromkeys(scope))
        out += [len(sc)] + sc
    out += graph_ints(list(p._atoms), p._bonds)
    out += graph_ints(list(t._atoms), t._bonds)
    comps = [sorted(c) for c in t.connected_components]
    out.append(len(comps))
    for c in comps:
        out += [len(c)] + c
    for a in p._atoms.values():
        e = enc_patom(a)
        if e is None:
            return None
        out += e
    for a in t._atoms.values():
        out += enc_tatom(a)
    pb, tb = bond_list(p), bond_list(t)
    out.append(len(pb))
    for u, v, b in pb:
        e = enc_pbond(b)
        if e is None:
            return None
        out += [u, v] + e
    out.append(len(tb))
    for x, y, b in tb:
        if not isinstance(b, Bond):
            return None
        out += [x, y, b.order, int(bool(b.in_ring))]
    return 'GA ' + ' '.join(map(str, out))


def tri(v):
    return -1 if v is None else int(bool(v))


def opt(v):
    return -1 if v is None else v


def gs_line(p, t, af, scope):
    """GA payload + the query's stereo marks + what the post-filter reads of the target (labels and the stereo tables of the
    REAL target: `stereogenic_*`, `_stereo_*_terminals`, `_stereo_cis_trans_centers` — property C12's territory, inputs here)"""
    from chython.periodictable import ExtendedQuery
    ga = ga_line(p, t, af, scope)
    if ga is None:
        return None
    out = [tri(a.stereo) if isinstance(a, ExtendedQuery) else -1 for a in p._atoms.values()]
    bm = [(n, m, int(b.stereo)) for n, m, b in bond_list(p) if getattr(b, 'stereo', None) is not None]
    out.append(len(bm))
    for n, m, v in bm:
        out += [n, m, v]
    for a in t._atoms.values():
        out += [tri(a.stereo), int(a.atomic_number == 1)]
    tb = bond_list(t)
    out.append(len(tb))
    for x, y, b in tb:
        out += [x, y, tri(b.stereo)]
    st = t.stereogenic_tetrahedrons
    out.append(len(st))
    for n, order in st.items():
        out += [n] + L(order)
    sa, sat = t.stereogenic_allenes, t._stereo_allenes_terminals
    out.append(len(sa))
    for c, (n0, n1, n2, n3) in sa.items():
        t1, t2 = sat[c]
        out += [c, n0, n1, opt(n2), opt(n3), t1, t2]
    sc = t.stereogenic_cis_trans
    out.append(len(sc))
    for (a, b), (n0, n1, n2, n3) in sc.items():
        out += [a, b, n0, n1, opt(n2), opt(n3)]
    for tbl in (t._stereo_cis_trans_terminals, t._stereo_cis_trans_centers):
        out.append(len(tbl))
        for n, (a, b) in tbl.items():
            out += [n, a, b]
    return 'GS ' + ga[3:] + ' ' + ' '.join(map(str, out))


def parse_dicts(body):
    body = body.strip()
    if not body:
        return []
    res = []
    for part in body.split('|'):
        xs = list(map(int, part.split()))
        res.append(dict(zip(xs[0::2], xs[1::2])))
    return res


def parse_gm(resp):
    """-> (status, flags, mappings)"""
    if not resp.startswith('ok '):
        return resp.split()[0], dict(re.findall(r'(\w+)=(\d+)', resp)), None
    head, _, body = resp.partition(':')
    flags = dict(re.findall(r'(\w+)=(\d+)', head))
    ms = parse_dicts(body)
    # an empty-dict mapping prints as an empty part; recover the count
    n = int(flags.get('n', len(ms)))
    if n != len(ms) and not body.strip():
        ms = [{} for _ in range(n)]
    return 'ok', flags, ms


# ------------------------------------------------------------------------------------------------
# independent reference (used by search/probe only; never consults the Lean model)
# ------------------------------------------------------------------------------------------------

def own_components(bonds):
    comp, k = {}, 0
    for s in bonds:
        if s in comp:
            continue
        comp[s] = k
        st = [s]
        while st:
            x = st.pop()
            for y in bonds[x]:
                if y not in comp:
                    comp[y] = k
                    st.append(y)
        k += 1
    return comp


NOT_METAL = {1, 2, 5, 6, 7, 8, 9, 10, 14, 15, 16, 17, 18, 32, 33, 34, 35, 36, 51, 52, 53, 54, 85, 86, 118}
# written from the periodic table: the elements that form ordinary covalent single bonds (H B C N O F Si P S Cl Ge As Se Br
# Sb Te I At) and the noble gases; everything else is a "metal" for the `M` query atom


class Independent:
    """Atom / bond compatibility judged WITHOUT calling any `__eq__` of the library: from the documented meaning of the
    query attributes and from attributes of the target recomputed here (neighbour / heteroatom counts, hybridisation, ring
    membership of bonds = the bond lies on a cycle). Ring sizes of atoms and implicit hydrogens are read as labels."""

    def __init__(self, t):
        self.t = t
        bonds = t._bonds
        self.adj = {n: [m for m, b in ms.items() if b.order != 8] for n, ms in bonds.items()}
        self._ring = {}
        self._attrs = {}

    def bond_in_ring(self, x, y):
        key = (x, y) if x < y else (y, x)
        if key not in self._ring:
            if self.t._bonds[x][y].order == 8:
                self._ring[key] = False
            else:
                seen, st, found = {x}, [x], False
                while st and not found:
                    a = st.pop()
                    for b in self.adj[a]:
                        if {a, b} == {x, y}:
                            continue
                        if b == y:
                            found = True
                            break
                        if b not in seen:
                            seen.add(b)
                            st.append(b)
                self._ring[key] = found
        return self._ring[key]

    def attrs(self, x):
        if x not in self._attrs:
            atoms, bonds = self.t._atoms, self.t._bonds
            a = atoms[x]
            orders = [b.order for b in bonds[x].values() if b.order != 8]
            if 4 in orders:
                hyb = 4
            elif 3 in orders or orders.count(2) >= 2:
                hyb = 3
            elif orders.count(2) == 1:
                hyb = 2
            else:
                hyb = 1
            nb = [m for m, b in bonds[x].items() if b.order != 8]
            self._attrs[x] = dict(z=a.atomic_number, isotope=a.isotope, charge=a.charge, radical=a.is_radical,
                                  neighbors=len(nb), hetero=sum(1 for m in nb if atoms[m].atomic_number not in (1, 6)),
                                  hyb=hyb, h=a.implicit_hydrogens, rings=set(a.ring_sizes))
        return self._attrs[x]

    def atom(self, pa, x):
        from chython.periodictable import AnyElement, AnyMetal, ListElement, QueryElement, Element
        ta = self.attrs(x)
        if isinstance(pa, Element):
            return (pa.atomic_number == ta['z'] and pa.isotope == ta['isotope'] and pa.charge == ta['charge']
                    and pa.is_radical == ta['radical'])
        if pa.neighbors and ta['neighbors'] not in pa.neighbors:
            return False
        if pa.hybridization and ta['hyb'] not in pa.hybridization:
            return False
        if isinstance(pa, AnyMetal):
            return ta['z'] not in NOT_METAL
        if isinstance(pa, ListElement):
            if ta['z'] not in pa.atomic_numbers:
                return False
        elif isinstance(pa, QueryElement):
            if pa.atomic_number != ta['z']:
                return False
            if pa.isotope and pa.isotope != ta['isotope']:
                return False
        elif not isinstance(pa, AnyElement):
            raise TypeError('pattern atom class outside the oracle')
        if pa.charge != ta['charge'] or pa.is_radical != ta['radical']:
            return False
        if pa.ring_sizes:
            if pa.ring_sizes[0] == 0:
                if ta['rings']:
                    return False
            elif not (set(pa.ring_sizes) & ta['rings']):
                return False
        if pa.implicit_hydrogens and ta['h'] not in pa.implicit_hydrogens:
            return False
        if pa.heteroatoms and ta['hetero'] not in pa.heteroatoms:
            return False
        return True

    def bond(self, pb, x, y):
        from chython.containers.bonds import QueryBond
        tb = self.t._bonds[x][y]
        if isinstance(pb, QueryBond):
            if tb.order not in pb.order:
                return False
            return pb.in_ring is None or bool(pb.in_ring) == self.bond_in_ring(x, y)
        return pb.order == tb.order


def inversions_odd(seq):
    return sum(1 for i in range(len(seq)) for j in range(i + 1, len(seq)) if seq[i] > seq[j]) % 2 == 1


def stereo_reference_ok(p, t, f):
    """Independent judgement of the stereo clause for ONE embedding `f` (documented meaning of the marks, own parity / flip
    arithmetic; of the library only the target's labels and its reference orders `stereogenic_*` are read, as data):
    True / False, or None when the case is outside what the documentation defines (a marked atom listing fewer than three
    neighbours, a listed neighbour the reference order does not know, substituents that are not mapped, ...)."""
    from chython.periodictable import ExtendedQuery
    rev = {x: u for u, x in f.items()}
    verdict = True
    for u, a in p._atoms.items():
        if not isinstance(a, ExtendedQuery) or a.stereo is None:
            continue
        x = f[u]
        label = t._atoms[x].stereo
        if label is None:
            return False                                  # "stereo in query should match only stereo atom"
        order = t.stereogenic_tetrahedrons.get(x)
        if order is not None:
            ref = list(order)
            env = [f[v] for v in p._bonds[u]]
            if len(ref) == 3:                             # hydrogen (implicit or explicit) is last in the reference order
                hs = [y for y in t._bonds[x] if t._atoms[y].atomic_number == 1]
                ref.append(hs[0] if hs else 'H')
            if len(env) == 3 and all(e in ref for e in env) and len(set(env)) == 3:
                env = env + [y for y in ref if y not in env]      # the unlisted neighbour counts as last
            if len(env) != 4 or sorted(map(str, env)) != sorted(map(str, ref)):
                return None
            if len(order) == 3 and len(p._bonds[u]) == 3 and any(t._atoms[y].atomic_number == 1 for y in env if y != 'H'):
                return None                               # an explicit hydrogen listed among three: not defined by the library
            odd = inversions_odd([ref.index(e) for e in env])
            if (label != odd) != a.stereo:
                verdict = False
            continue
        ends = t.stereogenic_allenes.get(x)
        if ends is None:
            return None
        r = ends_verdict(p, t, f, rev, t._stereo_allenes_terminals[x], ends, label, a.stereo)
        if r is None:
            return None
        verdict = verdict and r
    for u, v, b in bond_list(p):
        if getattr(b, 'stereo', None) is None:
            continue
        x, y = f[u], f[v]
        tb = t._bonds[x].get(y)
        if tb is None:
            return None
        if tb.stereo is None:
            return False                                  # "chiral query bond matches only chiral molecule bond"
        term = t._stereo_cis_trans_terminals.get(x)
        if term is None or term not in t.stereogenic_cis_trans:
            return None
        r = ends_verdict(p, t, f, rev, term, t.stereogenic_cis_trans[term], tb.stereo, b.stereo)
        if r is None:
            return None
        verdict = verdict and r
    return verdict


def ends_verdict(p, t, f, rev, term, ends, label, mark):
    """double bond / allene: the mark is read relative to the FIRST listed substituent (in the query's neighbour order) of each
    terminal query atom; the label relative to the reference pair (slots 0 and 1); exchanging the substituent at exactly one end
    inverts"""
    a, b = term
    n0, n1, n2, n3 = ends
    if a not in rev or b not in rev:
        return None
    first_end = {n0: 0}
    if n2 is not None:
        first_end[n2] = 2
    last_end = {n1: 1}
    if n3 is not None:
        last_end[n3] = 3
    both = {**first_end, **last_end}
    sa = next((v for v in p._bonds[rev[a]] if f[v] in both), None)
    sb = next((v for v in p._bonds[rev[b]] if f[v] in both), None)
    if sa is None or sb is None or f[sa] not in first_end or f[sb] not in last_end:
        return None
    flip = (first_end[f[sa]] >= 2) != (last_end[f[sb]] >= 2)
    return (label != flip) == mark


def fresh_copy(t):
    """the same atoms and bonds as a new object whose labels are computed from scratch (an edited object may carry stale ones)"""
    try:
        return rebuild(t)
    except Exception:
        return t


def reference_embeddings(p, t, scope, budget=2_000_000):
    """all maps f: pattern atoms -> target atoms with: injective; atom match; every pattern bond matches the image bond;
    no additional target bond between images of atoms of one pattern component; different pattern components in
    different target components; image inside the scope (if a scope is given)."""
    pa, ta = p._atoms, t._atoms
    pbn, tbn = p._bonds, t._bonds
    pcomp, tcomp = own_components(pbn), own_components(tbn)
    ind = Independent(fresh_copy(t))
    order = list(pa)
    allowed = set(ta) if scope is None else set(scope) & set(ta)
    cand = {u: [x for x in ta if x in allowed and ind.atom(pa[u], x)] for u in order}
    res, f, used = [], {}, set()
    nodes = [0]

    def ok(u, x):
        for v, y in f.items():
            pb = pbn[u].get(v)
            tb = tbn[x].get(y)
            if pb is not None:
                if tb is None or not ind.bond(pb, x, y):
                    return False
            elif pcomp[u] == pcomp[v]:
                if tb is not None:
                    return False
            if pcomp[u] != pcomp[v] and tcomp[x] == tcomp[y]:
                return False
            if pcomp[u] == pcomp[v] and tcomp[x] != tcomp[y]:
                return False  # a connected pattern component cannot span target components (implied; prunes)
        return True

    def rec(i):
        nodes[0] += 1
        if nodes[0] > budget:
            raise OverflowError('reference budget')
        if i == len(order):
            res.append(dict(f))
            return
        u = order[i]
        for x in cand[u]:
            if x not in used and ok(u, x):
                f[u] = x
                used.add(x)
                rec(i + 1)
                del f[u]
                used.discard(x)

    if order:
        rec(0)
    return res


def all_injections_embeddings(p, t, scope):
    """literal all-injections reference for tiny cases (cross-check of `reference_embeddings`)"""
    pa, ta = p._atoms, t._atoms
    pbn, tbn = p._bonds, t._bonds
    pcomp, tcomp = own_components(pbn), own_components(tbn)
    ind = Independent(fresh_copy(t))
    us = list(pa)
    xs = [x for x in ta if scope is None or x in set(scope)]
    res = []
    for img in itertools.permutations(xs, len(us)):
        f = dict(zip(us, img))
        good = all(ind.atom(pa[u], f[u]) for u in us)
        if good:
            for u, v in itertools.combinations(us, 2):
                pb, tb = pbn[u].get(v), tbn[f[u]].get(f[v])
                if pb is not None and (tb is None or not ind.bond(pb, f[u], f[v])):
                    good = False
                elif pb is None and tb is not None and pcomp[u] == pcomp[v]:
                    good = False
                elif pcomp[u] != pcomp[v] and tcomp[f[u]] == tcomp[f[v]]:
                    good = False
                if not good:
                    break
        if good:
            res.append(f)
    return res


def property_check(p, t, scope, ops=True, accelerated=False, p_ref=None):
    """Run the real code on (p, t, scope) for both filter settings (+ operators) and compare with the reference.
    Returns (fails, signature, what)."""
    eff_scope = scope
    pr = p if p_ref is None else p_ref   # what the pattern object DENOTES (a used-and-copied pattern denotes the pattern it was built as)
    try:
        ref_all = reference_embeddings(pr, t, eff_scope)
    except OverflowError:
        return False, None, 'reference budget exceeded'
    stereo_q = is_query(pr) and (has_query_stereo(pr) or has_query_stereo(p))
    if stereo_q:
        verdicts = [stereo_reference_ok(pr, t, m) for m in ref_all]
        if any(v is None for v in verdicts):
            return False, None, 'a stereo mark whose meaning the documentation does not define for this embedding (outside the oracle)'
        ref_all = [m for m, v in zip(ref_all, verdicts) if v]
    ref = canon(ref_all)
    if len(p._atoms) == 0:
        return False, None, 'empty pattern (outside the domain)'
    if len(t._atoms) <= 7 and len(pr._atoms) <= 5 and not stereo_q:
        lit = canon(all_injections_embeddings(pr, t, eff_scope))
        if lit != ref:
            return False, None, 'reference enumerators disagree (oracle problem, not reported)'
    if accelerated:
        if not is_query(p) or not accel_domain(p, t):
            return False, None, 'outside the domain of the accelerated matcher'
        install_accelerated()
        ops = False
    st, got = outcome(lambda: canon(real_mappings(p, t, False, scope, accelerated)))
    if st != 'ok':
        return True, f'C07/raises/{st}', f'get_mapping raised {st}'
    if got != ref:
        extra = [m for m in got if m not in ref]
        missing = [m for m in ref if m not in got]
        dup = len(got) != len(set(got))
        empty_scope = scope is not None and len(list(scope)) == 0
        if empty_scope:
            return True, 'C07/scope/empty-scope-ignored', (f'empty searching_scope: {len(got)} mappings returned, '
                                                           f'{len(ref)} embeddings lie inside the scope')
        kind = 'spurious' if extra else ('duplicate' if dup and not missing else 'missing')
        where = 'accelerated' if accelerated else 'stereo' if stereo_q else 'scope' if scope is not None else 'unfiltered'
        return True, f'C07/{where}/{kind}-mapping', (f'real={len(got)} reference={len(ref)} spurious={extra[:2]} '
                                                      f'missing={missing[:2]} duplicates={dup}')
    st, gotf = outcome(lambda: canon(real_mappings(p, t, True, scope, accelerated)))
    if st != 'ok':
        return True, f'C07/raises/{st}', f'get_mapping(automorphism_filter=True) raised {st}'
    want_sets = sorted({tuple(sorted(dict(m).values())) for m in ref})
    got_sets = sorted(tuple(sorted(dict(m).values())) for m in gotf)
    if stereo_q and all(m in ref for m in gotf) and len(set(got_sets)) == len(got_sets) and set(got_sets) < set(want_sets):
        return True, 'C07/stereo/automorphism-filter-before-stereo-test', (
            f'automorphism_filter=True returns {len(got_sets)} mappings; the embeddings that pass the stereo test cover '
            f'{len(want_sets)} image sets (automorphism_filter=False returns {len(ref)} mappings): an image set is lost when the '
            f'first representative the search yields fails the stereo test')
    if got_sets != want_sets or any(m not in ref for m in gotf):
        return True, 'C07/filter/not-one-per-image-set', (f'filtered: {len(got_sets)} mappings over {len(set(got_sets))} image sets, '
                                                          f'reference has {len(want_sets)} image sets')
    # the operators of a QUERY go through the accelerated matcher whenever it is importable (`_cython=True` is the default): outside
    # the documented domain of its bit layout (e.g. `h0` against an atom whose hydrogen count is unknown — C09's recorded gap) its
    # answer is not this property's subject
    if ops and scope is None and is_query(p) and not accel_domain(p, t):
        ops = False
    if ops and scope is None:
        exp_sub = bool(ref)
        obs = outcome(lambda: (p <= t, p < t, p.is_equal(t), p.is_substructure(t)))
        if obs[0] != 'ok':
            return True, f'C07/operator/raises/{obs[0]}', 'operator raised'
        le, lt, eq, sub = obs[1]
        want = (exp_sub, exp_sub and len(p) < len(t), exp_sub and len(p) == len(t), exp_sub)
        if (le, lt, eq, sub) != want:
            return True, 'C07/operator/disagrees', f'(<=,<,is_equal,is_substructure)={(le, lt, eq, sub)} expected {want}'
        if not is_query(p) and len(t) <= len(p) + 2:
            try:
                rev = bool(reference_embeddings(t, p, None, budget=300_000))
            except OverflowError:
                rev = None
            if rev is not None:
                obs = outcome(lambda: (p >= t, p > t))
                if obs[0] != 'ok':
                    return True, f'C07/operator/raises/{obs[0]}', 'operator raised'
                want2 = (rev, rev and len(p) > len(t))
                if obs[1] != want2:
                    return True, 'C07/operator/disagrees', f'(>=,>)={obs[1]} expected {want2}'
    return False, None, f'{len(ref)} embeddings, real code agrees'


# ------------------------------------------------------------------------------------------------
# case generators
# ------------------------------------------------------------------------------------------------

def repo_smarts():
    """every `smarts('…')` literal in the library source (rule tables of standardize/aromatics/tautomers/mapping/reactor)"""
    out = []
    for path in sorted((core.REPO / 'chython').rglob('*.py')):
        if '/test' in str(path):
            continue
        try:
            txt = path.read_text()
        except OSError:
            continue
        out += re.findall(r"smarts\('([^']+)'\)", txt)
    return list(dict.fromkeys(out))


HAND_SMARTS = [
    '[C;D2]-[O,N]', '[#6]=[#8]', '[C;r6]', '[C;r5,r6]:[C]', '[N;h2]', '[O;D1;z1]', '[A]=[A]', '[M]', '[C;a]:[N;a]',
    '[C;x1]', '[C;x0;z1]', '[C;!R]', '[C]-;@[C]', '[C]-;!@[C]', '[C]-,=[C]', '[C]!:[C]', '[C]~[C]', '[Cl,Br,I]-[C;a]',
    '[O;-]', '[N;+]', '[C;z2]=[O]', '[C;z3]#[N]', '[C]1[C][C]1', '[C]1[C][C][C]1', '[c]1[c][c][c][c][c]1',
    '[C;D3]([C])([C])[C]', '[C;D4]', '[S;D4]', '[P;D4;x4]', '[N;D3;a]', '[C].[C]', '[O;D1].[N]', '[C;D1][C;D2].[O;D1]',
    '[C:1]-[C:2]', '[C;D1:7][C:3]', '[13C]', '[C;h3]', '[C;h0,h1]', '[A;r3]', '[C;D2;r5;a]', '[N,O;D1][C]=[O]',
    '[C]=[C]-[C]=[C]', '[A]:[A]:[A]', '[C]-,=;!@[C]', '[C]!=;!@[C]', '[C]!#[C]', '[C]=;@[C]', '[C]:;@[C]', '[A]~;!@[A]',
    '[A;D1]', '[A;D2]-[A;D3]', '[A;D3;z1]', '[A;h1]', '[A;x2]', '[A;z2]=[A;x1]', '[C,N;D2]', '[C,N,O;D1;h1,h2,h3]', '[C,N;z2;x0,x1]',
    '[C,O;r6]', '[N,O;!R]', '[M;D1]', '[M;D2,D3]', '[M]-[O,N]', '[A;+]', '[A;-]', '[C,N;+]', '[C;D2;x1;z1;h2]',
    '[N,O]-[C] |^1:0|', '[O]-[C] |^1:0|', '[A]-[C] |^1:0|', '[C,N]-[C,N] |^1:1|', '[O,S;-]-[C]', '[C;+]', '[13C]-[C]',
    '[C]-,=;@[C]', '[C]!-[C]', '[A]!:;@[A]', '[C]-;!@[N,O]', '[C]-;@[N,O]', '[A]-;@[A]-;!@[A]', '[A]1-;@[A]-;@[A]1', '[C]=,#;!@[A]', '[A]1[A][A][A][A]1', '[C][C][C][C][C][C]', '[C]([C])[C]', '[C][O][C]',
]

FRAGMENTS = ['C', 'CC', 'CCC', 'C=C', 'C=O', 'CO', 'CN', 'C(=O)O', 'C(=O)N', 'c1ccccc1', 'c1ccncc1', 'C1CC1', 'C1CCC1', 'C1CCCC1',
             'C1CCCCC1', 'CC(C)C', 'CC(C)(C)C', 'CCl', 'CF', 'C#N', 'N', 'O', 'S', 'CS', 'cc', 'ccc', 'cn', 'c1ccc2ccccc2c1',
             'C.C', 'C.O', 'CC.CC', 'C.C.C', 'CC.O', '[Na+].[Cl-]', 'CCCC', 'CCCCC', 'C=CC=C', 'C1CC2CC1CC2', 'OO', 'NN',
             'c1cc[nH]c1', 'C12CC1C2', 'C1CC11CC1']


def connected_cut(rng, mol, k):
    atoms = list(mol._atoms)
    start = rng.choice(atoms)
    chosen, frontier = [start], set(mol._bonds[start])
    while len(chosen) < k and frontier:
        n = rng.choice(sorted(frontier))
        chosen.append(n)
        frontier |= set(mol._bonds[n])
        frontier -= set(chosen)
    return chosen


def ring_bonds(mol):
    """bonds whose removal keeps the molecule connected (own computation)"""
    out = []
    for n, k, _ in mol.bonds():
        seen, st = {n}, [n]
        while st:
            x = st.pop()
            for y in mol._bonds[x]:
                if y not in seen and {x, y} != {n, k}:
                    seen.add(y)
                    st.append(y)
        if k in seen:
            out.append((n, k))
    return out


def without_bond(mol, n, k):
    """copy without the bond n-k (direct dict surgery on a rebuilt copy; labels recomputed)"""
    m = rebuild(mol)
    del m._bonds[n][k]
    del m._bonds[k][n]
    m.flush_cache()
    m.calc_labels()
    return m


def with_bond_order(mol, n, k, order):
    """copy with the order of bond n-k replaced (no valence check: the matcher does not need one)"""
    from chython.containers.bonds import Bond
    m = rebuild(mol)
    b = Bond(order)
    m._bonds[n][k] = b
    m._bonds[k][n] = b
    m.flush_cache()
    m.calc_labels()
    return m


def shuffle_dicts(rng, mol):
    """same numbers, random insertion order of atoms and of each neighbour dict"""
    c = rebuild(mol)
    order = list(c._atoms)
    rng.shuffle(order)
    atoms = {n: c._atoms[n] for n in order}
    adj = {}
    for n in order:
        ks = list(c._bonds[n])
        rng.shuffle(ks)
        adj[n] = {k: c._bonds[n][k] for k in ks}
    c._atoms, c._bonds = atoms, adj
    c.flush_cache()
    return c


def union(mols):
    """disjoint union with fresh numbering"""
    from chython import MoleculeContainer
    out = MoleculeContainer()
    nxt = 1
    for m in mols:
        mp = {}
        for n, a in m.atoms():
            mp[n] = nxt
            out.add_atom(a.copy(hydrogens=True, stereo=False), nxt, _skip_calculation=True)
            nxt += 1
        for n, k, b in m.bonds():
            out.add_bond(mp[n], mp[k], int(b), _skip_calculation=True)
    return rebuild(out)


STEREO_TARGETS = [
    'F[C@](Cl)(Br)I', 'F[C@@](Cl)(Br)I', 'FC(Cl)(Br)I', 'F[C@H](Cl)Br', 'F[C@@H](Cl)Br', '[H][C@](F)(Cl)Br', 'Cl[C@](F)(I)Br',
    'C[C@H](N)C(=O)O', 'C[C@@H](O)[C@H](N)C(=O)O', 'O[C@H]1CCCC[C@@H]1N', 'C[C@](F)(Cl)CC[C@@](F)(Cl)C', 'F[C@H](Cl)C[C@H](F)Cl',
    'F[C@](Cl)(Br)I.F[C@@](Cl)(Br)I', 'F[C@](Cl)(Br)C[C@@](F)(Cl)Br',
    'F/C=C/F', 'F/C=C\\F', 'FC=CF', 'F/C(Cl)=C/Br', 'F/C(Cl)=C\\Br', 'C/C=C/C=C\\C', 'F/C=C=C=C/F', 'F/C=C=C=C\\F', 'C1CCC/C=C/CC1',
    'C/C=C/[C@H](F)Cl', 'F/C=C/C=C/F', 'F/C(Cl)=C(/Br)I', 'F/C(Cl)=C(\\Br)I', 'C/C(N)=C(/O)F', 'FC(Cl)=C(Br)I', 'F/C=C/Cl.F/C=C\\Cl', '[H]/C(F)=C/F',
    'FC=[C@]=CCl', 'FC=[C@@]=CCl', 'FC=C=CCl', 'FC(Br)=[C@]=C(Cl)I', 'FC(Br)=[C@@]=C(Cl)I', 'CC=[C@]=CC', 'CC=[C@]=C(C)N',
]

STEREO_SMARTS = [
    # tetrahedron, four listed neighbours (every position of the centre, both marks come from `both_marks`)
    '[C@]([F])([Cl])([Br])[I]', '[F][C@]([Cl])([Br])[I]', '[Cl][C@]([F])([Br])[I]', '[I][C@]([Br])([Cl])[F]', '[Br][C@]([I])([F])[Cl]',
    '[A][C@]([A])([A])[A]', '[F][C@]([A])([A])[A]', '[F][C@]([Cl])([A])[A]', '[C@]([F])([Cl])([A])[I]',
    # three listed neighbours (implicit / explicit hydrogen, or a fourth heavy neighbour that is not listed)
    '[C@]([F])([Cl])[Br]', '[F][C@]([Cl])[Br]', '[Br][C@]([Cl])[F]', '[A][C@]([A])[A]', '[C@]([C])([N])[C]', '[C][C@]([N])[C]=[O]',
    '[C][C@]([O])[C@]([N])[C]', '[C][C@]([O])[C@@]([N])[C]', '[O][C@]1[C][C][C][C][C@@]1[N]', '[O][C@]1[C][C][C][C][C@]1[N]',
    '[C@]([F])([Cl])[C]', '[F][C@]([Cl])[C][C@]([F])[Cl]', '[F][C@]([Cl])[C][C@@]([F])[Cl]', '[C@]([F])([Cl])([Br])[I].[C@@]([F])([Cl])([Br])[I]',
    # fewer than three listed neighbours: the translation raises (mirrored)
    '[C@]([F])[Cl]', '[F][C@]', '[C@]',
    # double bonds
    '[F]/[C]=[C]/[F]', '[F]/[C]=[C]\\[F]', '[F]\\[C]=[C]/[F]', '[F]\\[C]=[C]\\[F]', '[A]/[C]=[C]/[A]', '[A]/[C]=[C]\\[A]',
    '[F]/[C]([Cl])=[C]/[Br]', '[Cl][C](/[F])=[C]/[Br]', '[F]/[C]([Cl])=[C](/[Br])[I]', '[Cl][C](/[F])=[C]([I])/[Br]',
    '[A]/[C]([A])=[C](/[A])[A]', '[I][C](\\[Br])=[C](/[F])[Cl]', '[Cl]/[C]([F])=[C]/[Br]', '[F]/[C]=[C]/[A]', '[C]/[C]=[C]/[C]=[C]\\[C]',
    '[C]/[C]=[C]/[C]=[C]/[C]', '[C]/[C]=[C]/[C]', '[C]/[C]=[C]/[C@]([F])[Cl]', '[F]/[C]=[C]/[Cl].[F]/[C]=[C]\\[Cl]', '[C]1[C][C][C]/[C]=[C]/[C][C]1',
    # allenes
    '[F][C]=[C@]=[C][Cl]', '[F][C]=[C@@]=[C][Cl]', '[Cl][C]=[C@]=[C][F]', '[A][C]=[C@]=[C][A]', '[C]=[C@]=[C]', '[F][C]([Br])=[C@]=[C]([Cl])[I]',
    '[Br][C]([F])=[C@]=[C]([I])[Cl]', '[C][C]=[C@]=[C][C]', '[C][C]=[C@]=[C]([C])[N]',
]


def both_marks(sm):
    """the SMARTS as written and with every tetrahedral / allene mark inverted"""
    inv = sm.replace('@@', '\0').replace('@', '@@').replace('\0', '@')
    return [sm] if inv == sm else [sm, inv]


def relabel(ints, atoms='keep', bonds='keep'):
    """wire ints with the stereo labels of atoms / bonds kept, inverted ('flip': the mirror image for atoms, the E/Z partner
    for bonds) or removed ('drop')"""
    def f(v, how):
        if v < 0 or how == 'keep':
            return v
        return -1 if how == 'drop' else 1 - v
    out = list(ints)
    i = 1
    for _ in range(ints[0]):
        out[i + 6] = f(out[i + 6], atoms)
        deg = ints[i + 7]
        for k in range(deg):
            out[i + 8 + 3 * k + 2] = f(out[i + 8 + 3 * k + 2], bonds)
        i += 8 + 3 * deg
    return out


def labelled(m):
    return any(a.stereo is not None for a in m._atoms.values()) or any(b.stereo is not None for _, _, b in m.bonds())


def stereo_cut(rng, m):
    """a query drawn from a labelled molecule: a connected fragment around a labelled atom / double bond, usually with the
    complete neighbourhood of the labelled elements, atom order and bond order shuffled, some atoms as wildcards, marks random
    (they are read relative to the query's own neighbour order, so consistent and inverted marks are equally likely)"""
    lab_atoms = [n for n, a in m._atoms.items() if a.stereo is not None]
    lab_bonds = [(n, k) for n, k, b in m.bonds() if b.stereo is not None]
    if not lab_atoms and not lab_bonds:
        return None
    core_atoms = set()
    if lab_atoms and (not lab_bonds or rng.random() < 0.6):
        c = rng.choice(lab_atoms)
        core_atoms |= {c} | set(m._bonds[c])
        for x in list(m._bonds[c]):          # allene centre: the substituents of the terminals
            if int(m._bonds[c][x]) == 2:
                core_atoms |= set(m._bonds[x])
    else:
        n, k = rng.choice(lab_bonds)
        core_atoms |= {n, k} | set(m._bonds[n]) | set(m._bonds[k])
    core_atoms = {x for x in core_atoms if m._atoms[x].atomic_number != 1 or rng.random() < 0.5}
    if rng.random() < 0.25 and len(core_atoms) > 2:      # an incomplete neighbourhood
        core_atoms.discard(rng.choice(sorted(core_atoms)))
    grow = rng.randint(0, 4)
    frontier = {y for x in core_atoms for y in m._bonds[x]} - core_atoms
    while grow and frontier:
        y = rng.choice(sorted(frontier))
        core_atoms.add(y)
        frontier |= set(m._bonds[y])
        frontier -= core_atoms
        grow -= 1
    atoms = sorted(core_atoms)
    rng.shuffle(atoms)
    bonds = [[n, k] for n, k, _ in m.bonds() if n in core_atoms and k in core_atoms]
    rng.shuffle(bonds)
    bonds = [b if rng.random() < 0.5 else b[::-1] for b in bonds]
    if own_components_count(atoms, bonds) != 1 and rng.random() < 0.8:
        return None
    amarks = [[n, rng.randint(0, 1)] for n in atoms if m._atoms[n].stereo is not None and rng.random() < 0.85]
    if rng.random() < 0.1:
        cand = [n for n in atoms if m._atoms[n].stereo is None and m._atoms[n].atomic_number == 6]
        if cand:
            amarks.append([rng.choice(cand), rng.randint(0, 1)])
    bmarks = [[n, k, rng.randint(0, 1)] for n, k in bonds if m._bonds[n][k].stereo is not None and rng.random() < 0.85]
    marked = {n for n, _ in amarks}
    wild = [n for n in atoms if n not in marked and rng.random() < 0.15]
    if not amarks and not bmarks:
        return None
    return {'qmol': {'mol': wire.mol_to_ints(m), 'atoms': atoms, 'bonds': bonds, 'amarks': amarks, 'bmarks': bmarks, 'any': wild}}


def own_components_count(atoms, bonds):
    adj = {n: {} for n in atoms}
    for n, k in bonds:
        adj[n][k] = adj[k][n] = 1
    return len(set(own_components(adj).values()))


def gen_stereo_cases(ctx):
    """stereo-marked queries (tetrahedron, double bond, allene) against labelled targets, their mirror images / E-Z partners and
    the unlabelled molecule; labelled MOLECULE patterns against the same targets (molecule matching ignores labels)"""
    rng, quick = ctx.rng, ctx.quick
    tg = [(s, molgen.parse(s)) for s in STEREO_TARGETS]
    tg = [(s, m) for s, m in tg if m is not None]
    variants = []
    for s, m in tg:
        base = wire.mol_to_ints(m)
        variants.append((s, base))
        if labelled(m):
            variants.append((s + ':mirror', relabel(base, atoms='flip')))
            variants.append((s + ':ez-partner', relabel(base, bonds='flip')))
        if rng.random() < 0.3:
            variants.append((s + ':shuffled', wire.mol_to_ints(shuffle_dicts(rng, m))))
    variants = list({tuple(v): (s, v) for s, v in variants}.values())
    sms = [x for sm in STEREO_SMARTS for x in both_marks(sm)]
    for sm in sms:
        pool = variants if not quick else rng.sample(variants, 14)
        for s, v in pool:
            sc = None
            if rng.random() < 0.1:
                ids = [v[i] for i in atom_fields(v).values()]
                sc = sorted(rng.sample(ids, max(1, len(ids) - 1)))
            yield f'stereo-smarts:{sm}', {'smarts': sm}, v, sc
    # queries drawn from labelled molecules (corpus + the list above), against the molecule, its mirror image, its E/Z partner
    # and the unlabelled molecule
    src = [(s, m) for s, m in tg if labelled(m)]
    src += [(tag, m) for tag, m in molgen.corpus(rng, 150 if quick else 1200) if labelled(m) and len(m) <= 45]
    src += [(tag, m) for tag, m in molgen.handmade() if labelled(m)]
    n_cut = 70 if quick else 700
    for _ in range(n_cut):
        tag, m = rng.choice(src)
        spec = stereo_cut(rng, m)
        if spec is None:
            continue
        base = wire.mol_to_ints(m)
        alts = [base, relabel(base, atoms='flip'), relabel(base, bonds='flip'), relabel(base, atoms='drop', bonds='drop')]
        for v in ([base] + rng.sample(alts[1:], 1) if quick else alts):
            yield f'stereo-cut:{tag}', spec, v, None
    # labelled molecules as patterns: labels take no part in `Element.__eq__` / `Bond.__eq__`
    for s, m in (src[:len(tg)] if not quick else rng.sample(src[:len(tg)], 10)):
        base = wire.mol_to_ints(m)
        sub = m.substructure(connected_cut(rng, m, rng.randint(2, len(m))), recalculate_hydrogens=False)
        for pm in (base, wire.mol_to_ints(sub)):
            for v in (base, relabel(base, atoms='flip'), relabel(base, bonds='flip')):
                yield f'ops:stereo-mol:{s}', {'mol': pm}, v, None


def gen_cases(ctx):
    """yields (tag, pattern_spec, target_ints, scope). Filter flag is varied by the caller."""
    rng = ctx.rng
    quick = ctx.quick
    n_corpus = 60 if quick else 400
    targets = [(tag, m) for tag, m in molgen.corpus(rng, n_corpus) if len(m) <= (40 if quick else 60)]
    hand = [(tag, m) for tag, m in molgen.handmade()]
    frags = [(s, molgen.parse(s)) for s in FRAGMENTS]
    frags = [(s, m) for s, m in frags if m is not None]

    def tgt(m):
        return wire.mol_to_ints(shuffle_dicts(rng, m) if rng.random() < 0.5 else m)

    def scopes(m, extra=True):
        atoms = list(m._atoms)
        out = [None]
        if extra:
            r = rng.random()
            if r < 0.35:
                out.append(sorted(rng.sample(atoms, max(1, len(atoms) // 2))))
            elif r < 0.5:
                out.append(atoms)
            elif r < 0.6:
                out.append(sorted(rng.sample(atoms, min(len(atoms), 3))) + [max(atoms) + 5])  # scope atom not in the target
        return out

    # A. patterns cut from the target (induced), renumbered, optionally one ring bond removed (non-induced)
    for tag, m in targets + hand:
        if len(m) < 2:
            continue
        for _ in range(2 if quick else 3):
            k = rng.randint(1, min(len(m), 9))
            atoms = connected_cut(rng, m, k)
            sub = m.substructure(atoms, recalculate_hydrogens=False)
            variant = 'cut'
            if rng.random() < 0.3 and sub.bonds_count >= len(sub):  # has a ring bond: drop one (pattern no longer induced)
                rb = ring_bonds(sub)
                if rb:
                    n, k2 = rng.choice(rb)
                    sub = without_bond(sub, n, k2)
                    variant = 'cut-minus-ring-bond'
            elif rng.random() < 0.3 and sub.bonds_count:
                # same skeleton, one bond order changed (ring bonds preferred: they may be closures of the linearisation)
                rb = ring_bonds(sub) or [(n, k2) for n, k2, _ in sub.bonds()]
                n, k2 = rng.choice(rb)
                old = int(sub._bonds[n][k2])
                sub = with_bond_order(sub, n, k2, rng.choice([o for o in (1, 2, 3, 4) if o != old]))
                variant = 'cut-bond-order-changed'
            pat, _ = molgen.renumber(rng, sub)
            for sc in scopes(m):
                yield f'{variant}:{tag}', {'mol': wire.mol_to_ints(pat)}, tgt(m), sc
    # B. fragments from other molecules
    for tag, m in (targets[: (25 if quick else 200)] + hand):
        for s, f in rng.sample(frags, 3 if quick else 6):
            pat = shuffle_dicts(rng, f) if rng.random() < 0.5 else f
            for sc in scopes(m, extra=rng.random() < 0.4):
                yield f'frag:{s}:{tag}', {'mol': wire.mol_to_ints(pat)}, tgt(m), sc
    # C. SMARTS: every literal of the rule tables + hand-written primitives
    sm = repo_smarts()
    ctx.cov['distribution']['smarts_literals_in_repo'] = len(sm)
    pool = targets + hand
    from chython import smarts as _smarts
    for s in sm + HAND_SMARTS:
        try:
            q = _smarts(s)
        except Exception as e:
            ctx.dist('pattern-rejected:' + type(e).__name__)
            continue
        # prefer targets the query actually hits (selection only; the comparison is done afterwards on both sides)
        hits, misses = [], []
        for tag, m in rng.sample(pool, min(len(pool), 12 if quick else 40)):
            try:
                hit = next(iter(q.get_mapping(m, _cython=False)), None) is not None
            except Exception:
                hit = False
            (hits if hit else misses).append((tag, m))
            if len(hits) >= (2 if quick else 6):
                break
        for tag, m in hits + misses[:1 if quick else 2]:
            for sc in scopes(m, extra=rng.random() < 0.3):
                yield f'smarts:{s}', {'smarts': s}, tgt(m), sc
        # a target drawn from the query itself (so that rule patterns no corpus molecule contains still fire), alone and
        # next to another molecule
        ii = instantiate(q)
        if ii is not None:
            yield f'smarts-instance:{s}', {'smarts': s}, ii, None
            try:
                yield f'smarts-instance:{s}', {'smarts': s}, tgt(union([make_target(ii), rng.choice(hand)[1]])), None
            except Exception:
                pass
    # D. multi-component patterns and targets
    multi_p = [s for s, _ in frags if '.' in s]
    for _ in range(30 if quick else 200):
        parts = [m for _, m in rng.sample(hand + targets[:20], rng.randint(2, 3)) if len(m) <= 14]
        if len(parts) < 2:
            continue
        t = union(parts)
        if len(t) > 30:
            continue
        s = rng.choice(multi_p)
        for sc in scopes(t):
            yield f'multi:{s}', {'mol': wire.mol_to_ints(molgen.parse(s))}, tgt(t), sc
        # pattern = union of cuts from two different components
        a, b = parts[0], parts[1]
        pa = a.substructure(connected_cut(rng, a, rng.randint(1, 3)), recalculate_hydrogens=False)
        pb = b.substructure(connected_cut(rng, b, rng.randint(1, 3)), recalculate_hydrogens=False)
        yield 'multi:cut-union', {'mol': wire.mol_to_ints(union([pa, pb]))}, tgt(t), None
    # multi-component patterns with a scope that covers target components only partly (fixed cases + every 2/3-subset)
    for ps, ts in (('C.O', 'CCO.OC.N'), ('C.C', 'CCC.CC'), ('CC.O', 'CCO.OCC'), ('C.O.N', 'CCO.OC.N'), ('CO.C', 'CCO.OC.N')):
        pm, tm = molgen.parse(ps), molgen.parse(ts)
        atoms = list(tm._atoms)
        subsets = [[1, 4], [1, 3], [1, 2, 4], [2, 4, 6]] + [list(c) for k in (2, 3) for c in itertools.combinations(atoms, k)]
        if quick:
            subsets = subsets[:4] + rng.sample(subsets[4:], 6)
        for sc in subsets:
            yield f'multi-scope:{ps}>{ts}', {'mol': wire.mol_to_ints(pm)}, wire.mol_to_ints(tm), sc
    for s in ['[C].[C]', '[O;D1].[N]', '[C;D1][C;D2].[O;D1]']:
        for _ in range(3):
            parts = [m for _, m in rng.sample(hand, 2)]
            yield f'multi-smarts:{s}', {'smarts': s}, tgt(union(parts)), None
    # E0. attribute grid: every query-atom class x (plain, charged, radical, isotope) pattern atom against every
    #     (element, charge, radical, isotope) target atom — the clause "every pattern atom matches its image"
    heads = [('[C]', ''), ('[C,N]', ''), ('[A]', ''), ('[C;+]', ''), ('[C,N;+]', ''), ('[A;+]', ''), ('[C;-]', ''), ('[C,N;-]', ''),
             ('[A;-]', ''), ('[C]', ' |^1:0|'), ('[C,N]', ' |^1:0|'), ('[A]', ' |^1:0|'), ('[13C]', ''), ('[13C;+]', ''),
             ('[13C]', ' |^1:0|'), ('[M]', ''), ('[C,N;+]', ' |^1:0|'), ('[N,O]', ''), ('[N,O]', ' |^1:0|'), ('[Cl,Br]', '')]
    states = [(0, 0, 0), (0, 1, 0), (0, -1, 0), (0, 0, 1), (13, 0, 0), (13, 1, 0), (13, 0, 1), (0, 1, 1)]
    tatoms = [(6, iso if z == 6 else 0, ch, rad) for z in (6,) for iso, ch, rad in states] + \
             [(z, 0, ch, rad) for z in (7, 8, 17, 26) for iso, ch, rad in states if iso == 0]
    grid_targets = []
    for k in range(0, len(tatoms), 3):   # a carbon centre carrying three decorated atoms
        grp = tatoms[k:k + 3]
        grid_targets.append(raw_mol_ints([(6, 0, 0, 0)] + grp, [(1, i + 2, 1) for i in range(len(grp))]))
    for head, suffix in heads:
        for gs in (head + suffix, f'{head}-[C]{suffix}'):
            for tints in grid_targets:
                yield f'attr-grid:{gs}', {'smarts': gs}, tints, None
    for z, iso, ch, rad in ([(6, 0, 0, 0), (6, 0, 1, 0), (6, 0, 0, 1), (6, 13, 0, 0), (7, 0, -1, 0), (8, 0, 0, 1)]):
        pm = raw_mol_ints([(z, iso, ch, rad), (6, 0, 0, 0)], [(1, 2, 1)])
        for tints in grid_targets:
            yield f'attr-grid:mol({z},{iso},{ch},{rad})', {'mol': pm}, tints, None
    # E1. attribute perturbation: take a pair that matches, change ONE attribute (radical / charge / isotope) of ONE image atom
    from chython import smarts as _smarts2
    pert_pool = targets[: (12 if quick else 80)] + hand
    pert_pats = [{'smarts': x} for x in rng.sample(sm + HAND_SMARTS, 25 if quick else 150)] + \
                [{'mol': wire.mol_to_ints(f)} for _, f in rng.sample(frags, 8 if quick else len(frags))]
    for pspec in pert_pats:
        try:
            pq = make_pattern(pspec)
        except Exception:
            continue
        done = 0
        for tag, m in rng.sample(pert_pool, min(len(pert_pool), 10)):
            try:
                hit = next(iter(pq.get_mapping(m, _cython=False) if is_query(pq) else pq.get_mapping(m)), None)
            except Exception:
                hit = None
            if not hit:
                continue
            base = wire.mol_to_ints(m)
            atom = rng.choice(sorted(hit.values()))
            for what, v in perturbed_targets(rng, base, atom):
                yield f'attr-perturb:{what}', pspec, v, None
            done += 1
            if done >= (1 if quick else 3):
                break
    # E2. hydrogen / neighbour boundary values of the target (implicit H 0..4, bare atoms, saturated centres) under query atoms
    #     with and without a constraint on them
    hyd = ['C', 'N', 'O', 'F', 'P', 'S', '[NH4+]', '[BH4-]', '[SiH4]', '[CH3-]', '[OH-]', '[Na+].[Cl-]', 'CC', 'C=C', 'C#C',
           'C.O', 'C.CO', '[NH4+].[Cl-]', '[BH4-].[Na+]', 'CC(C)(C)C', 'FC(F)(F)F', 'CS(C)(=O)=O', 'C[N+](C)(C)C']
    hq = ['[C]', '[N]', '[A]', '[C,Si]', '[N;+]', '[B;-]', '[C;h4]', '[C;h3,h4]', '[A;h0]', '[A;h1,h2]', '[C,N;h4]', '[A;h4]', '[C;D0]',
          '[A;D0]', '[C;D4]', '[A;D4;x4]', '[C;x0]', '[A;x1,x2]', '[C].[O]', '[N;+].[Cl;-]', '[Na;+].[B;-]', '[M]', '[A;D1]-[A;D4]']
    for hs in hq:
        for ts in hyd:
            tm = molgen.parse(ts)
            if tm is not None:
                yield f'h-boundary:{hs}', {'smarts': hs}, wire.mol_to_ints(tm), None
    # E3. histories: the PATTERN (or the TARGET) is an object with a past — used in a search, then copied / joined / edited
    #     through the public API; whatever it caches (compiled query, components) must describe its current atoms and bonds
    q_pool = [x for x in (sm + HAND_SMARTS) if '.' not in x and '|' not in x and '@' not in x.replace(';@', '').replace(';!@', '')]
    m_pool = [sx for sx, _ in frags if '.' not in sx]

    q_stereo = [x for sm_ in STEREO_SMARTS for x in both_marks(sm_) if '.' not in x and len(x) > 6]

    def rand_spec(query):
        if query and rng.random() < 0.2:
            return {'smarts': rng.choice(q_stereo)}
        return {'smarts': rng.choice(q_pool)} if query else {'mol': wire.mol_to_ints(molgen.parse(rng.choice(m_pool)))}

    def rand_tail(obj, query, as_target=False):
        """one or two public-API operations applicable to the object as it is now"""
        atoms = list(obj._atoms)
        nxt = max(atoms) + 1
        choices = [[['copy']], [['or', rand_spec(query)]], [['ior', rand_spec(query)]], [['union', rand_spec(query)]],
                   [['add_atom', rng.choice(['C', 'N', 'O'])]],
                   [['add_atom', rng.choice(['C', 'N', 'O'])], ['add_bond', rng.choice(atoms), nxt, 1]],
                   [['remap', [[a, a + 40] for a in rng.sample(atoms, max(1, len(atoms) // 2))]]],
                   [['copy'], ['add_atom', 'C'], ['add_bond', rng.choice(atoms), nxt, 1]],
                   [['copy'], ['or', rand_spec(query)]]]
        if len(atoms) >= 2:
            nonb = [(a, b) for a in atoms for b in atoms if a < b and b not in obj._bonds[a]]
            if nonb:
                a, b = rng.choice(nonb)
                choices.append([['add_bond', a, b, 1]])
        if not query:
            bl = [(a, b) for a, b, _ in obj.bonds()]
            if bl:
                choices.append([['delete_bond', *rng.choice(bl)]])
            if len(atoms) >= 2:
                choices.append([['delete_atom', rng.choice(atoms)]])
        return rng.choice(choices)

    # used-and-copied stereo queries (atom marks and bond marks must travel with the copy)
    lab_t = [(x, molgen.parse(x)) for x in STEREO_TARGETS]
    lab_t = [(x, m) for x, m in lab_t if m is not None]
    for sm_ in (rng.sample(q_stereo, 14) if quick else q_stereo):
        try:
            obj = make_pattern({'smarts': sm_})
        except Exception:
            continue
        hit = None
        for x, m in rng.sample(lab_t, len(lab_t)):
            try:
                if next(iter(obj.get_mapping(m, _cython=False)), None) is not None:
                    hit = m
                    break
            except Exception:
                pass
        if hit is None:
            continue
        base = wire.mol_to_ints(hit)
        steps = [['new', {'smarts': sm_}], ['use', base], ['copy']] + ([['copy']] if rng.random() < 0.3 else [])
        for v in (base, relabel(base, atoms='flip', bonds='flip')):
            yield 'history:pattern-copy', {'hist': steps}, v, None
    n_hist = 60 if quick else 500
    for i in range(n_hist):
        query = rng.random() < 0.5
        base = rand_spec(query)
        try:
            obj = make_pattern(base)
        except Exception:
            continue
        # a target the fresh pattern really matches (selection only), so that its first search yields mappings
        def hits(pat, cands):
            kw = {'_cython': False} if is_query(pat) else {}
            for cand in cands:
                try:
                    if next(iter(pat.get_mapping(cand[1], **kw)), None) is not None:
                        return cand
                except Exception:
                    pass
            return None
        if is_query(obj) and has_query_stereo(obj):
            lab = [(x, molgen.parse(x)) for x in rng.sample(STEREO_TARGETS, 12)]
            h0 = hits(obj, [c for c in lab if c[1] is not None])
        else:
            h0 = hits(obj, rng.sample(pool, min(len(pool), 15)))
        if h0 is None:
            ii = instantiate(obj)
            h0 = ('instance', make_target(ii)) if ii is not None else rng.choice(pool)
        tag0, m0 = h0
        steps = [['new', base], ['use', wire.mol_to_ints(m0)]]
        try:
            steps += rand_tail(obj, query)
            cur = run_history(steps)
            if rng.random() < 0.3:   # a second round: use again, edit again
                steps += [['use', wire.mol_to_ints(m0)]] + rand_tail(cur, query)
                cur = run_history(steps)
        except Exception as e:
            ctx.dist('history-not-applicable:' + type(e).__name__)
            continue
        if len(cur._atoms) == 0 or len(cur._atoms) > 14:
            continue
        # targets: the one used before, and one the FINAL pattern matches if such a target can be assembled from the pool
        final_hit = hits(cur, rng.sample(pool, min(len(pool), 10)))
        tag1, m1 = final_hit or rng.choice(pool)
        finals = [m0, m1]
        if len(m0) + len(m1) <= 40:
            finals.append(union([m0, m1]))
        joined = [st[1] for st in steps if st[0] in ('or', 'ior', 'union')]
        if joined:   # the target used before plus a molecule the joined operand matches
            try:
                jp = make_pattern(joined[-1])
                oh = hits(jp, rng.sample(pool, min(len(pool), 15)))
                if oh is None:
                    ii = instantiate(jp)
                    oh = ('instance', make_target(ii)) if ii is not None else None
            except Exception:
                oh = None
            if oh is not None and len(m0) + len(oh[1]) <= 40:
                finals.append(union([m0, oh[1]]))
        for tm in finals:
            yield 'history:pattern', {'hist': steps}, tgt(tm), None
    # target objects with a past: searched / printed (every cache filled), then edited so that the COMPONENT structure, the
    # bonds and the labels change — bridges of every bond order incl. coordination (8) bonds removed, components joined by a new
    # bond, atoms removed — and then searched with one- and several-component patterns cut from the final structure
    bridged = ['CC(=O)[O-]~[Na+]', 'C[O-]~[Na+]', '[Cl-]~[Na+]', 'N~[Cu]~N', 'CC(=O)O~[Fe]~OC(C)=O', 'c1ccccc1~[Cr]', 'O~O',
               'CCO~[Li]', 'CC(=O)[O-]~[K+].O', 'CO~[Mg]~OC.C', 'CC=O', 'CC#N', 'c1ccccc1C', 'CCOC', 'C1CC1C', 'CC.O', 'NCCO.CC',
               # labelled targets: the stereo tables the post-filter reads are cached on the target and must follow its edits
               'F[C@](Cl)(Br)I', 'C[C@H](N)C(=O)O', 'F/C=C/F', 'FC=[C@]=CCl', 'C[C@@H](O)[C@H](N)C(=O)O', 'F/C(Cl)=C/Br']
    n_bridged = len(bridged)
    stereo_sms = [x for sm_ in STEREO_SMARTS for x in both_marks(sm_) if '.' not in x]
    tbases = [(x, molgen.parse(x)) for x in bridged]
    tbases = [(x, m) for x, m in tbases if m is not None] + [x for x in hand if 2 <= len(x[1]) <= 12][:20] + targets[:6]

    def own_bridges(m):
        comp0 = len(set(own_components(m._bonds).values()))
        out = []
        for a, b, _ in m.bonds():
            adj = {n: {k: 1 for k in ms if {n, k} != {a, b}} for n, ms in m._bonds.items()}
            if len(set(own_components(adj).values())) > comp0:
                out.append((a, b))
        return out

    def target_tails(m):
        atoms = list(m._atoms)
        tails = []
        for a, b in own_bridges(m):
            tails.append([['delete_bond', a, b]])
        comp = own_components(m._bonds)
        cross = [(a, b) for a in atoms for b in atoms if a < b and comp[a] != comp[b]]
        if cross:
            a, b = rng.choice(cross)
            tails.append([['add_bond', a, b, rng.choice([1, 8])]])
        inner = [(a, b) for a in atoms for b in atoms if a < b and comp[a] == comp[b] and b not in m._bonds[a]]
        if inner:
            a, b = rng.choice(inner)
            tails.append([['add_bond', a, b, rng.choice([1, 8])]])
        if len(atoms) >= 3:
            tails.append([['delete_atom', rng.choice(atoms)]])
        bl = [(a, b) for a, b, _ in m.bonds()]
        if bl:
            tails.append([['delete_bond', *rng.choice(bl)]])
        tails.append([['add_atom', 'O'], ['add_bond', rng.choice(atoms), max(atoms) + 1, rng.choice([1, 8])]])
        tails.append([['or', {'mol': wire.mol_to_ints(molgen.parse(rng.choice(['O', 'CC', '[Na+]'])))}]])
        return tails

    def final_patterns(t):
        """patterns cut from the final structure: one connected cut, a union of cuts of two components, the whole"""
        out = []
        comps = {}
        for n, c in own_components(t._bonds).items():
            comps.setdefault(c, []).append(n)
        cl = list(comps.values())
        try:
            out.append({'mol': wire.mol_to_ints(rebuild(t.substructure(connected_cut(rng, t, rng.randint(1, 4)), recalculate_hydrogens=False)))})
            if len(cl) >= 2:
                c1, c2 = rng.sample(cl, 2)
                s1 = t.substructure(connected_cut(rng, t.substructure(c1, recalculate_hydrogens=False), rng.randint(1, 3)), recalculate_hydrogens=False)
                s2 = t.substructure(connected_cut(rng, t.substructure(c2, recalculate_hydrogens=False), rng.randint(1, 3)), recalculate_hydrogens=False)
                out.append({'mol': wire.mol_to_ints(union([s1, s2]))})
            if len(t) <= 12:
                out.append({'mol': wire.mol_to_ints(rebuild(t))})
        except Exception:
            pass
        return out

    _state['final_patterns'] = final_patterns
    for tag0, m0 in (tbases if not quick else tbases[:n_bridged] + rng.sample(tbases[n_bridged:], 5)):
        tin = wire.mol_to_ints(m0)
        try:
            obj = make_target(tin)
            tails = target_tails(obj)
        except Exception as e:
            ctx.dist('history-not-applicable:' + type(e).__name__)
            continue
        for tail in (tails if not quick else rng.sample(tails, min(len(tails), 4))):
            pq = rand_spec(rng.random() < 0.5)
            if labelled(m0) and rng.random() < 0.7:
                pq = {'smarts': rng.choice(stereo_sms)}
            steps = [['new', tin], rng.choice([['searched', pq], ['touch']]), ['touch']] + tail
            try:
                fin = run_history(steps)
            except Exception as e:
                ctx.dist('history-not-applicable:' + type(e).__name__)
                continue
            if len(fin._atoms) == 0:
                continue
            for ps in final_patterns(fin) + [pq]:
                yield 'history:target', ps, {'hist': steps}, None
    # E4. operator family: the pattern itself, the pattern plus isolated atoms / ions / a second copy (equal bond counts, more
    #     atoms), the pattern plus a bonded atom, and the reverse directions — `<=`, `<`, `is_equal`, `>=`, `>` on each pair
    extras = ['O', 'N', 'C', '[Na+]', '[Cl-]', '[Na+].[Cl-]', 'O.O']
    for sx, f in rng.sample(frags, 10 if quick else len(frags)):
        fi = wire.mol_to_ints(f)
        variants = [f, union([f, molgen.parse(rng.choice(extras))]), union([f, molgen.parse(rng.choice(extras))]), union([f, f])]
        grown = rebuild(f)
        try:
            grown.add_bond(rng.choice(list(grown._atoms)), grown.add_atom('C'), 1)
            variants.append(rebuild(grown))
        except Exception:
            pass
        for v in variants:
            vi = wire.mol_to_ints(v)
            yield f'ops:{sx}', {'mol': fi}, vi, None
            yield f'ops:{sx}', {'mol': vi}, fi, None
    # E. empty scope (boundary)
    for tag, m in rng.sample(hand, 4):
        yield f'empty-scope:{tag}', {'mol': wire.mol_to_ints(molgen.parse('C'))}, tgt(m), []
    # F. exhaustive small carbon skeletons: every connected pattern graph (<=4) against every connected target graph (<=5 / <=6)
    pmax, tmax = (3, 4) if quick else (4, 6)
    pats = [e for k in range(2, pmax + 1) for e in molgen.unlabeled_small_graphs(k)]
    tgts = [e for k in range(2, tmax + 1) for e in molgen.unlabeled_small_graphs(k)]
    for pe in pats:
        pm = molgen.from_edges(list(pe))
        for te in tgts:
            tm = molgen.from_edges(list(te))
            yield f'small:{len(pe)}e/{len(te)}e', {'mol': wire.mol_to_ints(pm)}, wire.mol_to_ints(tm), None
    # F2. the same skeletons with one double bond at every position (pattern and target): bond tests on tree edges AND closures
    cyc = [e for e in pats if len(e) >= len({v for ed in e for v in ed})]
    small_t = [e for e in tgts if len({v for ed in e for v in ed}) <= (4 if quick else 5)]
    for pe in cyc:
        for i in range(len(pe)):
            pm = molgen.from_edges(list(pe), orders={pe[i]: 2}, calc=False)
            pints = wire.mol_to_ints(rebuild(pm))
            for te in small_t:
                for j in range(-1, len(te)):
                    tm = molgen.from_edges(list(te), orders=({} if j < 0 else {te[j]: 2}), calc=False)
                    yield f'small-orders:{len(pe)}e/{len(te)}e', {'mol': pints}, wire.mol_to_ints(rebuild(tm)), None
    # G. ring assemblies as targets, ring fragments as patterns
    for _ in range(15 if quick else 120):
        edges = molgen.ring_assembly(rng)
        tm = molgen.decorate(rng, edges, hetero=0.15, multiple=0.0, charge=0.0)
        if len(tm) > 28:
            continue
        for s in ('C1CC1', 'C1CCC1', 'C1CCCC1', 'C1CCCCC1', 'CCC', 'C1CC11CC1'):
            if rng.random() < 0.5:
                yield f'rings:{s}', {'mol': wire.mol_to_ints(molgen.parse(s))}, wire.mol_to_ints(tm), None
        atoms = connected_cut(rng, tm, rng.randint(3, 8))
        sub, _ = molgen.renumber(rng, tm.substructure(atoms, recalculate_hydrogens=False))
        yield 'rings:cut', {'mol': wire.mol_to_ints(sub)}, wire.mol_to_ints(tm), None
    # S. stereo
    yield from gen_stereo_cases(ctx)


# ------------------------------------------------------------------------------------------------
# correspondence
# ------------------------------------------------------------------------------------------------

MAX_MAPPINGS = 4000


def compiled_ints(comps, closures):
    out = [len(comps)]
    for c in comps:
        out.append(len(c))
        for front, back, *_ in c:
            out += [front, -1 if back is None else back]
    cl = [(k, [n for n, _ in v]) for k, v in closures.items() if v]
    out.append(len(cl))
    for k, v in cl:
        out += [k, len(v)] + v
    return out


def disagree(ctx, stream, detail, suspect=None):
    ctx.cov['disagreements_checked'] += 1
    ctx.broke('correspondence', stream, detail)
    if suspect is not None:
        _state['suspects'].append((stream, suspect))


def quick_accel_skip(ctx, tag):
    """the rendering of the compiled matcher is slow: in the quick tier only the small systematic cases and a sample"""
    if not ctx.quick:
        return False
    kind = tag.split(':')[0]
    return kind not in ('attr-grid', 'h-boundary', 'multi-smarts', 'history') and ctx.rng.random() > 0.15


def stream_get_mapping(ctx):
    from chython.algorithms.isomorphism import _compile_query
    lines, meta = [], []
    seen_lines = set()
    stereo_lines = set()
    t_cache = {}
    for tag, pspec, tints, scope in gen_cases(ctx):
        key = target_key(tints)
        if key not in t_cache:
            if len(t_cache) > 64:
                t_cache.clear()
            t_cache[key] = make_target(tints)
        t = t_cache[key]
        try:
            p = make_pattern(pspec)
        except Exception as e:  # SMARTS the reader rejects: not this property's concern
            ctx.dist('pattern-rejected:' + type(e).__name__)
            continue
        stereo_q = is_query(p) and has_query_stereo(p)
        if len(p._atoms) == 0:
            continue
        inp = {'pattern': pspec, 'target': tints, 'scope': scope}
        # real code, both filter settings
        st0, r0 = outcome(lambda: real_mappings(p, t, False, scope))
        if st0 == 'ok' and len(r0) > MAX_MAPPINGS:
            ctx.dist('skipped:too-many-mappings')
            continue
        st1, r1 = outcome(lambda: real_mappings(p, t, True, scope))
        # an object with a history must answer like a fresh object with the same atoms and bonds
        if isinstance(tints, dict) and st0 == 'ok':
            stf, rf = outcome(lambda: real_mappings(make_pattern(pspec), fresh_copy(t), False, scope))
            ctx.count(('fresh', tag, target_key(tints), repr(pspec)), nontrivial=bool(r0))
            ctx.dist('history-vs-fresh-object')
            if stf != 'ok' or canon(rf) != canon(r0):
                disagree(ctx, 'history/fresh-object-differs', f'{tag}: edited object gives {len(r0)} mappings, a fresh object with the '
                         f'same atoms and bonds {len(rf) if rf is not None else stf}', inp)
        # a pattern that was only used and copied must answer like the freshly built pattern (marks, atoms and bonds carried over)
        if isinstance(pspec, dict) and 'hist' in pspec and st0 == 'ok' and \
                all(h[0] in ('new', 'use', 'copy', 'touch') for h in pspec['hist']):
            stf, rf = outcome(lambda: real_mappings(run_history(pspec['hist'][:1]), t, False, scope))
            ctx.count(('fresh-pattern', tag, target_key(tints), repr(pspec)), nontrivial=bool(r0))
            ctx.dist('copied-pattern-vs-fresh-pattern')
            if stf != 'ok' or canon(rf) != canon(r0):
                disagree(ctx, 'history/copied-pattern-differs', f'{tag}: used-and-copied pattern gives {len(r0)} mappings, the fresh '
                         f'pattern {len(rf) if rf is not None else stf}', inp)
        # the accelerated (bit-mask) matcher must return the same multisets wherever it is defined
        if is_query(p) and st0 == 'ok' and st1 == 'ok' and install_accelerated() and accel_domain(p, t) and \
                (not quick_accel_skip(ctx, tag)):
            p2 = make_pattern(pspec)   # a fresh object: its compiled forms are built by the accelerated call itself
            for af, rr in ((False, r0), (True, r1)):
                sta, ra = outcome(lambda: real_mappings(p2, t, af, scope, accelerated=True))
                ctx.count(('accel', tag, af, target_key(tints), repr(scope)), nontrivial=bool(rr))
                ctx.dist('accelerated-compared')
                same = sta == 'ok' and (canon(ra) == canon(rr) if not af else
                                        sorted(tuple(sorted(m.values())) for m in ra) == sorted(tuple(sorted(m.values())) for m in rr))
                if not same:
                    disagree(ctx, 'get_mapping/accelerated-vs-python', f'{tag}: filter={af} accelerated {sta} '
                             f'{len(ra) if ra is not None else "-"} mappings, python path {len(rr)}', dict(inp, accelerated=True))
        for af, st, r in ((0, st0, r0), (1, st1, r1)):
            line, nontrivial = gm_line(p, t, af, scope)
            # queries: the whole `QueryIsomorphism.get_mapping` incl. its stereo post-filter (GS); molecules: GA
            ga = gs_line(p, t, af, scope) if is_query(p) else ga_line(p, t, af, scope)
            if ga is not None:
                line = ga  # compatibility evaluated by the model from attributes, not by the real __eq__
            elif stereo_q:
                ctx.dist('skipped:query-stereo with a pattern class unknown to the model')
                continue
            else:
                ctx.dist('compat:table-mode (pattern class unknown to the model)')
            if line in seen_lines:
                continue
            seen_lines.add(line)
            if stereo_q:
                stereo_lines.add(line)
            lines.append(line)
            meta.append(('GM', tag, inp, af, st, r, nontrivial, r0 if st0 == 'ok' else None))
        # the private linearisation: relational check of the real output + literal comparison (informational)
        # (`_compiled_query` is what the matcher reads: a cached value that must describe the CURRENT atoms and bonds)
        stc, cq = outcome(lambda: p._compiled_query if hasattr(type(p), '_compiled_query') else _compile_query(p._atoms, p._bonds))
        g = graph_ints(list(p._atoms), p._bonds)
        if stc == 'ok':
            lines.append('CK ' + ' '.join(map(str, g + compiled_ints(*cq))))
            meta.append(('CK', tag, inp, None, stc, None, True, None))
            lines.append('CQ ' + ' '.join(map(str, g)))
            meta.append(('CQ', tag, inp, None, stc, compiled_ints(*cq), True, None))
        # operators from counts (needs the reverse direction as well, molecules only, no scope)
        if scope is None and not is_query(p) and st0 == 'ok' and len(p) <= len(t) + 2 and \
                (tag.split(':')[0] in ('ops', 'multi', 'history', 'small') or ctx.rng.random() < 0.5):
            stb, rb = outcome(lambda: real_mappings(t, p, False, None))
            if stb == 'ok' and len(rb) <= MAX_MAPPINGS:
                obs = outcome(lambda: (p.is_substructure(t), p.is_equal(t), p <= t, p < t, p >= t, p > t))
                lines.append(f'OP {len(p)} {len(t)} {len(r0)} {len(rb)}')
                meta.append(('OP', tag, inp, None, obs[0], obs[1], bool(r0), None))
    ctx.cov['programs'] = 0
    if not ctx.build_ok:
        ctx.notes.append('driver not built: model side skipped, real code still exercised by search')
        return
    resp = core.run_driver('C07', lines)
    if len(resp) != len(lines):
        disagree(ctx, 'driver', f'{len(resp)} responses for {len(lines)} requests')
        return
    programs = set()
    for line, (op, tag, inp, af, st, r, nontrivial, r_unf), ans in zip(lines, meta, resp):
        kind = tag.split(':')[0]
        if op == 'GM':
            programs.add('QueryIsomorphism.get_mapping(_cython=False)' if 'smarts' in inp['pattern'] else 'MoleculeIsomorphism.get_mapping')
            ctx.count(line, nontrivial=nontrivial)
            ctx.dist('case:' + kind)
            ctx.dist(f'filter={af}')
            if inp['scope'] is not None:
                ctx.dist('with-scope')
            mst, flags, ms = parse_gm(ans)
            if ans.startswith('malformed'):
                disagree(ctx, 'get_mapping/wire', f'{tag}: driver says {ans}', inp)
                continue
            real_st = 'ok' if st == 'ok' else 'crash'
            if mst == 'raise':   # the post-filter raised: the exception class must be the same one
                mst = 'crash'
                cls = ans.split()[1]
                cls = {'StopIteration': 'RuntimeError'}.get(cls, cls)   # PEP 479: StopIteration inside a generator
                if st != 'crash:' + cls:
                    disagree(ctx, 'get_mapping/stereo-filter-outcome', f'{tag}: real {st}, model raises {cls}', inp)
                    continue
            if mst != real_st:
                disagree(ctx, 'get_mapping/outcome', f'{tag}: real {st}, model {mst}', inp)
                continue
            if line.startswith('GS '):
                programs.add('QueryIsomorphism.get_mapping stereo post-filter')
                ctx.dist('stereo-filter:' + ('no-marks' if line not in stereo_lines else
                                             'raised' if mst != 'ok' else
                                             'kept-all' if flags.get('pre') == flags.get('n') else
                                             'removed-all' if flags.get('n') == '0' else 'removed-some'))
            if mst != 'ok':
                ctx.dist('outcome:' + st)
                continue
            ctx.dist('mappings:' + ('0' if not r else '1' if len(r) == 1 else '2-9' if len(r) < 10 else '10-99' if len(r) < 100 else '100+'))
            ctx.dist('pattern-atoms:%d' % min(len(ms[0]) if ms else 0, 12))
            if flags.get('rec') != '1':
                disagree(ctx, 'model/stack-machine-vs-recursive-reference', f'{tag}: the two Lean enumerators differ', inp)
            if flags.get('chk') != '1':
                disagree(ctx, 'model/compile-check', f'{tag}: model linearisation rejected by checkCompiled', inp)
            if flags.get('tchk') != '1':
                disagree(ctx, 'target/connected_components', f'{tag}: connected_components is not the component partition', inp)
            if af == 0:
                if canon(r) != canon(ms):
                    disagree(ctx, 'get_mapping/unfiltered-multiset',
                             f'{tag}: real {len(r)} mappings, model {len(ms)}; real-only {[m for m in canon(r) if m not in canon(ms)][:2]} '
                             f'model-only {[m for m in canon(ms) if m not in canon(r)][:2]}', inp)
                elif len(ctx.cov['samples']) < 6 and r and kind not in [s.get('kind') for s in ctx.cov['samples']]:
                    ctx.sample({'kind': kind, 'case': tag, 'pattern_atoms': len(ms[0]), 'mappings': len(r), 'scope': inp['scope'] is not None})
            else:
                sets_r = sorted(tuple(sorted(m.values())) for m in r)
                sets_m = sorted(tuple(sorted(m.values())) for m in ms)
                inside = r_unf is None or all(m in canon(r_unf) for m in canon(r))
                if line.startswith('GS ') and flags.get('pre') != flags.get('n') and canon(r) != canon(ms):
                    # the `seen` filter runs BEFORE the stereo test: which image sets survive depends on the representative
                    # the search yields first, so here the mappings themselves are compared
                    disagree(ctx, 'get_mapping/stereo-filtered-multiset', f'{tag}: real {len(r)} mappings, model {len(ms)}', inp)
                elif sets_r != sets_m or not inside:
                    disagree(ctx, 'get_mapping/filtered-image-sets', f'{tag}: real image sets {len(sets_r)}, model {len(sets_m)}, '
                                                                      f'subset-of-unfiltered={inside}', inp)
                else:
                    ctx.dist('filtered-literal-' + ('same' if canon(r) == canon(ms) else 'other-representative'))
        elif op == 'CK':
            programs.add('_compile_query')
            ctx.count(line)
            ctx.dist('compile-checked')
            if ans.strip() != 'ok 1':
                disagree(ctx, '_compile_query/relational', f'{tag}: real linearisation rejected by the Lean checker: {ans}', inp)
        elif op == 'CQ':
            ctx.count(line, nontrivial=False)
            m = re.match(r'ok chk=(\d) C (.*)$', ans)
            if not m or m.group(1) != '1':
                disagree(ctx, 'model/compile-check', f'{tag}: {ans[:80]}', inp)
                continue
            body = m.group(2).replace(' L ', ' ')
            model_ints = list(map(int, body.split()))
            ctx.dist('compile-literal-' + ('same' if model_ints == r else 'different-order'))
        elif op == 'OP':
            programs.update(['is_substructure', 'is_equal', '__le__', '__lt__', '__ge__', '__gt__'])
            ctx.count(line, nontrivial=nontrivial)
            ctx.dist('operators')
            if st != 'ok':
                disagree(ctx, 'operators/outcome', f'{tag}: operators raised {st}', inp)
                continue
            want = ' '.join('1' if b else '0' for b in r)
            if ans.strip() != 'ok ' + want:
                disagree(ctx, 'operators', f'{tag}: real (sub,eq,le,lt,ge,gt)={want}, model {ans}', inp)
    ctx.cov['programs'] += len(programs)
    _state['programs'] = programs


def morgan_case(m):
    """wire line for `_get_automorphism_mapping(m._chiral_morgan, m._bonds)`"""
    cm = m._chiral_morgan
    atoms = list(cm)
    bl = bond_list(m)
    classes = {}
    vals = {n: classes.setdefault(cm[n], len(classes)) for n in atoms}
    out = graph_ints(atoms, m._bonds) + [vals[n] for n in atoms]
    # bond classes by real `==` (Bond == Bond)
    reps = []
    cls = []
    for n, k, b in bl:
        for i, rb in enumerate(reps):
            if rb == b:
                cls.append(i)
                break
        else:
            reps.append(b)
            cls.append(len(reps) - 1)
    out.append(len(bl))
    for (n, k, _), c in zip(bl, cls):
        out += [n, k, 1, c]
    out.append(len(bl))
    for (n, k, _), c in zip(bl, cls):
        out += [n, k, c]
    return 'AM ' + ' '.join(map(str, out))


def stream_automorphism(ctx):
    rng = ctx.rng
    mols = list(molgen.handmade()) + molgen.corpus(rng, 40 if ctx.quick else 400)
    for s in ('CC', 'CCC.CC', 'c1ccccc1', 'C1CC1.C1CC1', 'CC(C)(C)C', 'C.C', 'C1CCC1', 'c1ccc2ccccc2c1', 'CC.CC.CC', 'OCCO.NCCN'):
        mols.append((s, molgen.parse(s)))
    n_small = 5 if ctx.quick else 6
    for k in range(2, n_small + 1):
        for e in molgen.unlabeled_small_graphs(k):
            mols.append((f'small{k}', molgen.from_edges(list(e))))
    lines, meta = [], []
    for tag, m in mols:
        if m is None:
            continue
        st, r = outcome(lambda: [dict(x) for x in itertools.islice(m.get_automorphism_mapping(), MAX_MAPPINGS + 1)])
        if st == 'ok' and len(r) > MAX_MAPPINGS:
            ctx.dist('skipped:too-many-automorphisms')
            continue
        lines.append(morgan_case(m))
        meta.append((tag, st, r, wire.mol_to_ints(m)))
    if not ctx.build_ok:
        return
    resp = core.run_driver('C07', lines)
    for line, (tag, st, r, ints), ans in zip(lines, meta, resp):
        ctx.count(line, nontrivial=bool(r))
        ctx.dist('automorphism')
        mst, flags, ms = parse_gm(ans)
        if (st == 'ok') != (mst == 'ok'):
            disagree(ctx, 'get_automorphism_mapping/outcome', f'{tag}: real {st}, model {ans[:60]}', {'automorphism': ints})
        elif st == 'ok' and canon(r) != canon(ms):
            disagree(ctx, 'get_automorphism_mapping/multiset', f'{tag}: real {len(r)} model {len(ms)}', {'automorphism': ints})
        elif st == 'ok':
            ctx.dist('automorphisms:' + ('0' if not r else '1-9' if len(r) < 10 else '10+'))
    ctx.cov['programs'] += 1


def stream_lazy_product(ctx):
    from chython._functions import lazy_product
    rng = ctx.rng
    lines, meta = [], []
    n = 150 if ctx.quick else 1500
    shapes = [()] + [tuple(rng.randint(0, 4) for _ in range(rng.randint(1, 4))) for _ in range(n)]
    shapes += list(itertools.product(range(0, 4), repeat=2)) + list(itertools.product(range(0, 3), repeat=3))
    for shape in dict.fromkeys(shapes):
        args, nxt = [], 1
        for k in shape:
            args.append(list(range(nxt, nxt + k)))
            nxt += k
        real = [list(x) for x in lazy_product(*(iter(a) for a in args))]
        out = [len(args)]
        for a in args:
            out += [len(a)] + a
        lines.append('LP ' + ' '.join(map(str, out)))
        meta.append((shape, real, [list(x) for x in itertools.product(*args)]))
    for _ in range(40 if ctx.quick else 300):
        l = list(range(1, rng.randint(0, 5) + 1))
        r = rng.randint(0, len(l) + 1)
        lines.append(f'PM {r} {len(l)} ' + ' '.join(map(str, l)))
        meta.append((('perm', len(l), r), [list(x) for x in itertools.permutations(l, r)], None))
    if not ctx.build_ok:
        return
    resp = core.run_driver('C07', lines)
    for line, (shape, real, prod), ans in zip(lines, meta, resp):
        ctx.count(line, nontrivial=bool(real))
        _, _, body = ans.partition(':')
        got = [list(map(int, part.split())) for part in body.split('|')] if body.strip() else []
        n_model = int(re.search(r'n=(\d+)', ans).group(1)) if 'n=' in ans else -1
        if n_model != len(got):
            got = [[] for _ in range(n_model)]
        if shape and shape[0] == 'perm':
            ctx.dist('permutations')
            if got != real:
                disagree(ctx, 'itertools.permutations', f'{shape}: model {got[:3]} real {real[:3]}')
            continue
        ctx.dist('lazy_product')
        if sorted(got) != sorted(real):
            disagree(ctx, 'lazy_product/multiset', f'shape {shape}: model {len(got)} tuples, real {len(real)}',
                     {'lazy_product': list(shape)})
        else:
            ctx.dist('lazy_product-order-' + ('same' if got == real else 'different'))
        if sorted(real) != sorted(prod):
            ctx.fail('C07/lazy_product/not-the-product', f'lazy_product over lengths {shape} yields {len(real)} tuples, product has {len(prod)}',
                     {'lazy_product': list(shape)})
    ctx.cov['programs'] += 2


# ------------------------------------------------------------------------------------------------
# match_stereo=True / get_fast_mapping
# ------------------------------------------------------------------------------------------------

def labels_consistent(p, t, f):
    """molecule pattern vs molecule target under the embedding f: every labelled element of the pattern lies on a labelled
    element of the target (and vice versa for the image atoms / bonds) and the labels denote the same configuration (own parity /
    flip arithmetic on the reference orders). True / False / None (outside the oracle)."""
    for u, a in p._atoms.items():
        lp, lt = a.stereo, t._atoms[f[u]].stereo
        if (lp is None) != (lt is None):
            return False
        if lp is None:
            continue
        op_, ot_ = p.stereogenic_tetrahedrons.get(u), t.stereogenic_tetrahedrons.get(f[u])
        if (op_ is None) != (ot_ is None):
            return None
        if op_ is not None:
            env = [f[x] for x in op_]
            if len(env) != len(ot_) or sorted(env) != sorted(ot_):
                return None
            if (lt != inversions_odd([ot_.index(e) for e in env])) != lp:
                return False
            continue
        ep, et = p.stereogenic_allenes.get(u), t.stereogenic_allenes.get(f[u])
        if ep is None or et is None:
            return None
        r = ends_pair_verdict(f, ep, et, lp, lt)
        if r is None or r is False:
            return r
    for u, v, b in bond_list(p):
        tb = t._bonds[f[u]].get(f[v])
        if tb is None:
            return None
        if (b.stereo is None) != (tb.stereo is None):
            return False
        if b.stereo is None:
            continue
        kp, kt = p._stereo_cis_trans_terminals.get(u), t._stereo_cis_trans_terminals.get(f[u])
        if kp is None or kt is None or kp not in p.stereogenic_cis_trans or kt not in t.stereogenic_cis_trans:
            return None
        r = ends_pair_verdict(f, p.stereogenic_cis_trans[kp], t.stereogenic_cis_trans[kt], b.stereo, tb.stereo)
        if r is None or r is False:
            return r
    return True


def ends_pair_verdict(f, ep, et, lp, lt):
    """the pattern's reference substituent pair (slots 0, 1) read in the target's environment"""
    x0, x1 = f.get(ep[0]), f.get(ep[1])
    slot = {}
    for k, y in enumerate(et):
        if y is not None:
            slot[y] = k
    if x0 not in slot or x1 not in slot or (slot[x0] % 2) == (slot[x1] % 2):
        return None
    flip = (slot[x0] >= 2) != (slot[x1] >= 2)
    return (lt != flip) == lp


def ring_double_bond(m):
    """a double bond inside a ring: the two Kekule drawings of a symmetric ring are different canonical strings, so whole-molecule
    equality (and with it get_fast_mapping) can miss an isomorphism — canonical SMILES is property C02's subject, such molecules
    are outside this oracle"""
    return any(int(b) == 2 and b.in_ring for _, _, b in m.bonds())


def match_stereo_check(p, t):
    """whole-molecule pairs: `get_mapping(match_stereo=True)` = the isomorphisms that respect the labels (all of them without the
    filter, exactly one with it)"""
    if len(p) != len(t) or is_query(p):
        return False, None, 'not a whole-molecule pair'
    if any(a.implicit_hydrogens is None for m in (p, t) for a in m._atoms.values()):
        return False, None, 'unknown hydrogen counts: the extracted substructure is not comparable (outside the oracle)'
    if ring_double_bond(p) or ring_double_bond(t):
        return False, None, 'Kekule ring drawing: canonical-string equality is not this property (outside the oracle)'
    try:
        whole = t.substructure(list(t._atoms))
    except Exception:
        return False, None, 'substructure() raised (outside the oracle)'
    if any(whole._atoms[n].implicit_hydrogens != a.implicit_hydrogens for n, a in t._atoms.items()):
        return False, None, 'substructure() recomputes other hydrogen counts than the target carries (outside the oracle)'
    try:
        emb = reference_embeddings(p, t, None, budget=500_000)
    except OverflowError:
        return False, None, 'reference budget exceeded'
    vs = [labels_consistent(p, t, f) for f in emb]
    if any(v is None for v in vs):
        return False, None, 'outside the label oracle'
    want = canon([f for f, v in zip(emb, vs) if v])
    st, got = outcome(lambda: canon([dict(m) for m in p.get_mapping(t, match_stereo=True, automorphism_filter=False)]))
    if st != 'ok':
        return True, f'C07/match_stereo/raises/{st}', f'get_mapping(match_stereo=True) raised {st}'
    all_emb = canon(emb)
    # exact comparison where the skeleton has no symmetry; with symmetry, which automorphisms count as label-respecting at
    # pseudo-asymmetric centres is property C12's question: here emptiness, membership among the embeddings and no duplicates
    if (got != want) if len(emb) <= 1 else ((bool(got) != bool(want) and not (labelled(p) or labelled(t))) or any(m not in all_emb for m in got) or len(set(got)) != len(got)):
        kind = 'spurious' if any(m not in want for m in got) else 'missing' if len(set(got)) == len(got) else 'duplicate'
        return True, f'C07/match_stereo/{kind}-mapping', f'real={len(got)} reference={len(want)} (label-respecting isomorphisms)'
    st, gotf = outcome(lambda: canon([dict(m) for m in p.get_mapping(t, match_stereo=True)]))
    if st != 'ok':
        return True, f'C07/match_stereo/raises/{st}', f'get_mapping(match_stereo=True, automorphism_filter=True) raised {st}'
    sym_lab = len(emb) > 1 and (labelled(p) or labelled(t))   # pseudo-asymmetric centres: emptiness is C12's question
    if (len(gotf) != (1 if want else 0) and not sym_lab) or len(gotf) > 1 or any(m not in (want if len(emb) <= 1 else all_emb) for m in gotf):
        return True, 'C07/match_stereo/filter-not-one', f'filtered: {len(gotf)} mappings, reference has {len(want)}'
    fm = p.get_fast_mapping(t)
    if ((fm is None) != (not want) and not sym_lab) or (fm is not None and tuple(sorted(fm.items())) not in (want if len(emb) <= 1 else all_emb)):
        return True, 'C07/get_fast_mapping/disagrees', f'get_fast_mapping={fm} reference has {len(want)} label-respecting isomorphisms'
    return False, None, f'{len(want)} label-respecting isomorphisms, real code agrees'


def gen_ms_cases(ctx):
    rng, quick = ctx.rng, ctx.quick
    src = [(s_, molgen.parse(s_)) for s_ in STEREO_TARGETS]
    src += [(tag, m) for tag, m in molgen.handmade() if 2 <= len(m) <= 14]
    src += [(tag, m) for tag, m in molgen.corpus(rng, 60 if quick else 500) if labelled(m) and len(m) <= 30]
    src = [(s_, m) for s_, m in src if m is not None]
    if quick:
        src = src[:len(STEREO_TARGETS)] + rng.sample(src[len(STEREO_TARGETS):], min(25, len(src) - len(STEREO_TARGETS)))
    for s_, m in src:
        base = wire.mol_to_ints(m)
        pats = [('whole', base), ('whole-renumbered', wire.mol_to_ints(molgen.renumber(rng, m)[0]))]
        for _ in range(1 if quick else 2):
            if len(m) > 2:
                cut = connected_cut(rng, m, rng.randint(2, len(m) - 1))
                try:
                    pats.append(('cut', wire.mol_to_ints(m.substructure(cut))))
                except Exception:
                    pass
        tgs = [base, relabel(base, atoms='flip'), relabel(base, bonds='flip'), relabel(base, 'drop', 'drop'),
               wire.mol_to_ints(shuffle_dicts(rng, m))]
        tgs = [list(x) for x in dict.fromkeys(tuple(x) for x in tgs)]
        for kind, pi in pats:
            for ti in (tgs if not quick else [tgs[0]] + rng.sample(tgs[1:], min(2, len(tgs) - 1))):
                yield f'match-stereo:{kind}:{s_}', pi, ti


def enc_dict(d):
    out = [len(d)]
    for k, v in d.items():
        out += [k, v]
    return out


def stream_match_stereo(ctx):
    lines, meta = [], []
    for tag, pi, ti in gen_ms_cases(ctx):
        p, t = make_pattern({'mol': pi}), make_target(ti)
        inp = {'pattern': {'mol': pi}, 'target': ti, 'match_stereo': True}
        st_u, under = outcome(lambda: [dict(x) for x in p._get_mapping(t, automorphism_filter=True)])
        if st_u != 'ok' or len(under) > 300:
            ctx.dist('match-stereo-skipped')
            continue
        items = []
        ok = True
        for mp in under:
            try:
                sub = t.substructure(mp.values())
                fm = p.get_fast_mapping(sub)
                autos = [dict(a) for a in itertools.islice(sub.get_automorphism_mapping(), 400)]
            except Exception as e:  # the branch itself raises: compared below through the outcome
                ctx.dist('match-stereo-piece-raised:' + type(e).__name__)
                ok = False
                break
            if len(autos) >= 400:
                ok = False
                break
            items.append((fm, autos))
            # get_fast_mapping alone: model (K) + proved checker on the real output (R) + none-iff-empty on label-free pairs
            so, oo = list(p.smiles_atoms_order), list(sub.smiles_atoms_order)
            eq = int(not (p != sub))
            lines.append('FM ' + ' '.join(map(str, [len(p), len(sub)] + L(so) + L(oo) + [eq])))
            meta.append(('FM', tag, inp, fm))
            if fm:
                ga = ga_line(p, sub, 0, None)
                lines.append('IC ' + ga[3:] + ' ' + ' '.join(map(str, enc_dict(fm))))
                meta.append(('IC', tag, inp, fm))
            if not labelled(p) and not labelled(sub) and len(p) <= 16 and not ring_double_bond(p) and not ring_double_bond(sub) \
                    and all(a.implicit_hydrogens is not None for mm in (p, sub) for a in mm._atoms.values()):
                try:
                    ref = reference_embeddings(p, sub, None, budget=200_000)
                except OverflowError:
                    ref = None
                if ref is not None:
                    ctx.count(('fm-iff', tag, tuple(pi), tuple(sorted(mp.values()))), nontrivial=bool(ref))
                    ctx.dist('get_fast_mapping:none-iff-empty-checked')
                    if (fm is None) != (not ref) or (fm is not None and fm not in ref):
                        disagree(ctx, 'get_fast_mapping/none-iff-no-isomorphism',
                                 f'{tag}: get_fast_mapping={"None" if fm is None else "a mapping"}, the reference has {len(ref)} isomorphisms', inp)
        # get_fast_mapping on the pair itself (sizes may differ)
        st_d, fm_d = outcome(lambda: p.get_fast_mapping(t))
        if st_d == 'ok':
            lines.append('FM ' + ' '.join(map(str, [len(p), len(t)] + L(p.smiles_atoms_order) + L(t.smiles_atoms_order) + [int(not (p != t))])))
            meta.append(('FM', tag, inp, fm_d))
        if not ok:
            continue
        for af in (1, 0):
            st, r = outcome(lambda: [dict(x) for x in p.get_mapping(t, match_stereo=True, automorphism_filter=bool(af))])
            out = [af, len(items)]
            for fm, autos in items:
                out += ([1] + enc_dict(fm)) if fm is not None else [0]
                out.append(len(autos))
                for a in autos:
                    out += enc_dict(a)
            lines.append('MS ' + ' '.join(map(str, out)))
            meta.append(('MS', tag, inp, (st, r)))
    if not ctx.build_ok or not lines:
        return
    resp = core.run_driver('C07', lines)
    if len(resp) != len(lines):
        disagree(ctx, 'driver', f'{len(resp)} responses for {len(lines)} requests (match_stereo stream)')
        return
    for line, (op, tag, inp, real), ans in zip(lines, meta, resp):
        if op == 'FM':
            ctx.count(line, nontrivial=real is not None)
            ctx.dist('get_fast_mapping:' + ('none' if real is None else 'mapping'))
            if real is None:
                good = ans.strip() == 'ok none'
            else:
                _, _, ms = parse_gm(ans.replace('ok some', 'ok'))
                good = ans.startswith('ok some') and ms and ms[0] == real
            if not good:
                disagree(ctx, 'get_fast_mapping/model', f'{tag}: real {real}, model {ans[:80]}', inp)
        elif op == 'IC':
            ctx.count(line)
            ctx.dist('get_fast_mapping:checked-by-isoCheck')
            if ans.strip() != 'ok chk=1 mem=1':
                ctx.cov['disagreements_checked'] += 1
                ctx.broke('relational', 'get_fast_mapping/is-a-get_mapping-result',
                          f'{tag}: the real get_fast_mapping output is rejected by the proved checker: {ans}')
                _state['suspects'].append(('get_fast_mapping', inp))
        else:
            st, r = real
            ctx.count(line, nontrivial=bool(r))
            ctx.dist('match_stereo:' + (st if st != 'ok' else '0' if not r else '1' if len(r) == 1 else '2+'))
            mst, flags, ms = parse_gm(ans)
            if (st == 'ok') != (mst == 'ok'):
                disagree(ctx, 'get_mapping(match_stereo)/outcome', f'{tag}: real {st}, model {ans[:60]}', inp)
            elif st == 'ok' and r != ms:
                disagree(ctx, 'get_mapping(match_stereo)/sequence', f'{tag}: real {len(r)} mappings, model {len(ms)}', inp)
    ctx.cov['programs'] += 2


def correspond(ctx):
    from ..gen import pyx2py  # noqa: F401  (not installed: the pure-Python matcher is the implementation under test)
    _state['suspects'] = []
    stream_get_mapping(ctx)
    stream_automorphism(ctx)
    stream_lazy_product(ctx)
    stream_match_stereo(ctx)


# ------------------------------------------------------------------------------------------------
# search / probe
# ------------------------------------------------------------------------------------------------

def sig_of(inp):
    return inp


def check_input(inp):
    """-> (fails, signature, what) on one replayable input"""
    if 'lazy_product' in inp:
        from chython._functions import lazy_product
        args, nxt = [], 1
        for k in inp['lazy_product']:
            args.append(list(range(nxt, nxt + k)))
            nxt += k
        real = sorted(tuple(x) for x in lazy_product(*(iter(a) for a in args)))
        prod = sorted(itertools.product(*args))
        return real != prod, 'C07/lazy_product/not-the-product', f'{len(real)} tuples vs {len(prod)} in the product'
    if 'automorphism' in inp:
        m = make_target(inp['automorphism'])
        return automorphism_check(m)
    p = make_pattern(inp['pattern'])
    t = make_target(inp['target'])
    if inp.get('match_stereo'):
        return match_stereo_check(p, t)
    p_ref = None
    ps = inp['pattern']
    if isinstance(ps, dict) and 'hist' in ps and all(h[0] in ('new', 'use', 'copy', 'touch') for h in ps['hist']):
        p_ref = run_history(ps['hist'][:1])
    return property_check(p, t, inp.get('scope'), accelerated=bool(inp.get('accelerated')), p_ref=p_ref)


def reference_automorphisms(m, budget=500_000):
    """all non-identity permutations of the atoms that keep the `_chiral_morgan` class of every atom, map every bond to an
    equal bond (and non-bonds to non-bonds) and keep every connected component in place"""
    cm, bonds = m._chiral_morgan, m._bonds
    comp = own_components(bonds)
    order = list(cm)
    res, f, used, nodes = [], {}, set(), [0]

    def ok(u, x):
        for v, y in f.items():
            pb, tb = bonds[u].get(v), bonds[x].get(y)
            if (pb is None) != (tb is None) or (pb is not None and not (pb == tb)):
                return False
        return True

    def rec(i):
        nodes[0] += 1
        if nodes[0] > budget:
            raise OverflowError
        if i == len(order):
            if any(k != v for k, v in f.items()):
                res.append(dict(f))
            return
        u = order[i]
        for x in order:
            if x not in used and cm[x] == cm[u] and comp[x] == comp[u] and ok(u, x):
                f[u] = x
                used.add(x)
                rec(i + 1)
                del f[u]
                used.discard(x)
    rec(0)
    return res


def automorphism_check(m):
    """get_automorphism_mapping yields exactly the non-identity automorphisms (classes = _chiral_morgan, components kept in
    place), each once; every yielded mapping is re-validated directly"""
    cm = m._chiral_morgan
    st, r = outcome(lambda: [dict(x) for x in itertools.islice(m.get_automorphism_mapping(), 20000)])
    if st != 'ok':
        return True, f'C07/automorphism/raises/{st}', st
    c = canon(r)
    if len(c) != len(set(c)):
        return True, 'C07/automorphism/duplicate', 'a mapping is yielded twice'
    if len(r) < 20000 and len(cm) <= 40:
        try:
            ref = canon(reference_automorphisms(m))
        except OverflowError:
            ref = None
        if ref is not None and ref != c:
            missing = [x for x in ref if x not in c]
            extra = [x for x in c if x not in ref]
            return True, 'C07/automorphism/' + ('missing' if missing else 'spurious'), (
                f'{len(c)} automorphisms returned, reference has {len(ref)}; missing {missing[:1]} spurious {extra[:1]}')
    for f in r:
        if sorted(f) != sorted(cm) or sorted(f.values()) != sorted(cm) or all(k == v for k, v in f.items()):
            return True, 'C07/automorphism/not-a-permutation', str(f)
        for n, ms in m._bonds.items():
            if cm[n] != cm[f[n]]:
                return True, 'C07/automorphism/class-changed', str(f)
            for k, b in ms.items():
                b2 = m._bonds[f[n]].get(f[k])
                if b2 is None or not (b == b2):
                    return True, 'C07/automorphism/bond-not-preserved', str(f)
    return False, None, f'{len(r)} automorphisms, all valid'


def neighbourhood(rng, inp, k=12):
    """smaller relatives of a suspect input: sub-targets around a mapped region, sub-patterns"""
    yield inp
    if 'pattern' not in inp:
        return
    try:
        t = make_target(inp['target'])
        p = make_pattern(inp['pattern'])
    except Exception:
        return
    acc = bool(inp.get('accelerated'))
    if isinstance(inp['pattern'], dict) and 'hist' in inp['pattern']:
        # the object's past may only show on targets its earlier self matched: the targets it was used on, then a fixed pool
        insts = []
        for st in inp['pattern']['hist']:
            if st[0] == 'use':
                yield {'pattern': inp['pattern'], 'target': st[1], 'scope': None, 'accelerated': acc}
            if st[0] in ('new', 'or', 'ior', 'union') and isinstance(st[1], dict):
                try:
                    ii = instantiate(make_pattern(st[1]))
                except Exception:
                    ii = None
                if ii is not None:
                    insts.append(ii)
                    yield {'pattern': inp['pattern'], 'target': ii, 'scope': None, 'accelerated': acc}
        if len(insts) > 1:
            try:
                yield {'pattern': inp['pattern'], 'target': wire.mol_to_ints(union([make_target(x) for x in insts])),
                       'scope': None, 'accelerated': acc}
            except Exception:
                pass
        for _, hm in molgen.handmade()[:40]:
            yield {'pattern': inp['pattern'], 'target': wire.mol_to_ints(hm), 'scope': None, 'accelerated': acc}
    if isinstance(inp['target'], dict):   # a target with a history: patterns cut from its final structure (one and several
        fp = _state.get('final_patterns')  # components, the whole), then the same final structure without the history
        if fp is not None:
            for _ in range(6):
                for ps in fp(t):
                    yield {'pattern': ps, 'target': inp['target'], 'scope': None, 'accelerated': acc}
        yield {'pattern': inp['pattern'], 'target': wire.mol_to_ints(t), 'scope': inp.get('scope'), 'accelerated': acc}
        return
    for _ in range(k if len(t) > 2 else 0):
        atoms = connected_cut(rng, t, rng.randint(2, min(len(t), 9)))
        sub = rebuild(t.substructure(atoms, recalculate_hydrogens=False))
        sc = inp.get('scope')
        yield {'pattern': inp['pattern'], 'target': wire.mol_to_ints(sub), 'accelerated': acc,
               'scope': None if sc is None else [x for x in sc if x in sub._atoms]}
    if 'mol' in inp['pattern'] and len(p) > 2:
        for _ in range(k // 2):
            atoms = connected_cut(rng, p, rng.randint(1, len(p) - 1))
            sp = p.substructure(atoms, recalculate_hydrogens=False)
            yield {'pattern': {'mol': wire.mol_to_ints(sp)}, 'target': inp['target'], 'scope': inp.get('scope'), 'accelerated': acc}


def fresh_small_cases(ctx, n):
    """random small (pattern, target, scope) triples, targets <= 9 atoms, for the brute-force reference"""
    rng = ctx.rng
    hand = [m for _, m in molgen.handmade() if len(m) <= 9]
    corp = [m for _, m in molgen.corpus(rng, 80)]
    frags = [molgen.parse(s) for s in FRAGMENTS]
    sm = repo_smarts() + HAND_SMARTS
    for i in range(n):
        r = rng.random()
        if r < 0.35:
            big = rng.choice(corp)
            t = rebuild(big.substructure(connected_cut(rng, big, rng.randint(3, 9)), recalculate_hydrogens=False))
        elif r < 0.6:
            t = rng.choice(hand)
        elif r < 0.8:
            parts = rng.sample(hand, 2)
            t = union(parts)
            if len(t) > 10:
                t = parts[0]
        else:
            k = rng.randint(3, 6)
            e = rng.choice(list(molgen.unlabeled_small_graphs(k))) if k <= 5 else molgen.ring_assembly(rng, 2)
            t = molgen.decorate(rng, list(e), hetero=0.2, multiple=0.1, charge=0.0)
            if len(t) > 10:
                continue
        r = rng.random()
        if r < 0.4:
            sub = t.substructure(connected_cut(rng, t, rng.randint(1, min(5, len(t)))), recalculate_hydrogens=False)
            if rng.random() < 0.3 and sub.bonds_count >= len(sub) and sub.bonds_count:
                n1, n2 = rng.choice(ring_bonds(sub) or [(None, None)])
                if n1 is not None:
                    sub = without_bond(sub, n1, n2)
            pspec = {'mol': wire.mol_to_ints(molgen.renumber(rng, sub)[0])}
        elif r < 0.7:
            pspec = {'mol': wire.mol_to_ints(shuffle_dicts(rng, rng.choice(frags)))}
        else:
            pspec = {'smarts': rng.choice(sm)}
        atoms = list(t._atoms)
        sc = None
        r = rng.random()
        if r < 0.3:
            sc = sorted(rng.sample(atoms, rng.randint(1, len(atoms))))
        elif r < 0.34:
            sc = []
        tints = wire.mol_to_ints(shuffle_dicts(rng, t))
        if rng.random() < 0.3:   # one atom with a changed radical / charge / isotope
            vs = list(perturbed_targets(rng, tints, rng.choice(atoms)))
            if vs:
                tints = rng.choice(vs)[1]
        yield {'pattern': pspec, 'target': tints, 'scope': sc}


def search(ctx):
    """property-level oracle on the real code: suspects from the correspondence, their neighbourhood, then fresh small cases"""
    import time
    budget = 60 if ctx.quick else 420
    t0 = time.time()
    tried = 0
    found = set()
    known = {f['signature'] for f in core.load_findings('C07') if f['status'] == 'known'}

    def run(inp):
        nonlocal tried
        tried += 1
        try:
            fails, sig, what = check_input(inp)
        except Exception as e:  # an input the builders cannot rebuild is not evidence either way
            ctx.dist('search-skipped:' + type(e).__name__)
            return
        if fails and sig not in found:
            found.add(sig)
            ctx.fail(sig, what, inp)

    # a few suspects of every disagreeing stream (not 40 of the same one)
    per_stream = {}
    for stream, inp in _state.get('suspects', []):
        per_stream.setdefault(stream, [])
        if len(per_stream[stream]) < 8:
            per_stream[stream].append(inp)
    suspects = [x for group in itertools.zip_longest(*per_stream.values()) for x in group if x is not None]
    for s in suspects:
        if time.time() - t0 > budget * 0.5:
            break
        try:
            for inp in neighbourhood(ctx.rng, s):
                run(inp)
                if time.time() - t0 > budget * 0.5:
                    break
        except Exception as e:  # a neighbour that cannot be built
            ctx.dist('search-skipped:' + type(e).__name__)
    for inp in fresh_small_cases(ctx, 400 if ctx.quick else 6000):
        if time.time() - t0 > budget:
            break
        run(inp)
    # stereo: marked queries on labelled targets / mirror images / E-Z partners; label-respecting whole-molecule matching
    sms = [x for sm_ in STEREO_SMARTS for x in both_marks(sm_)]
    stg = [m for m in (molgen.parse(x) for x in STEREO_TARGETS) if m is not None]
    for _ in range(150 if ctx.quick else 2500):
        if time.time() - t0 > budget:
            break
        base = wire.mol_to_ints(shuffle_dicts(ctx.rng, ctx.rng.choice(stg)))
        v = relabel(base, atoms=ctx.rng.choice(['keep', 'keep', 'flip', 'drop']), bonds=ctx.rng.choice(['keep', 'keep', 'flip', 'drop']))
        if ctx.rng.random() < 0.7:
            run({'pattern': {'smarts': ctx.rng.choice(sms)}, 'target': v, 'scope': None})
        else:
            spec = stereo_cut(ctx.rng, make_target(base))
            if spec is not None:
                run({'pattern': spec, 'target': v, 'scope': None})
    n_ms = 0
    for tag, pi, ti in gen_ms_cases(ctx):
        if time.time() - t0 > budget or n_ms > (120 if ctx.quick else 1500):
            break
        if pi[0] <= 12 and pi[0] == ti[0]:
            n_ms += 1
            run({'pattern': {'mol': pi}, 'target': ti, 'match_stereo': True})
    for tag, m in molgen.handmade():
        if time.time() - t0 > budget:
            break
        run({'automorphism': wire.mol_to_ints(m)})
    for shape in itertools.product(range(0, 4), repeat=3):
        run({'lazy_product': list(shape)})
    ctx.cov['distribution']['search_inputs_tried'] = tried
    ctx.notes.append(f'search: {tried} inputs run against the independent reference, signatures found: {sorted(found - known)}')


def probe(inp):
    fails, sig, what = check_input(inp)
    return bool(fails), f'{sig}: {what}' if fails else what


def generate(ctx):
    # The anchored matcher code has no literal tables. The compatibility model the driver uses for query patterns
    # (Model/QueryEq.lean, property C08) reads the regenerated element flags (AnyMetal) — refreshed here as well.
    # The SMARTS literals of the rule tables are re-extracted on every run by `repo_smarts()` (inputs, not model parts).
    # The stereo post-filter calls the sign-translation model of property C12, whose two literal tables are regenerated here too.
    from ..gen import gen_query, gen_stereo
    return [gen_query.generate(), gen_stereo.generate()[0]]
