"""C05 — Kekulé and aromatic forms describe the same molecule; conversions are stable (translation_validation).

Tie
  G  `aromatics/_rules.py` (rules, freak_rules) and the atomic-number constants of kekule.py / thiele.py are regenerated
     into Gen/AromaticRules.lean on every run; `aromfix_charge_conserving`, `rule_patches_are_bonds_of_pattern`,
     `constants_are_elements` are kernel-evaluated over that table.
  K  exact functional models (Model/C05Kekule.lean) vs the real private functions:
       cls   the atom classification of `Kekule.__prepare_rings` — exhaustive decision table over
             (Z, charge, radical, neighbours, H, exocyclic double bond) on two ring templates;
       prep  the whole of `__prepare_rings` (skeleton, both repairs of mis-drawn rings, degree / quinone checks,
             pyrroles / double_bonded sets, InvalidAromaticRing) given the implementation's `sssr`;
       fix   the patch loop of `__fix_rings` given the mappings the matcher yielded (recorded by wrapping the queries);
       ks    `_kekule_component`, the backtracking bond-assignment search (Model/C05Search.lean: well-founded recursion, no
             fuel): the yielded paths verbatim and the way the generator ends, on every distinct call the conversions of the
             run made (recorder around the module-level function), on every component with <= 4/5 atoms x every labeling,
             and on sampled larger / ill-formed components; Props §6 proves termination (measure) for all inputs and
             soundness (every yield is a perfect matching of the non-double_bonded atoms, every bond assigned once),
             completeness (a finished generator yields every Kekulé form; InvalidAromaticRing only if none exists) and
             no-duplicates for all prepared components without ambiguous atoms; with ambiguous atoms the three statements
             are kept as Lean `def`s and evaluated against an independent enumeration of all matchings;
       kekf  the whole of kekule() as the composition fix -> prepare -> component split -> search -> assignment ->
             hydrogens (Model/C05Full.lean): returned value and molecule left behind, for every aromatic input.
  R  the implementation's actual outputs are sent to Lean checkers whose soundness is proved in Props/C05.lean:
       kekn  `checkKekule (normalise a) (kekule a)` ∧ `checkMatching` (new double bonds are a perfect matching of the
             acceptor atoms and avoid the fixed-single atoms) for kekule() and for every enumerated form;
       thi   `checkThiele k (thiele k)`;
     plus equalities on the real objects (same numbering, so literal): thiele∘kekule∘thiele = thiele, every enumerated
     Kekulé form aromatises to the same aromatic form, idempotence of both conversions, and numbering independence
     (thiele commutes with renumbering; kekule of a renumbered molecule is accepted and aromatises to the same form).
"""
import itertools
import json
import time

from .. import core, molgen, wire
from ..gen import gen_aromrules

LEVEL = 'translation_validation'
LEVEL_TEXT = ('The bond-assignment search of kekule() (many correct answers: any Kekulé structure) is modelled exactly '
              '(Model/C05Search.lean, output equality with the real generator on every call of the run and on all small '
              'components) with termination proved for all inputs and soundness, completeness (InvalidAromaticRing only if '
              'no Kekulé form exists) and absence of duplicate forms proved for all prepared components without ambiguous '
              'atoms; the whole of kekule() is tied as the composition of the models; independently of that model, and because thiele() has a numbering-sensitive tautomer step, '
              'each actual output is certified run by run by Lean checkers '
              '(`checkKekule`, `checkMatching`, `checkThiele`) whose soundness w.r.t. the declarative relations of '
              'Spec/Kekule.lean (same skeleton, aromatic bonds localised to 1/2, nothing else changed, hydrogens preserved and '
              'equal to what the C04 valence model computes, new double bonds a perfect matching of the acceptor atoms) is '
              'proved for all molecules. The deterministic pieces (atom classification, the whole of __prepare_rings, the '
              'rule patch loop over the regenerated rule table, the ring eligibility of thiele() and the whole of '
              'thiele(fix_tautomers=False) for rings without rule-matched candidates) are exact functional models tied by '
              'output equality, with '
              'universally quantified theorems (totality and reference agreement of the classification, charge conservation '
              'of every repair rule lifted over any match list). Stability / idempotence / numbering independence are '
              'validated on the real objects. Translation validation is the honest level: the decisive step is a proved '
              'checker applied to the code\'s outputs.')
LEVEL_NOTE = ('Lean kernel; hand-written models Model/C05Kekule.lean, Model/C05Search.lean (_kekule_component), '
              'Model/C05Full.lean (kekule() as composition), Model/C05Thiele.lean validated by correspondence, not derived from '
              'the Python text; of the sets handed to the search only membership, emptiness and the first element of '
              'double_bonded are observed (CPython set iteration order and which start atom set.pop() delivers arrive as '
              'recorded inputs, the component split itself is checked against the model); soundness / completeness / '
              'no-duplicates of the search are theorems for components without ambiguous ("pyrrole or pyridine") atoms and '
              'evaluated against an independent enumeration otherwise; Spec/Kekule.lean written from the property text; C04 valence model (Model/Valence.lean over the regenerated '
              'periodic table) as the meaning of "no valence error"; `sssr` (C06) and `get_mapping` (C07) outputs are taken '
              'as inputs; wire encoder; gen_aromrules translator; CachedMethods shim.')
TECHNIQUE = 'Lean 4 proved checkers on the implementation\'s Kekulé / aromatic outputs + exact functional models of the classification, ring preparation, rule patching and the backtracking search (well-founded recursion; invariant proofs of soundness, completeness, no duplicates), differential line protocol'
RULE = ('one case = one request line: a molecule in a concrete numbering / dict order (wire ints) together with the '
        'implementation\'s actual output for one conversion (kekule, every enumerated Kekulé form (<= 48), thiele with and without '
        'tautomer fixing, second applications, the same after a random renumbering), or one row of a decision table. Molecules: '
        'hand-made charged / quinoid / mis-drawn rings, test/arenes.sdf, test/heterocycles_charges.smi, other test/*.sdf, sampled '
        'corpus SMILES (as parsed: aromatic form), every free polyhex benzenoid with <= 5 (quick) / 6 (thorough) hexagons and '
        'random aza variants, every five-membered ring over {C,N,NH,O,S} and six-membered ring over {C,N,NH+,O+} (aromatic form, '
        'one per rotation/reflection class), generated Kekulé structures (fused 5/6-ring skeletons, random maximal matching, '
        'unmatched atoms become pyrrole-like hetero atoms / exocyclic C=X / carbanions, matched atoms C / pyridine N / pyridinium '
        '/ pyrylium / thiopyrylium / P, random substituents), generated aromatic-form ring systems (tame palette with relational '
        'checks, wild palette for the functional streams only); a molecule case is non-trivial when the molecule has at least one '
        'aromatic or aromatised ring; distinct by full request line. Decision tables (every row non-trivial): classification of '
        '__prepare_rings over (Z in 12 elements, charge -2..2, radical, neighbours 2..5, H in None/0..3, exocyclic double bond, '
        'plain / ring-fusion template) = 6000 rows; thiele ring eligibility over 3024 monocyclic templates. Search cases '
        '(`ks`): one case = one call of _kekule_component (component dict in its order, double_bonded with its first element, '
        'pyrroles, buffer_size): the distinct calls recorded from the conversions of the run, every connected degree-2/3 graph '
        'on <= 4 (quick) / 5 (thorough) atoms x all 4^n labelings x buffer 0/7, sampled renumbered 5-/6-atom components and '
        'random ring-system-like graphs incl. ill-formed ones. pi complexes: 24 arene / Cp / hetero-arene cores x coordinated '
        'atom sets x 4 metals x aromatic and Kekulé forms.')
TRUSTED = ['harness/wire.py molecule encoder and the canonicalisers of harness/props/c05.py',
           'Spec/Kekule.lean relations as the meaning of the clauses; Spec/AromaticAtoms.lean reference table',
           'Model/Valence.lean (C04) as the meaning of "hydrogen count follows the valence rules"',
           'gen_aromrules translator (imports the live rule tables)']
ASSUMPTIONS = ['molecule adjacency is symmetric (Graph invariant; the driver answers `malformed` otherwise)',
               '`atom.neighbors` equals the number of non-special bonds (labels are current: calc_labels ran)',
               'ring systems with an unsaturated four-membered ring are excluded from the enumerated-forms clause (recorded gap)',
               'the default thiele(fix_tautomers=True) may move one H between ring nitrogens (documented tautomer '
               'normalisation); the per-atom hydrogen clause is checked on thiele(fix_tautomers=False), the default call is '
               'held to formula / skeleton preservation and to all other clauses',
               'molecules whose non-aromatic atoms already carry an undefined hydrogen count are outside the domain']
HAS_DRIVER = True
EXTRA_MODULES = ['Spec.Kekule', 'Model.C05Kekule', 'Model.C05Rules', 'Model.C05Thiele', 'Model.C05Search', 'Model.C05Full', 'Gen.AromaticRules']
PROGRAMS = ['kekule / thiele against the pinned aromatic reference (corpus/C05_aromatic_reference.json)', 'Thiele.thiele ring eligibility (monocyclic templates)', 'MoleculeContainer.kekule', 'MoleculeContainer.enumerate_kekule', 'MoleculeContainer.thiele',
            'MoleculeContainer.thiele(fix_tautomers=False)', 'Kekule.__prepare_rings', 'Kekule.__fix_rings',
            'MoleculeContainer.calc_implicit (through kekule)', 'aromatics._rules.rules',
            'aromatics.kekule._kekule_component', 'MoleculeContainer.kekule (whole, as composition of the models)']
ENUM_CAP = 48
KNOWN_TAUTOMER_SIG = 'C05/thiele-numbering-dependent/tautomer-fix-acceptor-choice'
KNOWN_SSSR_SIG = 'C05/thiele-numbering-dependent/sssr-choice-in-cages'
KNOWN_BUFFER_SIG = 'C05/kekule:hydrogens-not-as-written/pyridine-search-buffer'
KNOWN_FORM_SIG = 'C05/thiele-depends-on-kekule-form/tautomer-fix'
KNOWN_FALSE_SIG = 'C05/thiele-false-but-changed/tautomer-fix-without-aromatisation'

_state = {}


def generate(ctx):
    path, rules, freaks = gen_aromrules.generate()
    _state['rules'] = rules
    return [path]


# ------------------------------------------------------------------------------------------------
# observation helpers on the real code
# ------------------------------------------------------------------------------------------------

def snapshot(mol):
    """what the property talks about, keyed by atom number (numbering is kept by every conversion)"""
    atoms = {n: (a.atomic_number, a.isotope, a.charge, a.is_radical, a.implicit_hydrogens) for n, a in mol.atoms()}
    bonds = {(min(n, m), max(n, m)): int(b) for n, m, b in mol.bonds()}
    return atoms, bonds


def has_aromatic(mol):
    return any(int(b) == 4 for _, _, b in mol.bonds())


def outcome(f):
    """ok | lib:<ErrorClass> | crash:<ExcType>"""
    from chython.exceptions import InvalidAromaticRing, ValenceError
    try:
        return 'ok', f()
    except InvalidAromaticRing:
        return 'lib:InvalidAromaticRing', None
    except ValenceError:
        return 'lib:ValenceError', None
    except Exception as e:  # noqa
        return 'crash:' + type(e).__name__, None


def sssr_ints(mol):
    rings = [list(r) for r in mol.sssr]
    out = [len(rings)]
    for r in rings:
        out += [len(r)] + r
    return out


def commas(xs):
    return ','.join(str(x) for x in xs)


def impl_prepare(mol):
    """`Kekule.__prepare_rings` on a copy, canonicalised exactly like `showPrep` of the driver"""
    c = mol.copy()
    before = {(n, m): int(b) for n, m, b in c.bonds()}
    st, res = outcome(lambda: c._Kekule__prepare_rings())
    if st == 'lib:InvalidAromaticRing':
        return 'raise', None
    if st != 'ok':
        return st, None
    rings, pyr, db = res
    singles = sorted((min(n, m), max(n, m)) for n, m, b in c.bonds() if int(b) != before[(n, m)])
    if any(int(c._bonds[n][m]) != 1 for n, m in singles):
        return 'crash:bond-changed-to-non-single', None
    s = ('rings=' + ';'.join(f'{n}:{commas(sorted(rings[n]))}' for n in sorted(rings)) + '|pyr=' + commas(sorted(pyr)) +
         '|db=' + commas(sorted(db)) + '|singles=' + ','.join(f'{a}-{b}' for a, b in singles))
    return s, (rings, pyr, db)


class _Rec:
    def __init__(self, q, log):
        self.q, self.log = q, log

    def get_mapping(self, mol, **kw):
        for mp in self.q.get_mapping(mol, **kw):
            self.log.append(list(mp.items()))
            yield mp


def impl_fix(mol):
    """run the real `__fix_rings` on a copy with the rule queries wrapped so that the yielded mappings are recorded.
    Returns (status, returned bool, patched copy, per-rule mapping lists)."""
    import chython.algorithms.aromatics.kekule as kmod
    orig = kmod.rules
    logs = []
    wrapped = []
    for q, af, bf, mm in orig:
        log = []
        logs.append(log)
        wrapped.append((_Rec(q, log), af, bf, mm))
    c = mol.copy()
    kmod.rules = wrapped
    try:
        st, res = outcome(lambda: c._Kekule__fix_rings())
    finally:
        kmod.rules = orig
    return st, res, c, logs


def maps_ints(logs):
    out = [len(logs)]
    for ms in logs:
        out.append(len(ms))
        for mp in ms:
            out.append(len(mp))
            for q, n in mp:
                out += [q, n]
    return out


# ------------------------------------------------------------------------------------------------
# `_kekule_component`: recorder for the calls the real conversions make + direct runs of the real generator
# ------------------------------------------------------------------------------------------------

KS_YIELDS = 12        # yields compared per recorded call (the generator is lazy; `kekule()` itself takes one)


class _FirstSet(set):
    """a set whose iteration starts with a chosen element: `_kekule_component` observes of `double_bonded` only membership,
    emptiness and `next(iter(double_bonded))`; any first element is a possible CPython iteration order"""

    def __init__(self, order):
        super().__init__(order)
        self._order = list(order)

    def __iter__(self):
        return iter(self._order)


def ks_key(rings, dbl, pyr, buf):
    return (tuple((n, tuple(ms)) for n, ms in rings), tuple(dbl), tuple(sorted(pyr)), buf)


def install_recorder():
    """wrap the module-level `_kekule_component` so that every call made by kekule() / enumerate_kekule() during the run is
    recorded with its inputs exactly as passed (component dict order, neighbour order, first element of the set)"""
    import chython.algorithms.aromatics.kekule as kmod
    if getattr(kmod._kekule_component, '_c05_orig', None) is not None:
        return kmod._kekule_component._c05_orig
    orig = kmod._kekule_component
    calls = _state.setdefault('ks_calls', {})

    def recording(rings, double_bonded, pyrroles, buffer_size):
        try:
            dbl = list(double_bonded)          # iteration order of the very object the search will use
            key = ks_key([(n, list(ms)) for n, ms in rings.items()], dbl, pyrroles, buffer_size)
            if key not in calls and len(calls) < 200000:
                calls[key] = _state.get('cur')
            if _state.get('ks_log') is not None:
                _state['ks_log'].append(key)
        except Exception:  # noqa
            pass
        return orig(rings, double_bonded, pyrroles, buffer_size)
    recording._c05_orig = orig
    kmod._kekule_component = recording
    return orig


def remove_recorder():
    import chython.algorithms.aromatics.kekule as kmod
    orig = getattr(kmod._kekule_component, '_c05_orig', None)
    if orig is not None:
        kmod._kekule_component = orig


def real_component():
    import chython.algorithms.aromatics.kekule as kmod
    return getattr(kmod._kekule_component, '_c05_orig', None) or kmod._kekule_component


def fmt_path(p):
    return ' '.join(f'{n},{m},{b}' for n, m, b in p)


def impl_ks(key, ycap):
    """run the real generator on the recorded inputs; returns (status, [paths]) with at most ycap + 1 paths"""
    from chython.exceptions import InvalidAromaticRing
    rings, dbl, pyr, buf = key
    gen = real_component()({n: list(ms) for n, ms in rings}, _FirstSet(dbl), set(pyr), buf)
    ys, status = [], 'done'
    try:
        for path in gen:
            ys.append([tuple(x) for x in path])
            if len(ys) > ycap:
                status = 'more'
                break
    except InvalidAromaticRing:
        status = 'raise'
    except Exception as e:  # noqa
        status = 'crash:' + type(e).__name__
    return status, ys


def ks_line(key, ycap):
    rings, dbl, pyr, buf = key
    ints = [buf, ycap + buf + 3, len(rings)]
    for n, ms in rings:
        ints += [n, len(ms)] + list(ms)
    ints += [len(dbl)] + list(dbl) + [len(pyr)] + list(pyr)
    return 'ks ' + ' '.join(str(x) for x in ints)


def ks_agree(got, status, ys, ycap):
    """model answer vs the real generator: identical yield sequence (verbatim: order of paths, order and direction of the
    entries) and identical end (exhausted / InvalidAromaticRing / exception type); when the real generator was stopped after
    ycap + 1 yields the model must show the same ycap + 1 first"""
    head, _, body = got.partition(' | ')
    mys = [x.strip() for x in body.split(' ; ')] if body.strip() else []
    exp = [fmt_path(p) for p in ys]
    if status == 'more':
        return mys[:ycap + 1] == exp[:ycap + 1] and len(mys) >= ycap + 1
    return head.split()[0] == status and mys == exp


def brute_matchings(rings, db, pyr, cap=20000):
    """independent of both the code and the model: every set of double bonds on the component such that an atom of
    `double_bonded` has none, an atom of `pyrroles` at most one, every other atom exactly one"""
    adj = {n: list(dict.fromkeys(ms)) for n, ms in rings}
    order = list(adj)
    idx = {n: i for i, n in enumerate(order)}
    db, pyr = set(db), set(pyr)
    out = []

    budget = [200000]

    def rec(i, matched, chosen):
        budget[0] -= 1
        if budget[0] < 0 or len(out) >= cap:
            return
        if i == len(order):
            out.append(frozenset(chosen))
            return
        n = order[i]
        if n in db or n in matched:
            rec(i + 1, matched, chosen)
            return
        if n in pyr:
            rec(i + 1, matched, chosen)
        for m in adj[n]:
            if m in idx and idx[m] > i and m not in matched and m not in db:
                rec(i + 1, matched | {n, m}, chosen + [frozenset((n, m))])
    rec(0, frozenset(), [])
    if budget[0] < 0:
        return {('gave-up', i) for i in range(cap)}       # treated like a capped enumeration by the callers
    return set(out)


def path_assignment(rings, path):
    """(is every skeleton bond assigned exactly once, set of double bonds)"""
    edges = {frozenset((n, m)) for n, ms in rings for m in ms}
    got = [frozenset((n, m)) for n, m, _ in path]
    ok = len(got) == len(set(got)) and set(got) == edges and all(b in (1, 2) for _, _, b in path)
    return ok, frozenset(frozenset((n, m)) for n, m, b in path if b == 2)


def small_components(n):
    """every connected simple graph on the atoms 1..n whose degrees are all 2 or 3 (what `__prepare_rings` lets through),
    as a component dict in key order 1..n with ascending neighbour lists"""
    pairs = list(itertools.combinations(range(1, n + 1), 2))
    for mask in range(1 << len(pairs)):
        es = [pairs[i] for i in range(len(pairs)) if mask >> i & 1]
        if not n <= len(es) <= 3 * n // 2:
            continue
        adj = {i: [] for i in range(1, n + 1)}
        for a, b in es:
            adj[a].append(b)
            adj[b].append(a)
        if any(len(v) not in (2, 3) for v in adj.values()):
            continue
        seen, todo = {1}, [1]
        while todo:
            for y in adj[todo.pop()]:
                if y not in seen:
                    seen.add(y)
                    todo.append(y)
        if len(seen) == n:
            yield [(i, adj[i]) for i in range(1, n + 1)]


def shuffled_component(rng, rings):
    """the same graph with other atom numbers, another dict insertion order (a BFS order from a random atom, as
    `__kekule_full` builds it) and shuffled neighbour lists"""
    ids = [n for n, _ in rings]
    new = rng.sample(range(1, 3 * len(ids) + 2), len(ids))
    mp = dict(zip(ids, new))
    adj = {mp[n]: [mp[m] for m in ms] for n, ms in rings}
    for v in adj.values():
        rng.shuffle(v)
    start = rng.choice(list(adj))
    order, queue = [start], [start]
    while queue:
        cur = queue.pop(0)
        for m in adj[cur]:
            if m not in order:
                order.append(m)
                queue.append(m)
    return [(n, adj[n]) for n in order]


def random_component(rng, wild):
    """ring-system-like graphs: a cycle plus chords / fused cycles; `wild` also allows degree 1 and 4 and a missing key"""
    n = rng.randint(3, 12)
    adj = {i: set() for i in range(1, n + 1)}
    for i in range(1, n + 1):
        j = i % n + 1
        adj[i].add(j)
        adj[j].add(i)
    for _ in range(rng.randint(0, n // 2)):
        a, b = rng.sample(range(1, n + 1), 2)
        if b in adj[a]:
            continue
        if not wild and (len(adj[a]) >= 3 or len(adj[b]) >= 3):
            continue
        adj[a].add(b)
        adj[b].add(a)
    if wild and rng.random() < 0.4:
        t = n + 1                                   # pendant atom
        a = rng.randint(1, n)
        adj[t] = {a}
        adj[a].add(t)
    return [(i, sorted(adj[i])) for i in adj]


def labelled(rng, rings, p_db=0.2, p_pyr=0.2):
    ids = [n for n, _ in rings]
    db = [n for n in ids if rng.random() < p_db]
    pyr = [n for n in ids if rng.random() < p_pyr]
    rng.shuffle(db)
    return db, pyr


# ------------------------------------------------------------------------------------------------
# coordinate (order 8) bonds: aromaticity perception of the organic part must not depend on them
# ------------------------------------------------------------------------------------------------

def has_coordinate(mol):
    return any(int(b) == 8 for _, _, b in mol.bonds())


def edit_ints(ints, drop8=False, metal=None):
    """wire ints -> wire ints: without the order-8 bonds (`drop8`) or with one more atom `metal = (z, charge, [ring atoms])`
    bound by order-8 bonds (dict orders of everything else untouched)"""
    it = iter(ints)
    n = next(it)
    rows = []
    for _ in range(n):
        head = [next(it) for _ in range(8)]
        nb = [(next(it), next(it), next(it)) for _ in range(head[7])]
        rows.append((head, nb))
    if drop8:
        rows = [(h, [x for x in nb if x[1] != 8]) for h, nb in rows]
    if metal is not None:
        z, charge, to = metal
        mid = max(h[0] for h, _ in rows) + 1
        rows = [(h, nb + ([(mid, 8, -1)] if h[0] in to else [])) for h, nb in rows]
        rows.append(([mid, z, 0, charge, 0, 0, -1, 0], [(a, 8, -1) for a in to]))
    out = [len(rows)]
    for h, nb in rows:
        out += h[:7] + [len(nb)]
        for x in nb:
            out += list(x)
    return out


def coordinate_domain(k):
    """the coordinate bonds of a Kekulé form end (on the organic side) at carbon atoms or at sp2 nitrogens: the atom types
    for which thiele() consults `not_special_connectivity` only. (Donor atoms O/S/N(sp3)/B/P that carry a coordinate bond
    are counted with it by the documented `len(bonds[n])` tests and are outside this clause.)"""
    for n, m, b in k.bonds():
        if int(b) != 8:
            continue
        for x in (n, m):
            a = k._atoms[x]
            if a.atomic_number in (5, 8, 15, 16, 34) or (a.atomic_number == 7 and a.hybridization != 2):
                if any(int(bb) != 8 for bb in k._bonds[x].values()):
                    return False
    return True


def coordinate_failures(k):
    """`k`: a Kekulé form with coordinate bonds. thiele() must aromatise exactly the bonds it aromatises in the same
    molecule without the coordinate bonds (same numbering, same dict orders)."""
    if not has_coordinate(k) or has_aromatic(k) or not coordinate_domain(k):
        return []
    k0, _ = wire.ints_to_mol(edit_ints(wire.mol_to_ints(k), drop8=True), calc=True)
    t, t0 = k.copy(), k0.copy()
    st, ret = outcome(lambda: t.thiele(fix_tautomers=False))
    st0, ret0 = outcome(lambda: t0.thiele(fix_tautomers=False))
    if st0 != 'ok':
        return []
    if st != 'ok':
        return [('coordinate-bond-changes-aromaticity', f'thiele() {st} with the coordinate bonds, ok without')]
    a, a0 = arom_set(t), arom_set(t0)
    if a != a0 or bool(ret) != bool(ret0):
        return [('coordinate-bond-changes-aromaticity',
                 f'aromatic bonds with the coordinate bonds {sorted(a)} (returned {ret!r}), without them {sorted(a0)} '
                 f'(returned {ret0!r})')]
    return []


PI_CORES = ['c1ccccc1', 'Cc1ccccc1', 'COc1ccccc1', 'CC(=O)c1ccccc1', 'Cc1cccc(C)c1', 'c1ccc2ccccc2c1', 'c1ccc2cc3ccccc3cc2c1',
            'c1ccncc1', 'Cc1ccncc1', 'c1ccc2ncccc2c1', '[cH-]1cccc1', 'C[c-]1cccc1', 'CC(=O)[c-]1cccc1', 'c1ccc2[cH-]ccc2c1',
            'c1ccsc1', 'Cc1ccsc1', 'c1cc[nH]c1', 'c1ccoc1', 'c1ccc2[nH]ccc2c1', 'c1ccc(cc1)c1ccccc1', 'Oc1ccccc1', 'Nc1ccccc1',
            'Cc1cc(C)cc(C)c1', 'c1ccc2c(c1)ccc1ccccc12']
PI_METALS = [(24, 0), (26, 2), (44, 0), (25, 1)]


def pi_complexes(rng=None, cap=None):
    """arene / cyclopentadienyl / hetero-arene complexes drawn with coordinate bonds: for every core, every single ring
    carbon or pyridine nitrogen (substituted and ring-fusion positions included), every adjacent pair and every whole ring as
    the coordinated set; each as the aromatic form and as every Kekulé form of the core"""
    out = []
    for ci, core in enumerate(PI_CORES):
        m = molgen.parse(core)
        if m is None:
            continue
        forms = [('arom', m)]
        st, fs = outcome(lambda: list(itertools.islice(m.copy().enumerate_kekule(), 4)))
        if st == 'ok':
            forms += [(f'kek{i}', f) for i, f in enumerate(fs)]
        rings = [list(r) for r in m.sssr]
        ok = lambda x: m._atoms[x].atomic_number == 6 or (m._atoms[x].atomic_number == 7 and len(m._bonds[x]) == 2
                                                         and not m._atoms[x].implicit_hydrogens)
        sets = []
        for r in rings:
            cs = [x for x in r if ok(x)]
            sets += [(x,) for x in cs]
            sets += [(a, b) for a, b in zip(r, r[1:] + r[:1]) if ok(a) and ok(b)]
            sets.append(tuple(cs))
        sets = list(dict.fromkeys(tuple(sorted(x)) for x in sets if x))
        for si, to in enumerate(sets):
            z, ch = PI_METALS[(ci + si) % len(PI_METALS)]
            for fname, f in forms:
                ints = edit_ints(wire.mol_to_ints(f), metal=(z, ch, set(to)))
                try:
                    mm, _ = wire.ints_to_mol(ints, calc=True)
                except Exception:  # noqa
                    continue
                out.append((f'{core}~{z}@{",".join(map(str, to))}:{fname}', mm))
    if cap is not None and rng is not None and len(out) > cap:
        out = rng.sample(out, cap)
    return out


def wire_core(resp):
    """`<flag> | <mol wire>` with the stereo columns of atoms and bonds blanked"""
    head, _, w = resp.partition(' | ')
    xs = w.split()
    if not xs:
        return resp
    out, i, n = [head, xs[0]], 1, int(xs[0])
    try:
        for _ in range(n):
            row = xs[i:i + 8]
            deg = int(row[7])
            out += row[:6] + ['*', row[7]]
            i += 8
            for _ in range(deg):
                out += xs[i:i + 2] + ['*']
                i += 3
    except (IndexError, ValueError):
        return resp
    return ' '.join(out)


def line(op, *int_lists):
    return op + ' ' + ' '.join(str(x) for xs in int_lists for x in xs)


def unsaturated_four_ring(mol):
    """recorded gap: a four-membered ring all of whose atoms are sp2 / aromatic"""
    for r in mol.sssr:
        if len(r) == 4 and all(any(int(b) in (2, 4) for b in mol._bonds[n].values()) for n in r):
            return True
    return False


def h0_version(mol):
    """the aromatic form with every unspecified hydrogen count of an aromatic atom read as the SMILES standard reads it: none
    (`n` is a pyridine-type nitrogen, `[nH]` a pyrrole-type one). None when nothing is unspecified."""
    c = mol.copy()
    changed = False
    for n, a in c.atoms():
        if a.implicit_hydrogens is None and any(int(b) == 4 for b in c._bonds[n].values()):
            if a.atomic_number == 6:
                return None   # an aromatic carbon without hydrogen count: mis-drawn ring, nothing is "written"
            a._implicit_hydrogens = 0
            changed = True
    return c if changed else None


def buffer_class(mr, expected):
    """class condition of the known finding `pyridine-search-buffer`: with an unbounded number of attempts of the
    pyridine-form search (`kekule(buffer_size=...)`, a documented parameter; default 7) the same molecule in the same
    numbering does get the expected hydrogens. `expected`: {atom number in mr: H}"""
    k2 = mr.copy()
    st, _ = outcome(lambda: k2.kekule(buffer_size=1000000))
    return st == 'ok' and all(k2._atoms[n].implicit_hydrogens == h for n, h in expected.items())


def as_written(mol):
    """`h0_version` when an independent brute-force search finds a valence-valid Kekulé structure for it (then the aromatic
    form is a well-defined molecule whose Kekulé forms must carry exactly these hydrogens); else None"""
    h0 = h0_version(mol)
    if h0 is None or valid_kekule_exists(h0) is not True:
        return None
    return h0


def renumbered_with_h(rng, mol, href):
    """random renumbering of `mol` together with the same renumbering (same dict orders) of its H-completed version"""
    mr, mp = molgen.renumber(rng, mol)
    ref = mr.copy()
    for n, a in href.atoms():
        ref._atoms[mp[n]]._implicit_hydrogens = a.implicit_hydrogens
    return mr, ref, mp


def stale_labels(mol):
    """observables derived from the structure that a conversion must leave current: the labels `calc_labels` writes
    (hybridization, neighbours, heteroatoms, explicit hydrogens, ring marks of atoms and bonds) and the cached string.
    Compared with a copy of the same object whose caches were flushed and labels recalculated (same dict orders and stereo
    marks, so the canonical string must be identical; the values of hybridization / neighbours themselves are tied to the
    Lean label model by the `lab` stream). Returns a list of differences (empty = coherent)."""
    fresh = mol.copy()
    fresh.flush_cache()
    fresh.calc_labels()
    out = []
    for n, a in mol.atoms():
        b = fresh._atoms[n]
        for name in ('hybridization', 'neighbors', 'heteroatoms', 'explicit_hydrogens', 'in_ring', 'ring_sizes'):
            x, y = getattr(a, name), getattr(b, name)
            if x != y:
                out.append(f'atom {n} {name}: {x!r} (fresh: {y!r})')
    for n, m, b in mol.bonds():
        if bool(b.in_ring) != bool(fresh._bonds[n][m].in_ring):
            out.append(f'bond {n}-{m} in_ring: {b.in_ring!r}')
    if not out:
        try:
            s1, s2 = str(mol), str(fresh)
        except Exception as e:  # noqa
            return [f'str() raised {type(e).__name__}']
        if s1 != s2:
            out.append(f'str(): {s1} (fresh: {s2})')
    return out[:4]


def all_h_defined(mol):
    return all(a.implicit_hydrogens is not None for _, a in mol.atoms())


def domain_ok(mol):
    """non-aromatic atoms carry a defined hydrogen count"""
    for n, a in mol.atoms():
        if a.implicit_hydrogens is None and not any(int(b) == 4 for b in mol._bonds[n].values()):
            return False
    return True


# ------------------------------------------------------------------------------------------------
# generators
# ------------------------------------------------------------------------------------------------

MISDRAWN = ['O=n1ccccc1', 'CN=n1ccccc1', 'N=n1ccccc1', '[O-][s+]1cccc1', 'c1cc[s+]([O-])c1', 'O=[n+]1ccn([O-])c1',
            'c1nc#cn1', 'n1c#cn(C)c1', 'O=[n+]1[cH-]cccc1', 'O=[n+]1onc(C)c1C', 'O=[n+]1onc2ccccc12', 'c1ccn(cc1)[Cu]',
            'Cl[Pt](Cl)(n1ccccc1)n1ccccc1', 'O=n1ccc(cc1)-c1ccn(=O)cc1', 'Cc1cc(C)n(=O)c(C)c1', 'O=n1cccc2ccccc12',
            'c1ccc-cc1', 'c1ccc=cc1', 'c1ccccc1c2ccccc2', 'c1ccccc1c1ccccc1c1ccccc1', 'c1ccc2c(c1)c1ccccc21',
            'c1cc2cccc3c2c(c1)cc3', 'C1=Cc2ccccc2C1', 'c1ccc2ccccc2c1', 'o1cccc1', 'n1cccc1', 'c1cc[nH]c1', 'c1ccsc1',
            'c1cc[se]c1', 'c1cc[te]c1', 'c1ccpc1', 'c1cc[pH]c1', 'b1ccccc1', 'c1cc[bH]c1', '[bH-]1ccccc1', 'c1cc[cH-]c1',
            'c1ccc[cH+]cc1', 'c1cc[o+]cc1', 'c1cc[s+]cc1', 'c1cc[nH+]cc1', 'C[n+]1ccccc1', '[O-][n+]1ccccc1', 'O=c1cc[nH]cc1',
            'O=c1ccocc1', 'O=c1ccccn1C', 'O=c1[nH]c(=O)c2[nH]cnc2[nH]1', 'Cn1cnc2c1c(=O)n(C)c(=O)n2C', 'c1ccc2[nH]ccc2c1',
            'c1ccn2cccc2c1', 'c1cnc2[nH]ccc2c1', 'c1ccc2ncccc2c1', 'c1ccc2c(c1)[nH]c1ccccc12', 'c1ccc2c(c1)oc1ccccc12',
            'c1ccc2c(c1)sc1ccccc12', 'c1cc2ccc3cccc4ccc(c1)c2c34', 'c1ccc2cc3ccccc3cc2c1', 'c1cc2cccc3ccc4cccc1c4c32',
            'N1C=CC2=NC=CC2=C1', 'C1=CC=CC=C1', 'C1=CC2=CC=CC2=C1', 'O=C1C=CC(=O)C=C1', 'C1=CNC=C1', 'C1=COC=C1',
            'C1=CSC=C1', 'C1=CC=[N+]([O-])C=C1', 'C1=CC=C2C(=C1)C=CC1=CC=CC=C21', 'c1ccc2c(c1)ccc1c3ccccc3ccc21',
            'C1=CC=C[CH-]1', 'C1=CC=C[CH+]C=C1', '[nH]1cccc1.c1ccccc1', 'c1ccc(cc1)-c1ccccn1', 'Cc1ccc(O)cc1',
            'Nc1ccc(cc1)S(=O)(=O)c1ccccc1', 'c1ccc2c(c1)C(=O)c1ccccc1C2=O', 'n1ccn2ccnc2c1', 'c1cn[nH]c1', 'c1nnn[nH]1',
            'c1ncon1', 'c1nc2ccccc2s1', 'c1ccc2nsnc2c1', 'c1cc2cc[nH]c2cn1', 'Cc1cc2ccccc2[nH]1', 'c1cc[n+]2ccccc2c1',
            'c1ccc2c(c1)cc[n+]1ccccc21', 'c1cc2ccc1CCc1ccc(CC2)cc1', '[nH+]1cc[nH+]cc1', 'C[n+]1cc[n+](C)cc1', '[nH+]1cccc2[nH+]cccc12',
            '[nH2+]1cccc1', 'c1c[nH]c[nH+]1', 'C1=CC=CC=N1~[Cu]', 'Cl[Pt](Cl)(~N1=CC=CC=C1)~N1=CC=CC=C1', 'C1=CC=CN1~[Zn]', 'O=[n+]1on(C)c(C)c1C', 'c1cs[s+]c1', 'c1cc[nH+]c2[nH]ccc12', 'c1cc2cc3ccc(cc4ccc(cc5ccc(cc1n2)[nH]5)n4)[nH]3']


def gen_kekule(rng):
    """a Kekulé structure built from a fused ring skeleton and a random maximal matching (valid by construction as far as
    the alternation goes; the valence check of the real code filters the rest). Returns a MoleculeContainer or None."""
    edges, nxt, rings = [], 1, []

    def ring(size, start):
        nonlocal nxt
        atoms = list(start)
        while len(atoms) < size:
            atoms.append(nxt)
            nxt += 1
        return atoms

    size = rng.choice([5, 5, 6, 6, 6, 6])   # the property names five- and six-membered rings
    r0 = ring(size, [])
    rings.append(r0)
    edges += [(r0[i], r0[(i + 1) % size]) for i in range(size)]
    for _ in range(rng.choice([0, 0, 1, 1, 1, 2, 2, 3])):
        deg = {}
        for a, b in edges:
            deg[a] = deg.get(a, 0) + 1
            deg[b] = deg.get(b, 0) + 1
        free = [(a, b) for a, b in edges if deg[a] == 2 and deg[b] == 2]
        if not free:
            break
        a, b = rng.choice(free)
        size = rng.choice([5, 6, 6, 6])
        r = ring(size, [a, b])
        path = r[1:] + [r[0]]
        edges += [(path[k], path[k + 1]) for k in range(len(path) - 1)]
        rings.append(r)
    ring_atoms = sorted({v for e in edges for v in e})
    deg = {v: 0 for v in ring_atoms}
    for a, b in edges:
        deg[a] += 1
        deg[b] += 1
    # random maximal matching
    order = edges[:]
    rng.shuffle(order)
    matched, double = set(), set()
    for a, b in order:
        if a not in matched and b not in matched:
            matched |= {a, b}
            double.add((a, b))
    elements, charges, extra, orders = {}, {}, [], {}
    for e in edges:
        orders[e] = 2 if e in double else 1
    nbrs = {v: set() for v in ring_atoms}
    for a, b in edges:
        nbrs[a].add(b)
        nbrs[b].add(a)

    def subst(v, el, order=1, charge=0):
        nonlocal nxt
        extra.append((v, nxt))
        orders[(v, nxt)] = order
        elements[nxt] = el
        if charge:
            charges[nxt] = charge
        nxt += 1

    # pass 1: a kind per ring atom.  'C' plain carbon; other kinds are (element, charge, substituent or None)
    kind = {}
    for v in ring_atoms:
        t = rng.random()
        if v in matched:
            if deg[v] == 3:
                kind[v] = 'C' if t < 0.93 else 'N+fused'
            elif t < 0.62:
                kind[v] = 'C'
            elif t < 0.86:
                kind[v] = 'N'
            elif t < 0.90:
                kind[v] = rng.choice(['NH+', 'NMe+', 'N+O-'])
            elif t < 0.93:
                kind[v] = rng.choice(['O+', 'S+'])
            elif t < 0.95:
                kind[v] = 'P'
            else:
                kind[v] = 'C'
        else:
            if deg[v] == 3:
                kind[v] = rng.choice(['N3', 'N3', 'N3', 'B3'])   # (three-connected ring P is ambiguous P(III)/P(V)H by design: design/C05.md §4)
            elif t < 0.30:
                kind[v] = rng.choice(['NH', 'NH', 'NMe'])
            elif t < 0.45:
                kind[v] = 'O'
            elif t < 0.58:
                kind[v] = 'S'
            elif t < 0.62:
                kind[v] = 'Se'
            elif t < 0.80:
                kind[v] = 'C=X'
            elif t < 0.85:
                kind[v] = 'C-'
            elif t < 0.88:
                kind[v] = 'C+'
            elif t < 0.92:
                kind[v] = rng.choice(['BH', 'BMe'])
            elif t < 0.95:
                kind[v] = 'PH'
            else:
                kind[v] = 'CH2'
    # pass 2: keep the chemistry within the classes the property names — at most one charged ring atom per system, and
    # charged O/S, P, B, Se, carbocations / carbanions only between ring carbons (the valence tables of S, P, … are
    # environment specific, so validity of exotic hetero-hetero arrangements depends on the Kekulé form chosen)
    charged = {'N+fused', 'NH+', 'NMe+', 'N+O-', 'O+', 'S+', 'C-', 'C+'}
    exotic = {'O+', 'S+', 'P', 'B3', 'P3', 'Se', 'C-', 'C+', 'BH', 'BMe', 'PH'}
    one = False
    for v in ring_atoms:
        k = kind[v]
        bad = (k in charged and one) or (k in exotic and any(kind[w] not in ('C', 'C=X', 'CH2') for w in nbrs[v])) \
            or (k in ('C-', 'C+') and len(rings) > 1)
        if bad:
            kind[v] = 'C' if v in matched else ('N3' if deg[v] == 3 else 'NH')
        elif k in charged:
            one = True
    for v in ring_atoms:
        k = kind[v]
        if k == 'C':
            elements[v] = 'C'
            if deg[v] == 2 and rng.random() < 0.3:
                subst(v, rng.choice(['C', 'C', 'O', 'N', 'F', 'Cl', 'S']))
        elif k in ('N', 'N3', 'NH'):
            elements[v] = 'N'
        elif k == 'NMe':
            elements[v] = 'N'
            subst(v, 'C')
        elif k in ('N+fused', 'NH+'):
            elements[v] = 'N'
            charges[v] = 1
        elif k == 'NMe+':
            elements[v] = 'N'
            charges[v] = 1
            subst(v, 'C')
        elif k == 'N+O-':
            elements[v] = 'N'
            charges[v] = 1
            subst(v, 'O', 1, -1)
        elif k in ('O+', 'S+'):
            elements[v] = k[0]
            charges[v] = 1
        elif k in ('P', 'P3', 'PH'):
            elements[v] = 'P'
        elif k in ('B3', 'BH'):
            elements[v] = 'B'
        elif k == 'BMe':
            elements[v] = 'B'
            subst(v, 'C')
        elif k in ('O', 'S', 'Se'):
            elements[v] = k
        elif k == 'C=X':
            elements[v] = 'C'
            subst(v, rng.choice(['O', 'O', 'C', 'N', 'S']), 2)
        elif k == 'C-':
            elements[v] = 'C'
            charges[v] = -1
        elif k == 'C+':
            elements[v] = 'C'
            charges[v] = 1
        else:
            elements[v] = 'C'   # sp3 CH2: that ring is not aromatic
    try:
        m = molgen.from_edges(edges + extra, elements, orders, charges)
    except Exception:
        return None
    return m


def gen_tautomer(rng):
    """a member of the family of fused aza-heterocycles in an arbitrary (often unusual) tautomeric form: skeletons 6-5, 6-6-5,
    6-5-6, 5-6-5 (random fusion edges), exactly one ring N-H placed in a six-membered ring, one or two further pyridine-type
    nitrogens, zero to two ring carbonyls; the remaining ring atoms carry a perfect matching of double bonds (found by
    backtracking), so the result is a valence-valid Kekulé structure. Returns a MoleculeContainer or None."""
    sizes = rng.choice([(6, 5), (6, 5), (6, 6, 5), (6, 5, 6), (5, 6, 5), (6, 5, 5)])
    edges, nxt, rings = [], 1, []
    for size in sizes:
        if not rings:
            r = list(range(1, size + 1))
            nxt = size + 1
            edges += [(r[i], r[(i + 1) % size]) for i in range(size)]
        else:
            deg = {}
            for a, b in edges:
                deg[a] = deg.get(a, 0) + 1
                deg[b] = deg.get(b, 0) + 1
            last = rings[-1]
            free = [(a, b) for a, b in edges if deg[a] == 2 and deg[b] == 2 and a in last and b in last]
            if not free:
                return None
            a, b = rng.choice(free)
            new = list(range(nxt, nxt + size - 2))
            nxt += size - 2
            r = [a, b] + new
            path = [b] + new + [a]
            edges += [(path[k], path[k + 1]) for k in range(len(path) - 1)]
        rings.append(r)
    atoms = sorted({v for e in edges for v in e})
    deg = {v: 0 for v in atoms}
    nb = {v: set() for v in atoms}
    for a, b in edges:
        deg[a] += 1
        deg[b] += 1
        nb[a].add(b)
        nb[b].add(a)
    two = [v for v in atoms if deg[v] == 2]
    six = [v for r in rings if len(r) == 6 for v in r if deg[v] == 2]
    if not six:
        return None
    nh = rng.choice(six)
    others = [v for v in two if v != nh]
    rng.shuffle(others)
    n_n, n_co = rng.choice([1, 1, 2]), rng.choice([0, 1, 1, 2])
    ns = set(others[:n_n])
    cos = set(others[n_n:n_n + n_co])
    todo = [v for v in atoms if v != nh and v not in cos]
    # perfect matching of `todo` by backtracking
    match = {}

    def rec(rest):
        if not rest:
            return True
        v = rest[0]
        for w in nb[v]:
            if w in rest:
                match[v] = w
                if rec([x for x in rest if x not in (v, w)]):
                    return True
                del match[v]
        return False
    order = todo[:]
    rng.shuffle(order)
    if len(todo) % 2 or not rec(order):
        return None
    elements = {v: 'C' for v in atoms}
    for v in ns | {nh}:
        elements[v] = 'N'
    orders = {}
    for a, b in edges:
        orders[(a, b)] = 2 if match.get(a) == b or match.get(b) == a else 1
    extra = []
    for v in cos:
        extra.append((v, nxt))
        orders[(v, nxt)] = 2
        elements[nxt] = 'O'
        nxt += 1
    if rng.random() < 0.3:
        c = rng.choice([v for v in two if elements[v] == 'C' and v not in cos] or [None])
        if c:
            extra.append((c, nxt))
            elements[nxt] = rng.choice(['C', 'N', 'O', 'Cl'])
            nxt += 1
    try:
        m = molgen.from_edges(edges + extra, elements, orders, {})
    except Exception:
        return None
    if m.check_valence():
        return None
    return m


def small_ring_fusions():
    """exhaustive family: an aromatic core (benzene, pyridine, naphthalene, pyrrole, furan, thiophene) condensed at every
    distinct edge with one further ring of 3, 4, 5, 7 or 8 atoms (carbon), with EVERY placement of double bonds in which all
    core atoms except a five-ring hetero atom carry exactly one double bond and the atoms of the new ring carry at most
    one (unmatched new atoms are sp3 CH2): cyclopropa-, cyclobuta(diene)-, cyclopenta-, cyclohepta-, cycloocta-arenes in
    all their Kekulé forms. Yields (name, MoleculeContainer)."""
    cores = [
        ('benzo', 6, {}, [(1, 2)]),
        ('pyrido', 6, {1: 'N'}, [(2, 3), (3, 4)]),
        ('naphtho', 10, {}, [(1, 2), (2, 3)]),
        ('pyrrolo', 5, {1: 'N'}, [(2, 3), (3, 4)]),
        ('furo', 5, {1: 'O'}, [(2, 3), (3, 4)]),
        ('thieno', 5, {1: 'S'}, [(2, 3), (3, 4)]),
    ]
    for cname, n_core, hetero, fusions in cores:
        if n_core == 10:
            core_edges = [(1, 2), (2, 3), (3, 4), (4, 5), (5, 6), (6, 1), (5, 7), (7, 8), (8, 9), (9, 10), (10, 6)]
            # renumber so that (1,2) and (2,3) are outer edges of one ring
        else:
            core_edges = [(i, i % n_core + 1) for i in range(1, n_core + 1)]
        donor = {v for v, el in hetero.items() if n_core == 5}
        for fe in fusions:
            for size in (3, 4, 5, 7, 8):
                new = list(range(n_core + 1, n_core + size - 1))
                path = [fe[1]] + new + [fe[0]]
                edges = core_edges + [(path[k], path[k + 1]) for k in range(len(path) - 1)]
                verts = list(range(1, n_core + size - 1))
                must = [v for v in range(1, n_core + 1) if v not in donor]
                seen_m = set()

                def rec(i, used, chosen):
                    if i == len(edges):
                        if all(v in used for v in must):
                            yield frozenset(chosen)
                        return
                    a, b = edges[i]
                    yield from rec(i + 1, used, chosen)
                    if a not in used and b not in used and a not in donor and b not in donor:
                        yield from rec(i + 1, used | {a, b}, chosen + [edges[i]])
                for mset in rec(0, frozenset(), []):
                    if mset in seen_m:
                        continue
                    seen_m.add(mset)
                    orders = {e: (2 if e in mset else 1) for e in edges}
                    elements = {v: hetero.get(v, 'C') for v in verts}
                    try:
                        m = molgen.from_edges(edges, elements, orders, {})
                    except Exception:
                        continue
                    if m.check_valence():
                        continue
                    yield f'{cname}-{fe[0]}{fe[1]}-{size}ring', m


def phenylenes():
    """exhaustive family: two aromatic cores (benzene, pyridine, thiophene, pyrrole) joined by two bonds into a four-membered
    ring (biphenylene and its hetero analogues), in every Kekulé form (all core atoms except five-ring hetero atoms carry
    exactly one double bond; the linking bonds may be single or double). Yields (name, MoleculeContainer)."""
    cores = [('benzene', 6, {}, (1, 2)), ('pyridine', 6, {1: 'N'}, (2, 3)), ('pyridine34', 6, {1: 'N'}, (3, 4)),
             ('thiophene', 5, {1: 'S'}, (3, 4)), ('pyrrole', 5, {1: 'N'}, (2, 3))]
    for i, (na, sa, ha, fa) in enumerate(cores):
        for nb_, sb, hb, fb in cores[i:]:
            ea = [(k, k % sa + 1) for k in range(1, sa + 1)]
            eb = [(sa + k, sa + k % sb + 1) for k in range(1, sb + 1)]
            link = [(fa[0], sa + fb[1]), (fa[1], sa + fb[0])]
            edges = ea + eb + link
            elements = {v: 'C' for v in range(1, sa + sb + 1)}
            donor = set()
            for v, el in ha.items():
                elements[v] = el
                if sa == 5:
                    donor.add(v)
            for v, el in hb.items():
                elements[sa + v] = el
                if sb == 5:
                    donor.add(sa + v)
            must = [v for v in elements if v not in donor]

            def rec(k, used, chosen):
                if k == len(edges):
                    if all(v in used for v in must):
                        yield list(chosen)
                    return
                a, b = edges[k]
                yield from rec(k + 1, used, chosen)
                if a not in used and b not in used and a not in donor and b not in donor:
                    yield from rec(k + 1, used | {a, b}, chosen + [edges[k]])
            for mset in rec(0, frozenset(), []):
                orders = {e: (2 if e in mset else 1) for e in edges}
                try:
                    m = molgen.from_edges(edges, elements, orders, {})
                except Exception:
                    continue
                if not m.check_valence():
                    yield f'{na}+{nb_}', m


def polyhexes(n_max):
    """free polyhexes (benzenoid skeletons) with up to `n_max` hexagons, exhaustive: sets of cells of the hexagonal lattice
    grown cell by cell, one representative per class under the 12 lattice symmetries. Yields lists of axial cells."""
    def canon(cells):
        best = None
        for refl in (False, True):
            cs = [(r, q) for q, r in cells] if refl else list(cells)
            for _ in range(6):
                cs = [(-r, q + r) for q, r in cs]      # rotation by 60 degrees in axial coordinates
                fq, fr = min(cs)                       # translate the lexicographically first cell to the origin
                key = tuple(sorted((q - fq, r - fr) for q, r in cs))
                if best is None or key < best:
                    best = key
        return best
    level = {canon([(0, 0)])}
    seen = set(level)
    for n in range(1, n_max + 1):
        for cells in sorted(level):
            yield list(cells)
        if n == n_max:
            break
        nxt = set()
        for cells in level:
            cs = set(cells)
            for q, r in cells:
                for dq, dr in ((1, 0), (-1, 0), (0, 1), (0, -1), (1, -1), (-1, 1)):
                    c = (q + dq, r + dr)
                    if c not in cs:
                        k = canon(list(cs | {c}))
                        if k not in seen:
                            seen.add(k)
                            nxt.add(k)
        level = nxt


def polyhex_graph(cells):
    """vertices / edges of the hexagon corners of a set of lattice cells"""
    import math
    idx, edges = {}, set()
    for q, r in cells:
        cx, cy = math.sqrt(3) * (q + r / 2), 1.5 * r
        corners = []
        for k in range(6):
            a = math.radians(30 + 60 * k)
            key = (round(cx + math.cos(a), 3), round(cy + math.sin(a), 3))
            if key not in idx:
                idx[key] = len(idx) + 1
            corners.append(idx[key])
        for k in range(6):
            a, b = corners[k], corners[(k + 1) % 6]
            edges.add((min(a, b), max(a, b)))
    return len(idx), sorted(edges)


def benzenoid(cells, rng=None, aza=0.0):
    """aromatic-form benzenoid (all ring bonds order 4); with `aza` > 0 two-connected CH are replaced by N at random"""
    from chython import MoleculeContainer
    from chython.periodictable import Element
    n, edges = polyhex_graph(cells)
    deg = {v: 0 for v in range(1, n + 1)}
    for a, b in edges:
        deg[a] += 1
        deg[b] += 1
    m = MoleculeContainer()
    for v in range(1, n + 1):
        el = 'N' if (rng is not None and deg[v] == 2 and rng.random() < aza) else 'C'
        m.add_atom(Element.from_symbol(el)(), v, _skip_calculation=True)
    for a, b in edges:
        m.add_bond(a, b, 4, _skip_calculation=True)
    m.fix_structure()
    return m


def hetero_monocycles(size):
    """every five- / six-membered monocyclic ring over the ring-atom types of the classical heteroaromatics, aromatic form,
    one representative per rotation / reflection class (exhaustive)"""
    from chython import MoleculeContainer
    from chython.periodictable import Element
    types = [('C', 0, None), ('N', 0, None), ('N', 0, 1), ('O', 0, None), ('S', 0, None)] if size == 5 else \
        [('C', 0, None), ('N', 0, None), ('N', 1, 1), ('O', 1, None)]
    seen = set()
    for combo in itertools.product(range(len(types)), repeat=size):
        variants = []
        for refl in (combo, combo[::-1]):
            for k in range(size):
                variants.append(refl[k:] + refl[:k])
        key = min(variants)
        if key in seen:
            continue
        seen.add(key)
        m = MoleculeContainer()
        for i, t in enumerate(key, 1):
            el, ch, h = types[t]
            m.add_atom(Element.from_symbol(el)(charge=ch), i, _skip_calculation=True)
        for i in range(1, size + 1):
            m.add_bond(i, i % size + 1, 4, _skip_calculation=True)
        m.fix_structure()
        for i, t in enumerate(key, 1):
            if types[t][2] is not None:
                m._atoms[i]._implicit_hydrogens = types[t][2]
        yield ''.join(types[t][0] + ('+' if types[t][1] else '') + ('H' if types[t][2] else '') for t in key), m


def gen_arom(rng, wild=False):
    """an aromatic-form ring system with random atom types (many are not kekulisable: those exercise the raise paths).
    `wild`: any of the element / charge / hydrogen combinations the classification distinguishes, chemically meaningless
    ones included — used for the K streams and crash-freedom only."""
    from chython import MoleculeContainer
    from chython.periodictable import Element
    size = rng.choice([5, 5, 6, 6, 6, 7]) if wild else rng.choice([5, 5, 6, 6, 6])
    n2 = rng.choice([0, 0, 5, 6])
    edges = [(i + 1, (i + 1) % size + 1) for i in range(size)]
    nxt = size + 1
    if n2:
        path = [2] + list(range(nxt, nxt + n2 - 2)) + [1]
        nxt += n2 - 2
        edges += [(path[k], path[k + 1]) for k in range(len(path) - 1)]
    ring_atoms = list(range(1, nxt))
    deg = {v: 0 for v in ring_atoms}
    for a, b in edges:
        deg[a] += 1
        deg[b] += 1
    m = MoleculeContainer()
    if wild:
        palette = [('C', 0, None)] * 12 + [('N', 0, None)] * 4 + [('N', 0, 1), ('O', 0, None), ('S', 0, None), ('N', 1, None),
                                                                   ('N', 1, 1), ('O', 1, None), ('S', 1, None), ('C', -1, None),
                                                                   ('C', 1, None), ('B', 0, None), ('B', -1, None), ('P', 0, None),
                                                                   ('Se', 0, None), ('N', -1, None), ('B', 0, 1), ('P', 0, 1),
                                                                   ('Si', 0, None), ('Te', 0, None), ('As', 0, None)]
    else:
        palette = [('C', 0, None)] * 14 + [('N', 0, None)] * 5 + [('N', 0, 1), ('N', 0, 1), ('O', 0, None), ('S', 0, None),
                                                                   ('N', 1, 1), ('O', 1, None), ('S', 1, None), ('Se', 0, None)]
    forced = {}
    nbrs = {v: set() for v in ring_atoms}
    for a, b in edges:
        nbrs[a].add(b)
        nbrs[b].add(a)
    choice = {v: rng.choice(palette) for v in ring_atoms}
    if not wild:
        # the classes the property names: at most one charged ring atom, O / S / Se and charged atoms between ring
        # carbons, an explicit hydrogen only on a two-connected ring atom
        one = False
        for v in ring_atoms:
            el, ch, h = choice[v]
            bad = (ch != 0 and one) or (h is not None and deg[v] != 2) or \
                ((el in ('O', 'S', 'Se') or ch != 0) and any(choice[w][0] != 'C' or choice[w][1] != 0 for w in nbrs[v]))
            if bad:
                choice[v] = ('C', 0, None)
            elif ch != 0:
                one = True
    for v in ring_atoms:
        el, ch, h = choice[v]
        m.add_atom(Element.from_symbol(el)(charge=ch), v, _skip_calculation=True)
        forced[v] = h
    for a, b in edges:
        m.add_bond(a, b, 4, _skip_calculation=True)
    for v in ring_atoms:
        if deg[v] == 2 and rng.random() < 0.25 and (wild or forced[v] is None):
            el, o = rng.choice([('C', 1), ('O', 1), ('N', 1), ('O', 2), ('C', 2), ('Cl', 1), ('S', 2)])
            m.add_atom(Element.from_symbol(el)(), nxt, _skip_calculation=True)
            m.add_bond(v, nxt, o, _skip_calculation=True)
            nxt += 1
    m.fix_structure()
    for v, h in forced.items():
        if h is not None:
            m._atoms[v]._implicit_hydrogens = h
    return m


def valid_kekule_exists(mol, cap=4000):
    """independent reference (brute force): is there an assignment of single/double to the aromatic bonds, at most one
    double per atom, under which every ring atom gets a hydrogen count from the valence rules that equals the given one
    (where one is given)? Molecules without such an assignment are not aromatic *molecules* (outside the domain)."""
    arom = [(n, m) for n, m, b in mol.bonds() if int(b) == 4]
    if not arom:
        return True
    c = mol.copy()
    ring_atoms = sorted({x for e in arom for x in e})
    given = {n: mol._atoms[n].implicit_hydrogens for n in ring_atoms}
    budget = [cap]

    def leaf():
        budget[0] -= 1
        for n in ring_atoms:
            c.calc_implicit(n)
            h = c._atoms[n].implicit_hydrogens
            if h is None or (given[n] is not None and h != given[n]):
                return False
        return True

    def rec(i, used):
        if budget[0] <= 0:
            return None
        if i == len(arom):
            return leaf()
        n, m = arom[i]
        b = c._bonds[n][m]
        res = False
        if n not in used and m not in used:
            b._order = 2
            r = rec(i + 1, used | {n, m})
            if r:
                return True
            res = r
        b._order = 1
        r = rec(i + 1, used)
        if r:
            return True
        return None if (r is None or res is None) else False

    return rec(0, frozenset())


def cls_template(z, charge, radical, nb, h, exo, fused):
    """ring template for one classification row: atom 1 = X in a six-membered aromatic ring (optionally the fusion atom of a
    naphthalene skeleton), `nb` non-special neighbours, optional exocyclic double bond. Returns wire ints or None when the
    row is not constructible (exo needs a substituent; the fusion atom has three ring bonds)."""
    ring = [1, 2, 3, 4, 5, 6]
    bonds = [(ring[i], ring[(i + 1) % 6], 4) for i in range(6)]
    n_atoms = 6
    ring_deg = 2
    if fused:
        bonds += [(1, 7, 4), (7, 8, 4), (8, 9, 4), (9, 10, 4), (10, 2, 4)]
        n_atoms = 10
        ring_deg = 3
    nsub = nb - ring_deg
    if nsub < 0 or (exo and nsub < 1) or (exo and fused):
        return None
    zs = {i: 6 for i in range(1, n_atoms + 1)}
    zs[1] = z
    for k in range(nsub):
        n_atoms += 1
        zs[n_atoms] = 6
        bonds.append((1, n_atoms, 2 if (exo and k == 0) else 1))
    adj = {i: [] for i in range(1, n_atoms + 1)}
    for a, b, o in bonds:
        adj[a].append((b, o))
        adj[b].append((a, o))
    out = [n_atoms]
    for i in range(1, n_atoms + 1):
        if i == 1:
            row = [i, z, 0, charge, int(radical), -1 if h is None else h, -1, len(adj[i])]
        else:
            arom = sum(1 for _, o in adj[i] if o == 4)
            hh = 1 if (arom == 2 and len(adj[i]) == 2) else (0 if arom else 4 - sum(o for _, o in adj[i]))
            row = [i, 6, 0, 0, 0, hh, -1, len(adj[i])]
        out += row
        for b, o in adj[i]:
            out += [b, o, -1]
    return out


TH_Z = [5, 6, 7, 8, 15, 16, 34, 14]


def mono_templates():
    """monocyclic templates for the ring-eligibility table of thiele(): ring size 3..8, atom 1 = X (element, charge,
    0..2 substituents, optionally one of them a coordinate bond or an exocyclic double bond), the other ring atoms carbon
    with the double bonds placed by `variant`. Yields (key, MoleculeContainer)."""
    from chython import MoleculeContainer
    from chython.periodictable import Element
    for lr in range(3, 9):
        for variant in ('alt', 'shift', 'exo'):
            if lr % 2:
                dbl = {'alt': [(i, i + 1) for i in range(2, lr, 2)],           # X single: lr-1 sp2 carbons
                       'shift': [(i, i + 1) for i in range(1, lr - 1, 2)],     # X double, atom lr sp3
                       'exo': [(i, i + 1) for i in range(2, lr, 2)][1:]}[variant]
            else:
                dbl = {'alt': [(i, i + 1) for i in range(1, lr, 2)],           # all sp2
                       'shift': [(i, i + 1) for i in range(2, lr - 1, 2)],     # X single, atom lr sp3
                       'exo': [(i, i + 1) for i in range(1, lr, 2)][:-1]}[variant]
            for z in TH_Z:
                for charge in (-1, 0, 1):
                    for subs in ((), (1,), (1, 1), (8,), (1, 8), (2,), (1, 1, 1)):
                        m = MoleculeContainer()
                        for i in range(1, lr + 1):
                            el = Element.from_atomic_number(z)(charge=charge) if i == 1 else Element.from_atomic_number(6)()
                            m.add_atom(el, i, _skip_calculation=True)
                        for i in range(1, lr + 1):
                            j = i % lr + 1
                            m.add_bond(i, j, 2 if ((i, j) in dbl or (j, i) in dbl) else 1, _skip_calculation=True)
                        nxt = lr + 1
                        for o in subs:
                            m.add_atom(Element.from_atomic_number(29 if o == 8 else 6)(), nxt, _skip_calculation=True)
                            m.add_bond(1, nxt, o, _skip_calculation=True)
                            nxt += 1
                        if variant == 'exo':
                            # the two carbons that lost their ring double bond get an exocyclic C=O (quinone-like)
                            gone = [(i, i + 1) for i in (range(2, lr, 2) if lr % 2 else range(1, lr, 2))]
                            gone = [e for e in gone if e not in dbl]
                            for e in gone:
                                for a in e:
                                    m.add_atom(Element.from_atomic_number(8)(), nxt, _skip_calculation=True)
                                    m.add_bond(a, nxt, 2, _skip_calculation=True)
                                    nxt += 1
                        try:
                            m.fix_structure()
                        except Exception:
                            continue
                        yield (lr, variant, z, charge, subs), m


CLS_Z = [5, 6, 7, 8, 15, 16, 33, 34, 52, 14, 9, 32]


def cls_rows():
    for z in CLS_Z:
        for charge in (-2, -1, 0, 1, 2):
            for radical in (False, True):
                for nb in (2, 3, 4, 5):
                    for h in (None, 0, 1, 2, 3):
                        for exo in (False, True):
                            for fused in (False, True):
                                ints = cls_template(z, charge, radical, nb, h, exo, fused)
                                if ints is not None:
                                    yield (z, charge, radical, nb, h, exo, fused), ints


# ------------------------------------------------------------------------------------------------
# one molecule -> request lines + expectations
# ------------------------------------------------------------------------------------------------

class Batch:
    """collects request lines with the expected answer (K) or the required verdict (R)"""

    def __init__(self):
        self.lines, self.expect, self.meta = [], [], []

    def add(self, ln, expect, kind, name, info):
        self.lines.append(ln)
        self.expect.append(expect)
        self.meta.append((kind, name, info))


def eq_snap(a, b):
    return snapshot(a) == snapshot(b)


def diff_snap(a, b):
    (aa, ab), (ba, bb) = snapshot(a), snapshot(b)
    d = [f'atom {n}: {aa.get(n)} -> {ba.get(n)}' for n in sorted(set(aa) | set(ba)) if aa.get(n) != ba.get(n)]
    d += [f'bond {k}: {ab.get(k)} -> {bb.get(k)}' for k in sorted(set(ab) | set(bb)) if ab.get(k) != bb.get(k)]
    return '; '.join(d[:6])


def labels_line(mol):
    return ';'.join(f'{n}:{a.hybridization}:{a.neighbors}' for n, a in mol.atoms())


def mol_cases(tag, mol, batch, rel, rng, renum=True, dist=None, known=None, extra_renum=0):
    """Append the K/R request lines of one molecule to `batch`; report relational disagreements found on the real objects
    through `rel(name, detail, ints)`. Returns True when the molecule is non-trivial (has an aromatic / aromatised ring)."""
    def d(key, n=1):
        if dist is not None:
            dist(key, n)
    ints0 = wire.mol_to_ints(mol)
    _state['cur'] = ints0
    if not domain_ok(mol):
        d('skipped:undefined-H-outside-rings')
        return False
    nontrivial = False
    src = mol
    # ---- kekule of the molecule as given (aromatic form from the reader, or already localised)
    if has_aromatic(src):
        nontrivial = True
        st, ret, fixed, logs = impl_fix(src)
        if st != 'ok':
            rel('fix_rings-outcome', f'{tag}: __fix_rings {st}', ints0)
            return True
        nmaps = sum(len(x) for x in logs)
        if nmaps:
            d('fix:rule-fired')
            batch.add(line('fix', ints0, maps_ints(logs)), ('fix', wire.mol_to_line(fixed), bool(ret)), 'K', 'fix', (tag, ints0))
            if sum(a.charge for _, a in src.atoms()) != sum(a.charge for _, a in fixed.atoms()):
                rel('fix-changes-total-charge', f'{tag}', ints0)
        fints = wire.mol_to_ints(fixed)
        pstr, pres = impl_prepare(fixed)
        batch.add(line('prep', fints, sssr_ints(fixed)), pstr, 'K', 'prep', (tag, fints))
        k = src.copy()
        _state['ks_log'] = []
        try:
            st, ret = outcome(lambda: k.kekule())
        finally:
            klog, _state['ks_log'] = _state['ks_log'], None
        d('kekule:' + st)
        if st.startswith('crash'):
            rel('kekule-outcome', f'{tag}: kekule() {st}', ints0)
            return True
        # K: the whole of kekule() as the composition of the modelled pieces (fix -> prepare -> components -> search ->
        # assignment -> hydrogens), given what the real call observed of its sets (component starts, first elements)
        comp_ints = [7, len(klog)]
        for rings_k, dbl_k, pyr_k, _ in klog:
            comp_ints.append(len(rings_k))
            for n_, ms_ in rings_k:
                comp_ints += [n_, len(ms_)] + list(ms_)
            comp_ints += [len(dbl_k)] + list(dbl_k) + [len(pyr_k)] + list(pyr_k)
        batch.add(line('kekf', ints0, maps_ints(logs), sssr_ints(fixed), comp_ints),
                  'raise' if st == 'lib:InvalidAromaticRing' else f'{int(bool(ret))} | {wire.mol_to_line(k)}', 'KK',
                  'kekule-full-model', (tag, ints0))
        if tag.startswith('gen-arom-wild'):
            d('gen-arom-wild:K-streams-only')
            return False
        if st == 'ok' and tag.startswith(('gen-arom', 'heterocycle')) and not valid_kekule_exists(fixed):
            # random atom types: no valence-valid Kekulé structure exists, so this is not an aromatic molecule; the K
            # streams above (prep, fix) and crash-freedom are still checked
            d('gen-arom:no-valid-kekule-structure(outside domain)')
            return False
        if st == 'ok':
            if pstr == 'raise':
                rel('prepare-raise-but-kekule-ok', tag, ints0)
            if ret is not True:
                rel('kekule-return', f'{tag}: returned {ret!r} on a molecule with aromatic bonds', ints0)
            written = as_written(fixed) if not nmaps else None
            if written is not None:
                # the reader leaves the hydrogens of `n` undefined; the SMILES standard does not: the Kekulé form must carry
                # the hydrogens as written, for every numbering
                d('kekule:checked-against-hydrogens-as-written')
                hw = {n: a.implicit_hydrogens for n, a in written.atoms()}

                def as_written_line(arom_ref, kek, orig, expected, name):
                    if any(kek._atoms[n].implicit_hydrogens != h for n, h in expected.items()) and known is not None \
                            and buffer_class(orig, expected):
                        d('known:pyridine-search-buffer-exhausted')
                        known(KNOWN_BUFFER_SIG, f'{tag}: kekule() gives ' + str(kek) + ' for ' + str(written), ints0)
                    else:
                        batch.add(line('kekn', wire.mol_to_ints(arom_ref), wire.mol_to_ints(kek), sssr_ints(arom_ref)), 'ok', 'R',
                                  name, (tag, wire.mol_to_ints(arom_ref)))
                as_written_line(written, k, src, hw, 'kekule-hydrogens-as-written')
                for _ in range(extra_renum):
                    mr, refr, mp = renumbered_with_h(rng, src, written)
                    kr = mr.copy()
                    st2, _ = outcome(lambda: kr.kekule())
                    if st2 != 'ok':
                        rel('kekule-numbering-dependent', f'{tag}: kekule(pi m) {st2}', ints0)
                        break
                    as_written_line(refr, kr, mr, {mp[n]: h for n, h in hw.items()}, 'kekule-hydrogens-as-written-renumbered')
            batch.add(line('kekn', fints, wire.mol_to_ints(k), sssr_ints(fixed)), 'ok', 'R', 'kekule', (tag, ints0))
            # enumerated forms of the molecule as given
            # (only when every hydrogen count is given: with `n` atoms of unspecified H the enumeration ranges over
            #  tautomers / protonation states, which are different molecules)
            if not unsaturated_four_ring(src) and all_h_defined(src):
                forms_of(tag + ':enum', src, fints, sssr_ints(fixed), batch, rel, d, known=known)
        else:
            return True
    else:
        k = src.copy()
        st, ret = outcome(lambda: k.kekule())
        if st != 'ok' or ret is not False or not eq_snap(k, src):
            rel('kekule-not-idempotent', f'{tag}: kekule() on a localised form: {st} {ret!r} {diff_snap(src, k)}', ints0)
            return False
    # ---- k is a Kekulé form now
    def coherent(x, what):
        # labels / cached string current after the conversion (K against the Lean label model + independent rebuild)
        batch.add(line('lab', wire.mol_to_ints(x)), labels_line(x), 'K', 'labels-after-' + what, (tag, wire.mol_to_ints(x)))
        sl = stale_labels(x)
        if sl:
            rel('stale-labels-after-' + what, f'{tag}: {sl}', ints0)
    if nontrivial:
        coherent(k, 'kekule')
    k2 = k.copy()
    st, ret = outcome(lambda: k2.kekule())
    if st != 'ok' or ret is not False or not eq_snap(k, k2):
        rel('kekule-not-idempotent', f'{tag}: second kekule(): {st} {ret!r} {diff_snap(k, k2)}', wire.mol_to_ints(k))
    kints = wire.mol_to_ints(k)
    if has_coordinate(k):
        d('coordinate-bonds:' + ('checked' if coordinate_domain(k) else 'donor-atom-coordinated(outside)'))
        for clause, det in coordinate_failures(k):
            rel(clause, f'{tag}: {det}', kints)
    t = k.copy()
    st, ret = outcome(lambda: t.thiele())
    d('thiele:' + st + (':arom' if st == 'ok' and ret else ''))
    if st != 'ok':
        rel('thiele-outcome', f'{tag}: thiele() {st}', kints)
        return nontrivial
    tn = k.copy()
    st, retn = outcome(lambda: tn.thiele(fix_tautomers=False))
    if st != 'ok':
        rel('thiele-outcome', f'{tag}: thiele(fix_tautomers=False) {st}', kints)
    else:
        batch.add(line('thi', kints, wire.mol_to_ints(tn)), 'ok', 'R', 'thiele-nofix', (tag, kints))
        # K: the functional model of thiele(fix_tautomers=False) (answers `freak` when a rule-matched ring is involved)
        batch.add(line('tnf', kints, sssr_ints(k)), f'{int(bool(retn))} | {wire.mol_to_line(tn)}', 'KF', 'thiele-nofix-model', (tag, kints))
        batch.add(line('thr', kints, wire.mol_to_ints(tn), sssr_ints(k)), 'ok', 'R', 'thiele-only-candidate-rings', (tag, kints))
    batch.add(line('thr', kints, wire.mol_to_ints(t), sssr_ints(k)), 'ok', 'R', 'thiele-only-candidate-rings', (tag, kints))
    coherent(t, 'thiele')
    if st == 'ok':
        coherent(tn, 'thiele-nofix')
    if not ret:
        if not eq_snap(k, t):
            if tautomer_fix_only(k, t) and known is not None:
                # known finding: the tautomer fix was applied, then the rings were discarded (quinoid) and False returned
                d('known:tautomer-fix-applied-but-nothing-aromatised')
                known(KNOWN_FALSE_SIG, f'{tag}: thiele() returned False but {diff_snap(k, t)}', kints)
            else:
                rel('thiele-false-but-changed', f'{tag}: {diff_snap(k, t)}', kints)
        return nontrivial
    nontrivial = True
    moved = [n for n in k._atoms if k._atoms[n].implicit_hydrogens != t._atoms[n].implicit_hydrogens]
    if moved:
        d('thiele:tautomer-fix-moved-H')
        ok = (len(moved) % 2 == 0 and all(k._atoms[n].atomic_number == 7 for n in moved) and
              sum(k._atoms[n].implicit_hydrogens for n in moved) == sum(t._atoms[n].implicit_hydrogens for n in moved) and
              snapshot(k)[0].keys() == snapshot(t)[0].keys() and
              all(snapshot(k)[0][n][:4] == snapshot(t)[0][n][:4] for n in k._atoms))
        if not ok:
            rel('thiele-changes-hydrogens', f'{tag}: {diff_snap(k, t)}', kints)
    else:
        batch.add(line('thi', kints, wire.mol_to_ints(t)), 'ok', 'R', 'thiele', (tag, kints))
    tints = wire.mol_to_ints(t)
    # stability: thiele idempotent; kekule(thiele) accepted; thiele(kekule(thiele)) = thiele
    t2 = t.copy()
    st, ret = outcome(lambda: t2.thiele())
    if st != 'ok' or not eq_snap(t, t2):
        rel('thiele-not-idempotent', f'{tag}: {st} {diff_snap(t, t2)}', tints)
    k3 = t.copy()
    st, ret = outcome(lambda: k3.kekule())
    d('kekule-of-thiele:' + st)
    if st != 'ok':
        rel('kekule-of-thiele-fails', f'{tag}: kekule(thiele(k)) {st}', tints)
        return True
    batch.add(line('kekn', tints, wire.mol_to_ints(k3), sssr_ints(t)), 'ok', 'R', 'kekule-of-thiele', (tag, tints))
    coherent(k3, 'kekule-of-thiele')
    # the aromatic form must be what the plain (no tautomer fix) aromatisation makes of its own Kekulé form
    tn3 = k3.copy()
    st, _ = outcome(lambda: tn3.thiele(fix_tautomers=False))
    if st != 'ok' or not eq_snap(t, tn3):
        rel('thiele-inconsistent-with-own-kekule-form', f'{tag}: thiele(kekule(t), fix_tautomers=False) != t: {st} {diff_snap(t, tn3)}', kints)
    t3 = k3.copy()
    st, ret = outcome(lambda: t3.thiele())
    if st != 'ok' or not eq_snap(t, t3):
        if st == 'ok' and known is not None and same_without_fix(k, k3):
            d('known:tautomer-fix-depends-on-kekule-form')
            known(KNOWN_FORM_SIG, f'{tag}: thiele(kekule(t)) != t: {diff_snap(t, t3)}', kints)
        else:
            rel('thiele-kekule-thiele', f'{tag}: thiele(kekule(t)) != t: {st} {diff_snap(t, t3)}', tints)
    if not unsaturated_four_ring(t):
        forms_of(tag + ':enum-t', t, tints, sssr_ints(t), batch, rel, d, aromatic=t, known=known, ref_kek=k, kints=kints)
    else:
        d('gap:unsaturated-four-ring')
    # ---- numbering
    if renum:
        kr, mp = molgen.renumber(rng, k)
        tr = kr.copy()
        st, ret = outcome(lambda: tr.thiele())
        if st != 'ok':
            rel('thiele-outcome', f'{tag}: thiele() on renumbered {st}', wire.mol_to_ints(kr))
        else:
            tm = t.copy()
            tm.remap(mp)
            if not eq_snap(tm, tr):
                if sssr_differs(k, kr, mp) and known is not None:
                    # known finding: the ring list itself depends on numbering (cages: any minimum cycle basis omits faces)
                    d('known:ring-list-depends-on-numbering')
                    known(KNOWN_SSSR_SIG, f'{tag}: thiele(pi k) != pi thiele(k): {diff_snap(tm, tr)}', kints)
                elif tautomer_choice_only(k, kr, mp) and known is not None:
                    # known finding: which acceptor nitrogen receives the hydrogen depends on the traversal order
                    d('known:tautomer-fix-acceptor-depends-on-numbering')
                    known(KNOWN_TAUTOMER_SIG, f'{tag}: thiele(pi k) != pi thiele(k): {diff_snap(tm, tr)}', kints)
                else:
                    rel('thiele-numbering-dependent', f'{tag}: thiele(pi k) != pi thiele(k): {diff_snap(tm, tr)}', kints)
            else:
                k4 = tr.copy()
                st, ret = outcome(lambda: k4.kekule())
                if st != 'ok':
                    rel('kekule-numbering-dependent', f'{tag}: kekule(pi t) {st}', wire.mol_to_ints(tr))
                else:
                    batch.add(line('kekn', wire.mol_to_ints(tr), wire.mol_to_ints(k4), sssr_ints(tr)), 'ok', 'R',
                              'kekule-renumbered', (tag, wire.mol_to_ints(tr)))
                    t4 = k4.copy()
                    st, ret = outcome(lambda: t4.thiele())
                    if st != 'ok' or not eq_snap(tr, t4):
                        if st == 'ok' and known is not None and same_without_fix(kr, k4):
                            d('known:tautomer-fix-depends-on-kekule-form')
                            known(KNOWN_FORM_SIG, f'{tag}: renumbered: thiele(kekule(t)) != t: {diff_snap(tr, t4)}',
                                  wire.mol_to_ints(kr))
                        else:
                            rel('thiele-kekule-thiele', f'{tag}: renumbered: {st} {diff_snap(tr, t4)}', wire.mol_to_ints(tr))
    return nontrivial


def documented_moves(src, res):
    """the hydrogens that differ between the Kekulé form `src` and the thiele() result `res` are moves the documentation of
    `fix_tautomers` describes: lost by a two-connected N of a six-membered ring, gained by an uncharged N of a five- or
    seven-membered ring (anything else is not the known tautomer-fix behaviour)"""
    for n, a in src.atoms():
        h0, h1 = a.implicit_hydrogens, res._atoms[n].implicit_hydrogens
        if h0 == h1:
            continue
        if a.atomic_number != 7 or h0 is None or h1 is None:
            return False
        sizes = a.ring_sizes
        if h1 < h0 and not (6 in sizes and len(src._bonds[n]) == 2):
            return False
        if h1 > h0 and not ((5 in sizes or 7 in sizes) and not a.charge):
            return False
    return True


def nofix_form(mol):
    c = mol.copy()
    st, _ = outcome(lambda: c.thiele(fix_tautomers=False))
    return c if st == 'ok' else None


def same_without_fix(a_kek, b_kek):
    """two Kekulé forms of one molecule (same numbering) aromatise to the same form when the tautomer fix is switched off"""
    x, y = nofix_form(a_kek), nofix_form(b_kek)
    if x is None or y is None or not eq_snap(x, y):
        return False
    p, q = a_kek.copy(), b_kek.copy()
    p.thiele()
    q.thiele()
    return documented_moves(a_kek, p) and documented_moves(b_kek, q)


def sssr_differs(k, kr, mp):
    """the ring list of the renumbered molecule is not the renumbered ring list (as sets of atom sets)"""
    a = {frozenset(mp[x] for x in r) for r in k.sssr}
    b = {frozenset(r) for r in kr.sssr}
    return a != b


def tautomer_fix_only(k, t):
    """`t` differs from `k` by hydrogens moved between pairs of nitrogens (and bond orders), and thiele(fix_tautomers=False)
    does not show the inconsistency (it changes nothing when it returns False)"""
    (ka, kb), (ta, tb) = snapshot(k), snapshot(t)
    moved = [n for n in ka if ka[n] != ta.get(n)]
    if not moved or len(moved) % 2 or any(ka[n][0] != 7 or ka[n][:4] != ta[n][:4] for n in moved):
        return False
    if sum(ka[n][4] for n in moved) != sum(ta[n][4] for n in moved) or set(kb) != set(tb):
        return False
    if not documented_moves(k, t):
        return False
    a = k.copy()
    st, ret = outcome(lambda: a.thiele(fix_tautomers=False))
    return st == 'ok' and (bool(ret) or eq_snap(a, k))


def tautomer_choice_only(k, kr, mp):
    """the numbering dependence of thiele() on `k` / its renumbering `kr` comes from the tautomer fix alone:
    without the fix both give the same aromatic form, and with it they differ only in which N carries the moved H"""
    a, b = k.copy(), kr.copy()
    s1, _ = outcome(lambda: a.thiele(fix_tautomers=False))
    s2, _ = outcome(lambda: b.thiele(fix_tautomers=False))
    if s1 != 'ok' or s2 != 'ok':
        return False
    a.remap(mp)
    if not eq_snap(a, b):
        return False
    x, y = k.copy(), kr.copy()
    x.thiele()
    y.thiele()
    return documented_moves(k, x) and documented_moves(kr, y)


REF_PATH = core.VERIF / 'corpus' / 'C05_aromatic_reference.json'


def load_reference():
    if not REF_PATH.exists():
        return []
    return json.loads(REF_PATH.read_text())['entries']


def arom_set(mol, inv=None):
    out = set()
    for n, m, b in mol.bonds():
        if int(b) == 4:
            if inv is not None:
                n, m = inv[n], inv[m]
            out.add((min(n, m), max(n, m)))
    return out


def reference_failures(entry, rng, perms, lines=None):
    """clauses of C05 that fail against one pinned reference entry (aromatic bond set and hydrogens of an aromatic SMILES
    according to RDKit). `lines`, if given, collects (request line, name) pairs for the Lean checker."""
    fails = []
    m = molgen.parse(entry['smiles'])
    ref_arom = {tuple(x) for x in entry['aromatic_bonds']}
    hs = entry['hydrogens']
    if m is None or [a.atomic_number for _, a in m.atoms()] != entry['elements'] or arom_set(m) != ref_arom or \
            any(a.implicit_hydrogens is not None and a.implicit_hydrogens != h for (_, a), h in zip(m.atoms(), hs)):
        return None   # the reader no longer delivers this aromatic form: not this property's business
    href = m.copy()
    for (_, a), h in zip(href.atoms(), hs):
        a._implicit_hydrogens = h

    def one(mr, refr, mp, what):
        inv = {v: k for k, v in mp.items()}
        kr = mr.copy()
        st, _ = outcome(lambda: kr.kekule())
        if st != 'ok':
            fails.append((what + 'kekule-fails', st))
            return None
        bad = [n for n in m._atoms if kr._atoms[mp[n]].implicit_hydrogens != hs[n - 1]]
        if bad:
            cl = 'kekule:hydrogens-not-as-written/pyridine-search-buffer' \
                if buffer_class(mr, {mp[n]: hs[n - 1] for n in m._atoms}) else what + 'hydrogens'
            fails.append((cl, f'atoms {bad[:4]}: ' + ', '.join(
                f'{hs[n - 1]}->{kr._atoms[mp[n]].implicit_hydrogens}' for n in bad[:4])))
            if cl != what + 'hydrogens':
                return None
        if lines is not None:
            lines.append((line('kekn', wire.mol_to_ints(refr), wire.mol_to_ints(kr), sssr_ints(refr)), what + 'kekule'))
        tr = kr.copy()
        st, _ = outcome(lambda: tr.thiele())
        if st != 'ok':
            fails.append((what + 'thiele-fails', st))
            return None
        if arom_set(tr, inv) != ref_arom:
            lost = sorted(ref_arom - arom_set(tr, inv))[:4]
            extra = sorted(arom_set(tr, inv) - ref_arom)[:4]
            fails.append((what + 'aromatic-form', f'not aromatic again: {lost}; newly aromatic: {extra}'))
        return tr

    ident = {n: n for n in m._atoms}
    t = one(m, href, ident, 'reference:')
    if t is not None and not unsaturated_four_ring(t):
        st, forms = outcome(lambda: list(itertools.islice(t.copy().enumerate_kekule(), 12)))
        if st == 'ok':
            for f in forms:
                ft = f.copy()
                s2, _ = outcome(lambda: ft.thiele())
                if s2 != 'ok' or arom_set(ft) != ref_arom:
                    fails.append(('reference:form-aromatic-form', f'{s2} {str(f)}'))
                    break
    for _ in range(perms):
        if fails:
            break
        mr, refr, mp = renumbered_with_h(rng, m, href)
        one(mr, refr, mp, 'reference-renumbered:')
    return fails


def forms_of(tag, mol, fints, sssr, batch, rel, d, aromatic=None, known=None, ref_kek=None, kints=None):
    """every enumerated Kekulé form (capped) is accepted by the checker and aromatises to the same aromatic form"""
    st, forms = outcome(lambda: list(itertools.islice(mol.copy().enumerate_kekule(), ENUM_CAP)))
    if st != 'ok':
        if st.startswith('crash'):
            rel('enumerate-outcome', f'{tag}: enumerate_kekule {st}', fints)
        return
    d('enum-forms', len(forms))
    ref = aromatic
    for i, f in enumerate(forms):
        batch.add(line('kekn', fints, wire.mol_to_ints(f), sssr), 'ok', 'R', 'enumerated-form', (tag, fints))
        if i < 2:
            sl = stale_labels(f)
            if sl:
                rel('stale-labels-after-enumerate_kekule', f'{tag}: {sl}', fints)
        ft = f.copy()
        st, ret = outcome(lambda: ft.thiele())
        if st != 'ok':
            rel('thiele-outcome', f'{tag}: thiele(form {i}) {st}', wire.mol_to_ints(f))
            continue
        if ref is None:
            ref = ft
            ref_kek = f
        elif not eq_snap(ref, ft):
            if known is not None and ref_kek is not None and same_without_fix(ref_kek, f):
                d('known:tautomer-fix-depends-on-kekule-form')
                known(KNOWN_FORM_SIG, f'{tag}: form {i}: {diff_snap(ref, ft)}', kints if kints is not None else wire.mol_to_ints(ref_kek))
            else:
                rel('forms-aromatise-differently', f'{tag}: form {i}: {diff_snap(ref, ft)}', fints)
        if ref_kek is None:
            ref_kek = f


# ------------------------------------------------------------------------------------------------
# correspondence
# ------------------------------------------------------------------------------------------------

def run_batch(ctx, batch):
    if not batch.lines or not ctx.build_ok:
        return
    resp = core.run_driver('C05', batch.lines)
    if len(resp) != len(batch.lines):
        ctx.broke('correspondence', 'driver-protocol', f'{len(resp)} answers for {len(batch.lines)} requests')
        return
    for ln, exp, (kind, name, info), got in zip(batch.lines, batch.expect, batch.meta, resp):
        if kind == 'K':
            if isinstance(exp, tuple) and exp[0] == 'fix':
                if got == 'raise':
                    ok, g = False, got
                else:
                    head, _, w = got.partition(' | ')
                    hp = head.split()
                    faithful, seen = hp[0] == '1', (hp[2] if len(hp) > 2 else '')
                    ok = (w == exp[1]) and (bool(seen) == exp[2])
                    g = got
                    if ok and not faithful:
                        ctx.cov['disagreements_checked'] += 1
                        ctx.broke('relational', 'fix-mapping-not-charge-faithful', f'{info[0]}: {ln[:300]}')
                        _state.setdefault('bad', []).append((name, info[1]))
                if not ok:
                    ctx.cov['disagreements_checked'] += 1
                    ctx.broke('correspondence', 'fix_rings', f'{info[0]}: model {g[:300]!r} impl {exp!r}')
                    _state.setdefault('bad', []).append((name, info[1]))
            elif got != exp:
                ctx.cov['disagreements_checked'] += 1
                ctx.broke('correspondence', name, f'{info[0]}: model {got[:300]!r} impl {exp[:300]!r} request {ln[:200]}')
                _state.setdefault('bad', []).append((name, info[1]))
        elif kind == 'KF':
            if got == 'freak':
                ctx.dist('tnf:freak-ring(not modelled)')
            elif wire_core(got) != wire_core(exp):   # stereo marks (dropped by fix_stereo()) are not part of the property
                ctx.cov['disagreements_checked'] += 1
                ctx.broke('correspondence', name, f'{info[0]}: model {got[:400]!r} impl {exp[:400]!r}')
                _state.setdefault('bad', []).append((name, info[1]))
            else:
                ctx.dist('tnf:equal')
        elif kind == 'KK':
            if (got != exp) if exp == 'raise' else (wire_core(got) != wire_core(exp)):
                ctx.cov['disagreements_checked'] += 1
                ctx.broke('correspondence', name, f'{info[0]}: model {got[:400]!r} impl {exp[:400]!r}')
                _state.setdefault('bad', []).append((name, info[1]))
            else:
                ctx.dist('kekule-full-model:' + ('raise' if exp == 'raise' else 'equal'))
        elif kind == 'K1':
            if got.split(' ')[0] != exp:
                ctx.cov['disagreements_checked'] += 1
                ctx.broke('correspondence', name, f'{info[0]}: model {got[:100]!r} impl {exp!r} request {ln[:200]}')
                _state.setdefault('bad', []).append((name, info[1]))
            else:
                ctx.dist('tmono-kind:' + got.split(' ')[1].split(':')[0])
        else:
            if not got.startswith('ok'):
                ctx.cov['disagreements_checked'] += 1
                ctx.broke('relational', name, f'{info[0]}: checker answered {got!r}')
                _state.setdefault('bad', []).append((name, info[1]))
            elif 'norm=1' in got:
                ctx.dist('kekn:normalised-misdrawn-ring')


def correspond(ctx):
    _state['ks_calls'] = {}
    _state['cur'] = None
    _state['ks_samples'] = 0
    install_recorder()
    try:
        correspond_conversions(ctx)
        _state['cur'] = None
        ks_stream(ctx)
    finally:
        remove_recorder()
    if ctx.broken and ctx.failures:
        # core only starts the search when no failure has been recorded yet; the known finding recorded above must not
        # keep the search from looking at the other disagreements
        search(ctx)


def ks_domain(rings):
    """what `__prepare_rings` guarantees of a component: symmetric simple graph, closed, every degree 2 or 3"""
    adj = dict(rings)
    return (len(adj) == len(rings) and 0 not in adj and all(len(ms) in (2, 3) and len(set(ms)) == len(ms) for ms in adj.values())
            and all(m in adj and m != n and n in adj[m] for n, ms in adj.items() for m in ms))


def ks_check(ctx, batch_keys, ycap, origin):
    """one batch: real generator vs `kekuleComponent` (verbatim), and the yielded assignments vs an independent brute force"""
    if not batch_keys:
        return
    exp = [impl_ks(k, ycap) for k in batch_keys]
    got = core.run_driver('C05', [ks_line(k, ycap) for k in batch_keys]) if ctx.build_ok else None
    if got is not None and len(got) != len(batch_keys):
        ctx.broke('correspondence', 'driver-protocol', f'ks: {len(got)} answers for {len(batch_keys)} requests')
        got = None
    for i, (k, (status, ys)) in enumerate(zip(batch_keys, exp)):
        rings, dbl, pyr, buf = k
        dom = ks_domain(rings)
        ctx.count(('ks', k), nontrivial=True)
        ctx.dist(f'ks:{origin}:' + status.replace('crash:', 'crash-'))
        if got is not None and origin == 'recorded' and status == 'done' and len(ys) > 1 and _state.get('ks_samples', 0) < 2:
            _state['ks_samples'] = _state.get('ks_samples', 0) + 1
            ctx.sample({'request': ks_line(k, ycap)[:300], 'implementation': status + ' | ' + ' ; '.join(fmt_path(p) for p in ys)[:300],
                        'model': got[i][:300]}, limit=8)
        cur = _state['ks_calls'].get(k) if origin == 'recorded' else None
        if got is not None and ('dom=1' in got[i].partition(' | ')[0]) != dom:
            # `graphOKb` (the hypothesis of search_sound_partial, decided by the driver) vs the harness' own domain test
            ctx.cov['disagreements_checked'] += 1
            ctx.broke('correspondence', 'kekule-component-domain', f'{origin}: {k}: model {got[i][:40]!r} harness {dom}'[:800])
        if origin == 'recorded' and not dom:
            ctx.cov['disagreements_checked'] += 1
            ctx.broke('relational', 'prepared-component-outside-domain', f'{k}'[:800])
            if cur is not None:
                _state.setdefault('bad', []).append(('prepared-component-outside-domain', cur))
        if dom and not pyr:
            ctx.dist('ks:in-the-domain-of-search_sound_partial')
        if got is not None and not ks_agree(got[i], status, ys, ycap):
            ctx.cov['disagreements_checked'] += 1
            ctx.broke('correspondence', 'kekule-component-search',
                      f'{origin}: rings={list(rings)} double_bonded={list(dbl)} pyrroles={list(pyr)} buffer_size={buf}: impl {status} '
                      f'{[fmt_path(p) for p in ys][:3]} model {got[i][:300]!r}'[:1500])
            if cur is not None:
                _state.setdefault('bad', []).append(('kekule-component-search', cur))
        if status.startswith('crash') and origin == 'recorded':
            # (generated degree-2/3 graphs may contain a bond that lies in no ring — two rings joined by a bridge — on which
            #  the real search runs into `pop from empty list`; `__prepare_rings` never hands such a component over)
            ctx.cov['disagreements_checked'] += 1
            ctx.broke('relational', 'search-crashes-on-prepared-component', f'{origin}: {k}: {status}'[:800])
            if cur is not None:
                _state.setdefault('bad', []).append(('search-crash', cur))
        if not dom or status.startswith('crash'):
            continue
        adj = dict(rings)
        if any(len(adj[n]) == 3 and n not in dbl for n in pyr):
            # an ambiguous atom with three ring neighbours (ring-fusion P / As / B-): outside the claim — the search can
            # assign one bond twice and leave another out there (SearchSound is stated for two-connected ambiguous atoms)
            ctx.dist('ks:three-connected-ambiguous-atom(outside the soundness claim)')
            continue
        # SearchSound / SearchNoDup / SearchComplete (Props/C05.lean state them; here they are evaluated on the real output)
        size = sum(len(ms) for _, ms in rings) // 2
        if size > 40:
            continue
        bm = brute_matchings(rings, dbl, pyr, cap=3000)
        capped = len(bm) >= 3000
        forms, bad = [], None
        for pth in ys:
            ok, dd = path_assignment(rings, pth)
            if not ok:
                bad = 'a skeleton bond is assigned twice or not at all: ' + fmt_path(pth)
            elif not capped and dd not in bm:
                bad = 'not a matching that covers the acceptors and avoids double_bonded: ' + fmt_path(pth)
            forms.append(dd)
        if bad is None and len(set(forms)) != len(forms):
            bad = 'the same Kekulé form is yielded twice'
        plain_start = bool(dbl) or any(len(ms) == 2 and n not in pyr for n, ms in rings)
        if bad is None and not capped and status in ('done', 'raise') and plain_start and set(forms) != bm:
            bad = f'{len(bm)} matchings exist, {len(set(forms))} yielded ({status})'
        if bad is None and not capped and status == 'raise' and not bm:
            ctx.dist('ks:no-kekule-form-exists(raise agreed by brute force)')
        if bad is not None and origin != 'recorded' and pyr:
            # generated component with ambiguous atoms: SearchSound / SearchComplete / SearchNoDup are conjectures there
            # (Props/C05.lean keeps them as `def`s); a counterexample refutes the conjecture, it is not a failure of the
            # property on a molecule (the verbatim tie above still pins the code to the model) -> reported, no alarm
            ctx.dist('ks:CONJECTURE-REFUTED(component with ambiguous atoms)')
            ctx.notes.append(f'conjecture about the search refuted on a generated component: rings={list(rings)} '
                             f'double_bonded={list(dbl)} pyrroles={list(pyr)} buffer_size={buf}: {bad}'[:600])
        elif bad is not None:
            ctx.cov['disagreements_checked'] += 1
            ctx.broke('relational', 'search-output-not-a-perfect-matching',
                      f'{origin}: rings={list(rings)} double_bonded={list(dbl)} pyrroles={list(pyr)} buffer_size={buf}: {bad}'[:1500])
            if cur is not None:
                _state.setdefault('bad', []).append(('search-unsound', cur))


# regression cases of the verbatim tie: (1) a three-connected ambiguous atom: one bond assigned twice, one never (quoted in
# Props/C05.lean at `SearchSound`); (2) two rings joined by a bond that lies in no ring: `pop from empty list`
KS_FIXED = [
    ks_key([(3, [14, 5]), (14, [10, 12, 3]), (5, [3, 12]), (10, [14, 17, 20]), (12, [14, 5, 4]), (17, [20, 10, 4]),
            (20, [17, 10, 4]), (4, [12, 17, 20])], [12], [4, 5], 1),
    ks_key([(6, [7, 17]), (7, [19, 6, 17]), (17, [7, 6]), (19, [1, 11, 7]), (1, [19, 11]), (11, [1, 19])], [19, 6], [], 1),
    # (3) the four-ring evaluated inside Lean (Proofs/C05SearchExample.lean: `square_first_form`)
    ks_key([(1, [2, 4]), (2, [1, 3]), (3, [2, 4]), (4, [3, 1])], [], [], 7),
]


def ks_stream(ctx):
    """K: `_kekule_component` against Model/C05Search.lean — (1) every distinct call the conversions of this run made,
    (2) all small components with all labelings, (3) random ring-system-like components incl. ill-formed ones"""
    rng = ctx.rng
    t0 = time.time()
    calls = list(_state.get('ks_calls', {}))
    n_calls = len(calls)
    cap = 5000 if ctx.quick else 40000
    if len(calls) > cap:
        calls = rng.sample(calls, cap)
    for i in range(0, len(calls), 4000):
        ks_check(ctx, calls[i:i + 4000], KS_YIELDS, 'recorded')
    t1 = time.time()
    keys = list(KS_FIXED)
    n_ex = 4 if ctx.quick else 5
    for n in range(3, n_ex + 1):
        for rings in small_components(n):
            ids = [a for a, _ in rings]
            for lab in itertools.product(range(4), repeat=n):
                db = [a for a, l in zip(ids, lab) if l in (1, 3)]
                pyr = [a for a, l in zip(ids, lab) if l in (2, 3)]
                for first in (db[:1] + db[-1:] if len(db) > 1 else db[:1] or [None]):
                    dbo = db if first is None or first == db[0] else [first] + [x for x in db if x != first]
                    for buf in (0, 7):
                        keys.append(ks_key(rings, dbo, pyr, buf))
    n_exh = len(keys)
    bigger = list(small_components(n_ex + 1))
    for _ in range(4000 if ctx.quick else 40000):
        r = shuffled_component(rng, rng.choice(bigger))
        db, pyr = labelled(rng, r, rng.choice([0, .15, .3]), rng.choice([0, .15, .3, .6]))
        keys.append(ks_key(r, db, pyr, rng.choice([0, 1, 2, 7])))
    for i in range(2500 if ctx.quick else 25000):
        r = shuffled_component(rng, random_component(rng, i % 3 == 0))
        db, pyr = labelled(rng, r, rng.choice([0, .1, .3]), rng.choice([0, .1, .3]))
        keys.append(ks_key(r, db, pyr, rng.choice([0, 1, 2, 7])))
    keys = list(dict.fromkeys(keys))
    for i in range(0, len(keys), 8000):
        ks_check(ctx, keys[i:i + 8000], KS_YIELDS, 'generated')
    ctx.notes.append(f'_kekule_component: {n_calls} distinct calls recorded from the conversions of this run ({len(calls)} compared, '
                     f'{t1 - t0:.1f}s); every component with <= {n_ex} atoms of degree 2-3 x every double_bonded/pyrroles labeling x '
                     f'buffer_size 0/7 = {n_exh} cases enumerated completely; {len(keys) - n_exh} sampled larger / ill-formed '
                     f'components ({time.time() - t1:.1f}s)')


def correspond_conversions(ctx):
    ctx.cov['programs'] = len(PROGRAMS)
    rng = ctx.rng
    _state['bad'] = []

    def rel(name, detail, ints):
        ctx.cov['disagreements_checked'] += 1
        ctx.broke('relational', name, detail[:1500])
        _state['bad'].append((name, ints))

    def known(sig, detail, ints):
        ctx.cov['disagreements_checked'] += 1
        ctx.fail(sig, detail[:600], {'wire': ints, 'clause': sig.split('/', 1)[1], 'perms': 12})

    # ---- K: classification table (exhaustive)
    batch = Batch()
    t0 = time.time()
    n_rows = 0
    for key, ints in cls_rows():
        z, charge, radical, nb, h, exo, fused = key
        m, _ = wire.ints_to_mol(ints, calc=True)
        pstr, pres = impl_prepare(m)
        if pres is None:
            exp = pstr if pstr == 'raise' else pstr
        else:
            exp = f'{int(1 in pres[2])} {int(1 in pres[1])}'
        # the decision table row (the template adds no condition of its own except for the ring-degree test of exo atoms,
        # which both templates satisfy by construction)
        batch.add(f'cls {z} {charge} {int(radical)} {nb} {-1 if h is None else h} {int(exo)}', exp, 'K', 'classification', (str(key), ints))
        batch.add(line('prep', ints, sssr_ints(m)), pstr, 'K', 'prep', (str(key), ints))
        ctx.count(('cls', key))
        ctx.count(('prep-cls', key))
        ctx.dist('cls:' + ('raise' if exp == 'raise' else exp.replace(' ', '')))
        n_rows += 1
        if n_rows <= 2:
            ctx.sample({'request': batch.lines[-2], 'implementation': exp})
    run_batch(ctx, batch)
    # the property's domain (all aromatic molecules) is infinite, so `exhaustive` stays False; what IS enumerated completely
    # in both tiers are the finite sub-domains named in the notes
    ctx.notes.append(f'classification decision table: {n_rows} rows enumerated completely in {time.time() - t0:.1f}s')

    # ---- K: ring eligibility of thiele() on monocyclic templates (exhaustive over the template grid)
    batch = Batch()
    n_t = 0
    for key, m in mono_templates():
        rings = [list(r) for r in m.sssr]
        if len(rings) != 1:
            continue
        ring = rings[0]
        t = m.copy()
        st, ret = outcome(lambda: t.thiele())
        if st != 'ok':
            rel('thiele-outcome', f'template {key}: thiele() {st}', wire.mol_to_ints(m))
            continue
        rb = [int(t._bonds[a][b]) for a, b in zip(ring, ring[1:] + ring[:1])]
        n4 = sum(1 for o in rb if o == 4)
        if n4 not in (0, len(ring)) or bool(ret) != (n4 > 0):
            rel('thiele-partial-ring', f'template {key}: ring orders {rb}, returned {ret!r}', wire.mol_to_ints(m))
            continue
        batch.add(line('tmono', wire.mol_to_ints(m), [len(ring)] + ring), str(int(n4 > 0)), 'K1', 'thiele-ring-eligibility',
                  (str(key), wire.mol_to_ints(m)))
        ctx.count(('tmono', key))
        ctx.dist('tmono:' + ('aromatised' if n4 else 'left'))
        n_t += 1
    run_batch(ctx, batch)
    ctx.notes.append(f'thiele ring-eligibility table: {n_t} monocyclic templates (complete template grid)')

    # ---- pinned reference: the GIVEN aromatic form is the reference (RDKit facts committed in corpus/), many renumberings
    #      for fused aza-arenes whose pyridine / pyrrole nitrogens the Kekulé search has to decide
    entries = load_reference()
    if not entries:
        ctx.broke('correspondence', 'reference-file-missing', str(REF_PATH))
    cat = [e for e in entries if e['source'] == 'catalogue']
    rest = [e for e in entries if e['source'] != 'catalogue']
    if ctx.quick:
        rest = rng.sample(rest, min(len(rest), 160))
    batch = Batch()
    t0 = time.time()
    n_ref = 0
    for e in cat + rest:
        if e['multi_n']:
            perms = (40 if ctx.quick else 200) if e['source'] == 'catalogue' else (6 if ctx.quick else 20)
        else:
            perms = 2 if ctx.quick else 5
        lines = []
        fl = reference_failures(e, rng, perms, lines)
        if fl is None:
            ctx.dist('reference:reader-delivers-another-form(skipped)')
            continue
        n_ref += 1
        ctx.dist('reference:' + ('multi-N' if e['multi_n'] else 'freak' if e['freak'] else 'other'))
        for ln, name in lines:
            batch.add(ln, 'ok', 'R', name, (e['smiles'], {'ref': e['smiles']}))
            ctx.count(ln)
        for clause, det in fl:
            ctx.cov['disagreements_checked'] += 1
            if 'C05/' + clause == KNOWN_BUFFER_SIG:
                ctx.fail(KNOWN_BUFFER_SIG, f"{e['smiles']}: {det}"[:600], {'ref': e['smiles'], 'clause': clause, 'perms': 200})
                continue
            ctx.broke('relational', clause, f"{e['smiles']}: {det}"[:600])
            _state['bad_ref'] = _state.get('bad_ref', []) + [e['smiles']]
        if len(batch.lines) > 4000:
            run_batch(ctx, batch)
            batch = Batch()
    run_batch(ctx, batch)
    ctx.notes.append(f'pinned aromatic reference: {n_ref} entries ({len(cat)} catalogue) in {time.time() - t0:.1f}s')

    # ---- molecules
    mols = []
    for s in MISDRAWN:
        m = molgen.parse(s)
        if m is not None:
            mols.append(('handmade:' + s, m))
    for tag, m in molgen.handmade():
        mols.append(('molgen:' + tag, m))
    for tag, m in molgen.test_files():
        if tag.startswith('arenes') or ctx.rng.random() < (0.15 if ctx.quick else 1.0):
            mols.append((tag, m))
    smi = core.REPO / 'test' / 'heterocycles_charges.smi'
    if smi.exists():
        for i, s in enumerate(smi.read_text().split()):
            m = molgen.parse(s)
            if m is not None:
                mols.append((f'heterocycles_charges.smi[{i}]', m))
    ctx.notes.append(f'exhaustive sub-domains among the molecules: all free polyhex benzenoids with <= {5 if ctx.quick else 6} '
                     'hexagons; all five-membered monocycles over {C,N,NH,O,S} and six-membered over {C,N,NH+,O+} up to '
                     'rotation/reflection')
    for cells in polyhexes(5 if ctx.quick else 6):
        mols.append((f'benzenoid:{len(cells)}hex:{cells}', benzenoid(cells)))
        for j in range(1 if ctx.quick else 3):
            mols.append((f'aza-benzenoid:{len(cells)}hex:{cells}#{j}', benzenoid(cells, rng, 0.25)))
    for size in (5, 6):
        for name, m in hetero_monocycles(size):
            mols.append((f'heterocycle{size}:{name}', m))
    fus = list(small_ring_fusions())
    if ctx.quick:
        fus = rng.sample(fus, min(len(fus), 200))
    for j, (name, m) in enumerate(fus):
        mols.append((f'small-ring-fusion:{name}#{j}', m))
    for j, (name, m) in enumerate(phenylenes()):
        mols.append((f'phenylene:{name}#{j}', m))
    for j, (name, m) in enumerate(pi_complexes(rng, 60 if ctx.quick else 400)):
        mols.append((f'pi-complex:{name}#{j}', m))
    mols += molgen.corpus(rng, 280 if ctx.quick else 4200)
    n_gen = 300 if ctx.quick else 2500
    for i in range(n_gen):
        m = gen_kekule(rng)
        if m is not None:
            mols.append((f'gen-kekule[{i}]', m))
    for i in range(360 if ctx.quick else 5000):
        m = gen_tautomer(rng)
        if m is not None:
            mols.append((f'gen-tautomer[{i}]', m))
    for i in range(240 if ctx.quick else 1500):
        wild = i % 2 == 1
        try:
            m = gen_arom(rng, wild)
        except Exception:
            continue
        mols.append((f'gen-arom-wild[{i}]' if wild else f'gen-arom[{i}]', m))

    batch = Batch()
    budget = 110 if ctx.quick else 800
    t0 = time.time()
    done = 0
    for tag, m in mols:
        if time.time() - t0 > budget:
            ctx.notes.append(f'time budget reached after {done} of {len(mols)} molecules')
            break
        before = len(batch.lines)
        try:
            extra = (8 if ctx.quick else 25) if tag.startswith('aza-benzenoid') else (1 if ctx.quick else 3)
            nt = mol_cases(tag, m, batch, rel, rng, renum=True, dist=ctx.dist, known=known, extra_renum=extra)
        except Exception as e:  # harness problem on one molecule must not hide the others
            ctx.broke('correspondence', 'harness-exception', f'{tag}: {type(e).__name__}: {e}')
            continue
        done += 1
        ctx.dist('src:' + tag.split('[')[0].split(':')[0])
        ctx.dist('atoms:%d-%d' % (len(m) // 10 * 10, len(m) // 10 * 10 + 9))
        for ln in batch.lines[before:]:
            ctx.count(ln, nontrivial=nt)
        if nt and len(ctx.cov['samples']) < 6 and len(batch.lines) > before:
            ctx.sample({'molecule': tag, 'request': batch.lines[before][:400], 'required': str(batch.expect[before])[:200]})
        if len(batch.lines) > 4000:
            run_batch(ctx, batch)
            batch = Batch()
    run_batch(ctx, batch)


# ------------------------------------------------------------------------------------------------
# property-level oracle on the real code (independent of the Lean model) — search / probe
# ------------------------------------------------------------------------------------------------

def property_failures(mol, rng=None, enum=True, perms=1):
    """clauses of C05 that fail for this molecule on the real code. Uses only the public API and plain comparisons."""
    import random
    from chython.exceptions import InvalidAromaticRing
    rng = rng or random.Random(0)
    fails = []

    def add(clause, detail):
        fails.append((clause, detail))

    if not domain_ok(mol):
        return fails
    src = mol.copy()
    k = src.copy()
    if has_aromatic(src):
        st, ret, fixed, logs = impl_fix(src)
        if st != 'ok':
            return fails
        repaired = any(logs_ for logs_ in logs)
        ref = fixed
        if repaired and sum(a.charge for _, a in src.atoms()) != sum(a.charge for _, a in fixed.atoms()):
            add('repair-changes-total-charge', '')
        st, ret = outcome(lambda: k.kekule())
        if st == 'lib:InvalidAromaticRing':
            return fails
        if st != 'ok':
            add('kekule-crash', st)
            return fails
        fails += kekule_clauses(ref, k, 'kekule')
        written = as_written(ref) if not repaired else None
        if written is not None:
            # hydrogens as the SMILES standard reads the aromatic form (unspecified = none), for every numbering
            hw = {n: a.implicit_hydrogens for n, a in written.atoms()}
            bad = [n for n, a in k.atoms() if a.implicit_hydrogens != hw[n]]
            if bad:
                add('kekule:hydrogens-not-as-written' + ('/pyridine-search-buffer' if buffer_class(src, hw) else ''),
                    f'{[(n, hw[n], k._atoms[n].implicit_hydrogens) for n in bad[:4]]}')
            for _ in range(max(perms, 4)):
                mr, refr, mp = renumbered_with_h(rng, src, written)
                mr0 = mr.copy()
                s2, _ = outcome(lambda: mr.kekule())
                if s2 != 'ok':
                    add('kekule-numbering-dependent', s2)
                    break
                bad = [n for n in hw if mr._atoms[mp[n]].implicit_hydrogens != hw[n]]
                if bad:
                    orig = mr0
                    add('kekule:hydrogens-not-as-written' + ('/pyridine-search-buffer' if buffer_class(orig, {mp[n]: h for n, h in hw.items()}) else ''),
                        f'after renumbering: {[(n, hw[n], mr._atoms[mp[n]].implicit_hydrogens) for n in bad[:4]]}')
                    break
        if enum and not unsaturated_four_ring(src) and all_h_defined(src):
            st, forms = outcome(lambda: list(itertools.islice(src.copy().enumerate_kekule(), ENUM_CAP)))
            if st == 'ok':
                arom = None
                for f in forms:
                    fails += kekule_clauses(ref, f, 'enumerated-form')
                    ft = f.copy()
                    s2, _ = outcome(lambda: ft.thiele())
                    if s2 != 'ok':
                        add('thiele-crash', s2)
                    elif arom is None:
                        arom, arom_kek = ft, f
                    elif not eq_snap(arom, ft):
                        add('thiele-depends-on-kekule-form/tautomer-fix' if same_without_fix(arom_kek, f)
                            else 'forms-aromatise-differently', diff_snap(arom, ft))
    else:
        st, ret = outcome(lambda: k.kekule())
        if st != 'ok' or not eq_snap(src, k):
            add('kekule-not-idempotent', f'{st} {diff_snap(src, k)}')
            return fails
    k2 = k.copy()
    st, ret = outcome(lambda: k2.kekule())
    if st != 'ok' or not eq_snap(k, k2):
        add('kekule-not-idempotent', f'{st} {diff_snap(k, k2)}')
    fails += coordinate_failures(k)
    t = k.copy()
    st, ret = outcome(lambda: t.thiele())
    if st != 'ok':
        add('thiele-crash', st)
        return fails
    fails += thiele_clauses(k, t, strict_h=False)
    if not ret and not eq_snap(k, t):
        add('thiele-false-but-changed/tautomer-fix-without-aromatisation' if tautomer_fix_only(k, t)
            else 'thiele-false-but-changed', diff_snap(k, t))
    tn = k.copy()
    st, _ = outcome(lambda: tn.thiele(fix_tautomers=False))
    if st == 'ok':
        fails += thiele_clauses(k, tn, strict_h=True)
    if not ret:
        return fails
    t2 = t.copy()
    st, _ = outcome(lambda: t2.thiele())
    if st != 'ok' or not eq_snap(t, t2):
        add('thiele-not-idempotent', f'{st} {diff_snap(t, t2)}')
    k3 = t.copy()
    st, _ = outcome(lambda: k3.kekule())
    if st != 'ok':
        add('kekule-of-thiele-fails', st)
        return fails
    fails += kekule_clauses(t, k3, 'kekule-of-thiele')
    tn3 = k3.copy()
    st, _ = outcome(lambda: tn3.thiele(fix_tautomers=False))
    if st != 'ok' or not eq_snap(t, tn3):
        add('thiele-inconsistent-with-own-kekule-form', f'{st} {diff_snap(t, tn3)}')
    for what, x in (('kekule', k), ('thiele', t), ('kekule-of-thiele', k3)):
        sl = stale_labels(x)
        if sl:
            add('stale-labels-after-' + what, str(sl))
    t3 = k3.copy()
    st, _ = outcome(lambda: t3.thiele())
    if st != 'ok' or not eq_snap(t, t3):
        add('thiele-depends-on-kekule-form/tautomer-fix' if st == 'ok' and same_without_fix(k, k3)
            else 'thiele-kekule-thiele', f'{st} {diff_snap(t, t3)}')
    if enum and not unsaturated_four_ring(t):
        st, forms = outcome(lambda: list(itertools.islice(t.copy().enumerate_kekule(), ENUM_CAP)))
        if st == 'ok':
            for f in forms:
                fails += kekule_clauses(t, f, 'enumerated-form')
                ft = f.copy()
                s2, _ = outcome(lambda: ft.thiele())
                if s2 != 'ok' or not eq_snap(t, ft):
                    add('thiele-depends-on-kekule-form/tautomer-fix' if s2 == 'ok' and same_without_fix(k, f)
                        else 'forms-aromatise-differently', f'{s2} {diff_snap(t, ft)}')
    for _ in range(perms):
        kr, mp = molgen.renumber(rng, k)
        tr = kr.copy()
        st, _ = outcome(lambda: tr.thiele())
        tm = t.copy()
        tm.remap(mp)
        if st != 'ok' or not eq_snap(tm, tr):
            if st == 'ok' and sssr_differs(k, kr, mp):
                add('thiele-numbering-dependent/sssr-choice-in-cages', f'{diff_snap(tm, tr)}')
            elif st == 'ok' and tautomer_choice_only(k, kr, mp):
                add('thiele-numbering-dependent/tautomer-fix-acceptor-choice', f'{diff_snap(tm, tr)}')
            else:
                add('thiele-numbering-dependent', f'{st} {diff_snap(tm, tr)}')
            break
        k4 = tr.copy()
        st, _ = outcome(lambda: k4.kekule())
        if st != 'ok':
            add('kekule-numbering-dependent', st)
            break
        fl = kekule_clauses(tr, k4, 'kekule-renumbered')
        fails += fl
        t4 = k4.copy()
        st, _ = outcome(lambda: t4.thiele())
        if st != 'ok' or not eq_snap(tr, t4):
            add('thiele-depends-on-kekule-form/tautomer-fix' if st == 'ok' and same_without_fix(kr, k4)
                else 'thiele-kekule-thiele', f'renumbered {st} {diff_snap(tr, t4)}')
        if fl:
            break
    return fails


def kekule_clauses(a, k, what):
    """`k` must describe the same molecule as the (repaired) aromatic form `a` with localised bonds"""
    out = []
    (aa, ab), (ka, kb) = snapshot(a), snapshot(k)
    if set(aa) != set(ka) or any(aa[n][:4] != ka[n][:4] for n in aa):
        out.append((what + ':atoms-changed', ''))
        return out
    if set(ab) != set(kb):
        out.append((what + ':connectivity-changed', ''))
        return out
    arom_atoms = {x for e, o in ab.items() if o == 4 for x in e}
    for e, o in kb.items():
        if o == 4:
            out.append((what + ':aromatic-bond-left', str(e)))
        elif o not in (1, 2, 3, 8):
            out.append((what + ':bond-order', f'{e}:{o}'))
        elif ab[e] != 4 and ab[e] != o and not (e[0] in arom_atoms and e[1] in arom_atoms):
            out.append((what + ':other-bond-changed', f'{e}:{ab[e]}->{o}'))
    for n in aa:
        h0, h1 = aa[n][4], ka[n][4]
        if h1 is None:
            out.append((what + ':hydrogens-undefined', str(n)))
        elif h0 is not None and h0 != h1:
            out.append((what + ':hydrogens-changed', f'{n}:{h0}->{h1}'))
        elif n in arom_atoms and not k.check_implicit(n, h1):
            out.append((what + ':valence-error', f'{n}:H{h1}'))
    # alternation: at most one new double bond per atom
    cnt = {}
    for e, o in kb.items():
        if ab[e] == 4 and o == 2:
            for x in e:
                cnt[x] = cnt.get(x, 0) + 1
    if any(v > 1 for v in cnt.values()):
        out.append((what + ':cumulated-double-bonds', ''))
    return out[:4]


def thiele_clauses(k, t, strict_h):
    out = []
    (ka, kb), (ta, tb) = snapshot(k), snapshot(t)
    if set(ka) != set(ta) or any(ka[n][:4] != ta[n][:4] for n in ka):
        return [('thiele:atoms-changed', '')]
    if set(kb) != set(tb):
        return [('thiele:connectivity-changed', '')]
    if strict_h:
        bad = [n for n in ka if ka[n][4] != ta[n][4]]
        if bad:
            out.append(('thiele:hydrogens-changed', str(bad)))
        arom_atoms = {x for e, o in tb.items() if o == 4 for x in e}
        for e, o in tb.items():
            if o != kb[e] and not (o == 4 and kb[e] in (1, 2)) and not (o == 1 and kb[e] == 2 and e[0] in arom_atoms and e[1] in arom_atoms):
                out.append(('thiele:bond-changed', f'{e}:{kb[e]}->{o}'))
    else:
        if sum(x[4] or 0 for x in ka.values()) != sum(x[4] or 0 for x in ta.values()):
            out.append(('thiele:formula-changed', ''))
        bad = [n for n in ka if ka[n][4] != ta[n][4] and ka[n][0] != 7]
        if bad:
            out.append(('thiele:hydrogens-changed', str(bad)))
    return out[:4]


def search(ctx):
    import random
    rng = random.Random(ctx.seed + 17)
    t0 = time.time()
    budget = 60 if ctx.quick else 600
    seen = set()

    def try_mol(m, tag):
        for clause, det in property_failures(m, rng):
            sig = f'C05/{clause}'
            if sig in seen:
                continue
            seen.add(sig)
            small = shrink(m, clause)
            ctx.fail(sig, f'{clause}: {det} ({tag})', {'wire': wire.mol_to_ints(small), 'clause': clause})

    def try_ref(e, perms):
        import random as _r
        for sd in (ctx.seed + 1, ctx.seed + 2):
            fl = reference_failures(e, _r.Random(sd), perms)
            for clause, det in fl or []:
                sig = f'C05/{clause}'
                if sig not in seen:
                    seen.add(sig)
                    ctx.fail(sig, f"{clause}: {det} ({e['smiles']})", {'ref': e['smiles'], 'clause': clause, 'perms': perms, 'seed': sd})
            if fl:
                return

    entries = load_reference()
    by_smiles = {e['smiles']: e for e in entries}
    first = [by_smiles[x] for x in dict.fromkeys(_state.get('bad_ref', [])) if x in by_smiles]
    first += [by_smiles[i['ref']] for _, i in _state.get('bad', []) if isinstance(i, dict) and i.get('ref') in by_smiles]
    for e in first[:40]:
        try_ref(e, 80)
    for name, ints in list(_state.get('bad', []))[:200]:
        if time.time() - t0 > budget:
            return
        if isinstance(ints, dict):
            continue
        try:
            m, _ = wire.ints_to_mol(list(ints), calc=True)
        except Exception:
            continue
        try_mol(m, 'disagreeing case ' + name)
    # neighbourhood of the disagreeing cases: the same molecules with a ring atom (substituted / ring-fusion positions
    # first) bound to a metal by a coordinate bond, then the family of pi complexes
    for name, ints in list(_state.get('bad', []))[:40]:
        if time.time() - t0 > budget * 0.6 or isinstance(ints, dict):
            continue
        try:
            m, _ = wire.ints_to_mol(list(ints), calc=True)
            ring_atoms = sorted({x for r in m.sssr for x in r if m._atoms[x].atomic_number in (6, 7)},
                                key=lambda x: -len(m._bonds[x]))
            for x in ring_atoms[:4]:
                if any(int(b) == 8 for b in m._bonds[x].values()):
                    continue
                mm, _ = wire.ints_to_mol(edit_ints(list(ints), metal=(24, 0, {x})), calc=True)
                try_mol(mm, f'disagreeing case {name} with a coordinate bond at atom {x}')
        except Exception:
            continue
    for tag, m in pi_complexes():
        if time.time() - t0 > budget * 0.75:
            break
        try:
            try_mol(m, 'pi-complex ' + tag)
        except Exception:
            continue
    for e in entries:
        if time.time() - t0 > budget / 2:
            break
        if e['source'] == 'catalogue':
            try_ref(e, 120 if e['multi_n'] else 6)
    pool = []
    for s in MISDRAWN:
        m = molgen.parse(s)
        if m is not None:
            pool.append((s, m))
    pool += molgen.test_files()
    pool += molgen.corpus(rng, 600 if ctx.quick else 4200)
    for i in range(1500 if ctx.quick else 20000):
        pool.append((f'gen-kekule[{i}]', None))
    for tag, m in pool:
        if time.time() - t0 > budget:
            break
        if m is None:
            x = rng.random()
            m = gen_kekule(rng) if x < 0.45 else gen_tautomer(rng) if x < 0.8 else gen_arom(rng)
            if m is None or (has_aromatic(m) and not valid_kekule_exists(m)):
                continue
        try:
            try_mol(m, tag)
        except Exception:
            continue


def shrink(mol, clause):
    """greedy deletion of terminal substituent atoms keeping the clause failing"""
    cur = mol
    improved = True
    rounds = 0
    while improved and rounds < 30:
        improved = False
        rounds += 1
        ring_atoms = {x for r in cur.sssr for x in r}
        for n in sorted(cur._atoms, key=lambda x: len(cur._bonds[x])):
            if len(cur) <= 3:
                break
            if n in ring_atoms or len(cur._bonds[n]) != 1:
                continue   # only terminal substituent atoms: deleting ring atoms leaves the classes the property names
            c = cur.copy()
            try:
                hs = {x: a.implicit_hydrogens for x, a in c.atoms()}
                c.delete_atom(n)
                if len(c.connected_components) != 1 and len(cur.connected_components) == 1:
                    continue
                m2, _ = wire.ints_to_mol(wire.mol_to_ints(c), calc=True)
                if any(cl == clause for cl, _ in property_failures(m2, enum=True)):
                    cur = m2
                    improved = True
                    break
            except Exception:
                continue
    return cur


def probe(inp):
    import random
    if 'ref' in inp:
        e = next((x for x in load_reference() if x['smiles'] == inp['ref']), None)
        if e is None:
            return None, 'reference entry not found: ' + inp['ref']
        fl = reference_failures(e, random.Random(int(inp.get('seed', 0))), int(inp.get('perms', 40))) or []
        hit = [f for f in fl if inp.get('clause') in (None, f[0])]
        return bool(hit), ('; '.join(f'{c}: {d}' for c, d in hit[:3]) if hit else 'reference clauses hold')
    m, _ = wire.ints_to_mol(list(inp['wire']), calc=True)
    import random
    fl = property_failures(m, random.Random(int(inp.get('seed', 0))), perms=int(inp.get('perms', 1)))
    want = inp.get('clause')
    hit = [f for f in fl if want is None or f[0] == want]
    if hit:
        return True, '; '.join(f'{c}: {d}' for c, d in hit[:4])
    return False, 'all clauses hold' + (f' (other clauses failing: {[c for c, _ in fl]})' if fl else '')
