"""C13 — edits keep derived views coherent; transactions atomic; copies independent (proof + correspondence).

G  gen_effects re-extracts, from the source text, the ordered cache-relevant events of every self-mutating public
   method (flushes with keep flags, pops, memoised reads, `_changed`/`_backup` reads and writes, hydrogen / label
   recomputation), the keep lists, the slots assigned by __init__/copy/substructure/__exit__, the dependency graph of
   the memoised attributes and every other flush_cache call site  ->  Gen/CacheEffects.lean.
P  Props/C13.lean: the executable model *interprets* those event lists; a decidable static analysis (`TablesOK`) of the
   regenerated lists is proved sound for the interpreter, and `decide` discharges it on today's table.
K  op sequences on real molecules: after every op the real `__dict__` key set, `_changed`, `_backup`, slot presence,
   atoms/bonds (dict order), coordinates, the set of atoms whose hydrogens were recomputed and the outcome class are
   compared with the model; every memoised value / label / hydrogen count that differs from an independently rebuilt
   molecule must be predicted stale by the model.
S  search(): property-level oracle only (rebuild-from-scratch comparison, abort restores, copies independent/editable).
"""
import itertools
import json
import time

from ..core import run_driver
from ..gen import gen_effects
from .. import molgen, wire

LEVEL = 'proof'
LEVEL_TEXT = ('The cache / transaction / copy discipline is proved for every edit history: the executable Lean model interprets the '
              'event lists regenerated from the source on each run; a decidable static analysis of those lists (TablesOK) is proved '
              'sound for the interpreter (every reachable object has no stale memoised value outside a transaction and no stale '
              'ring/component value ever, coherent backup snapshots, assigned transaction slots; abort restores exactly the '
              'snapshot; operations touch only their own object, also over whole op sequences; accepted methods never raise '
              'AttributeError) and is discharged by kernel evaluation on the regenerated table. Proved as invariants of every '
              'reachable state over the full op alphabet: the stored graph (live and snapshot) is well-formed - keys unique, no '
              'self-loops, adjacency symmetric with the same bond on both sides (all histories, failing operations included); the '
              'stored labels of every object outside a transaction are fresh (remap / union via snapshot lemmas on well-formed '
              'graphs). Stored hydrogen counts: proved fresh in every state reachable through transactions (committed or aborted), '
              'attribute writes, add_atom and ordinary bond edits in and outside blocks, public fix_structure outside, reads, copy '
              '(HydrogensFresh_reachable_partial); the full statement is false (two known findings, both need a public '
              'fix_structure() inside a block; Lean witnesses show the partial theorem is tight); delete_atom, order-8 bonds, remap, '
              'union, substructure are validated for hydrogens by the correspondence and the search only. Returned molecules are new '
              'objects (regenerated scan + created_is_new), remap gives exactly the mapped numbers, 0 included. Proof is the right '
              'level because the discipline is a finite protocol over an unbounded graph, which induction over op lists closes.')
LEVEL_NOTE = ('Lean kernel; gen_effects AST extractor (effect lists, keep lists, slots, returnsSelf scan, split shape, derived-constructor '
              'delegation); hand-written data semantics of the raw graph edits and of object creation (validated by the correspondence '
              'after every operation, including Mol.WF against the real object with bond identity); Spec/Deps.lean (which memoised value '
              'may depend on what, which methods may hand out self; validated by comparing every memoised value with an independently '
              'rebuilt molecule); stereo marks and the values of derived attributes are outside the model; the hydrogen theorems are '
              'for today\'s regenerated table (kernel-evaluated event lists), the cache / wf / label theorems for every accepted table.')
TECHNIQUE = ('Lean 4 interpreter over regenerated effect lists + proved-sound static analysis (decide) + invariants by induction over op '
             'lists (wf, labels, hydrogens via a proved projection of the interpreter) + op-sequence correspondence + always-on property oracle')
HAS_DRIVER = True
EXTRA_MODULES = []
FINDINGS_MODULE = 'ChythonModel.Findings.C13'
RULE = ('op sequences (exhaustive short sequences over a fixed alphabet of edits/transactions/copies on seed molecules with reads '
        'interleaved, plus long random sequences on corpus/handmade molecules, plus a malformed-argument stream); one case = one '
        'executed operation in its history; non-trivial when the operation changed the molecule, the cache, a transaction slot '
        'or created an object; distinct by (seed, history prefix)')
TRUSTED = ['gen_effects translator (AST patterns for flush/pop/read/_changed/_backup/slot assignments)',
           'hand-written data semantics of raw graph edits in Model/Cache.lean (validated by correspondence)',
           'Spec/Deps.lean dependency kinds (validated by rebuild comparison)',
           'harness observation of the real objects (monkey-patched calc_implicit recorder, rebuild through the public constructor)']
ASSUMPTIONS = ['stereo marks are outside the model; fix_stereo is modelled only through its cache effects',
               'attribute writes on atoms (charge / radical) are in scope only inside a transaction, as the property states',
               '_skip_calculation is private API: exercised in the exact-state correspondence, not in the property oracle']
SEARCH_ALWAYS_IN_THOROUGH = True

_state = {}

READ_KEYS = ['sssr', 'atoms_rings', 'atoms_rings_sizes', 'rings_count', 'not_special_connectivity', 'connected_components',
             'skin_graph', 'rings_graph', 'bonds_count', 'atoms_order', 'int_adjacency', 'smiles_atoms_order',
             '__cached_method___str__', '__cached_method___hash__', 'molecular_charge', 'is_radical', 'tetrahedrons',
             'cumulenes', 'stereogenic_tetrahedrons', 'stereogenic_cumulenes', 'stereogenic_allenes', 'stereogenic_cis_trans',
             '_stereo_cis_trans_centers', '_stereo_cis_trans_terminals', '_stereo_cis_trans_counterpart',
             '_stereo_allenes_centers', '_stereo_allenes_terminals', 'ring_tetrahedrons', 'rings_linker_tetrahedrons',
             '_chiral_morgan', '_MoleculeStereo__chiral_centers', 'aromatic_rings', '_cis_trans_count']
CORE_READS = ['__cached_method___str__', 'sssr', 'atoms_order', 'connected_components']
SKEL_CONN = {'sssr', 'atoms_rings', 'atoms_rings_sizes', 'not_special_connectivity', 'rings_count', 'connected_components'}
NO_VALUE_COMPARE = {'molecular_mass', '__cached_args_method_adjacency_matrix', '__cached_method__repr_svg_',
                    '_cython_compiled_structure', '_compiled_query'}


def generate(ctx):
    path, d = gen_effects.generate()
    _state['effects'] = d
    return [path]


# ------------------------------------------------------------------------------------------------
# real side
# ------------------------------------------------------------------------------------------------

def read_key(mol, key):
    if key == '__cached_method___str__':
        return str(mol)
    if key == '__cached_method___hash__':
        return hash(mol)
    return getattr(mol, key)


def canon(v):
    from collections.abc import Mapping
    if isinstance(v, Mapping):
        return ('map',) + tuple(sorted(((canon(k), canon(x)) for k, x in v.items()), key=repr))
    if isinstance(v, (set, frozenset)):
        return ('set',) + tuple(sorted((canon(x) for x in v), key=repr))
    if isinstance(v, (list, tuple)):
        return ('seq',) + tuple(canon(x) for x in v)
    if isinstance(v, (int, str, bool)) or v is None:
        return v
    return ('obj', type(v).__name__)


def keys_of(mol):
    return sorted(k for k in mol.__dict__ if '_lock_' not in k)


def slot(mol, name):
    try:
        return ('set', getattr(mol, name))
    except AttributeError:
        return ('unset', None)


def masked_wire(mol):
    out = [len(mol._atoms)]
    for n, a in mol._atoms.items():
        ms = mol._bonds[n]
        out += [n, a.atomic_number, a._isotope or 0, a._charge, int(a._is_radical), -1, -1, len(ms)]
        for m, b in ms.items():
            out += [m, int(b), -1]
    return ' '.join(map(str, out))


def observe(mol):
    """canonical summary of one real object, same format as the driver's objSummary (without model-only fields)."""
    st, ch = slot(mol, '_changed')
    changed = 'unset' if st == 'unset' else 'none' if ch is None else 'set:' + ','.join(map(str, sorted(ch)))
    st, bk = slot(mol, '_backup')
    backup = 'unset' if st == 'unset' else 'none' if bk is None else 'set'
    st, nm = slot(mol, '_name')
    name = 'unset' if st == 'unset' else 'none' if nm is None else str(nm)
    st, mt = slot(mol, '_meta')
    meta = 'unset' if st == 'unset' else 'none' if mt is None else 'd:' + ','.join(f'{k}={v}' for k, v in mt.items())
    xy = ','.join(f'{n}:{int(a._xy.x)}:{int(a._xy.y)}' for n, a in mol._atoms.items())
    return {'keys': ','.join(keys_of(mol)), 'changed': changed, 'backup': backup, 'name': name, 'meta': meta, 'xy': xy,
            'mol': masked_wire(mol)}


def quiescent(mol):
    return slot(mol, '_changed') in (('set', None), ('unset', None)) and slot(mol, '_backup') in (('set', None), ('unset', None))


LABELS = ('_neighbors', '_heteroatoms', '_hybridization', '_explicit_hydrogens', '_in_ring', '_ring_sizes')


def symmetric(mol):
    b = mol._bonds
    if list(b) != list(mol._atoms):
        return False
    for n, ms in b.items():
        for m, bond in ms.items():
            if m == n or m not in b or n not in b[m] or b[m][n] is not bond:
                return False
    return True


def symmetric_all(mol):
    """the live graph and, inside a transaction, the snapshot graph are well-formed (what the model's `Mol.WF` decides)"""
    bk = slot(mol, '_backup')[1]
    return symmetric(mol) and (bk is None or symmetric(bk))


def rebuild_exact(mol, recalc_h=False, atoms=None):
    """independent rebuild through the public constructor API that reproduces the atom order AND every atom's
    neighbour order (bonds are added in a linear order compatible with all per-atom neighbour orders; one exists for
    every molecule built through the API). Falls back to molgen.rebuild when no such order exists.
    `atoms`: build only the induced fragment on these atoms (reference for substructure())."""
    from chython import MoleculeContainer
    if atoms is not None:
        keep = set(atoms)
        bonds = {n: {m: b for m, b in ms.items() if m in keep} for n, ms in mol._bonds.items() if n in keep}
    else:
        keep = None
        bonds = mol._bonds
    key = lambda a, b: (a, b) if a < b else (b, a)
    succ, indeg = {}, {}
    for n, ms in bonds.items():
        ks = [key(n, m) for m in ms]
        for k in ks:
            indeg.setdefault(k, 0)
            succ.setdefault(k, [])
        for x, y in zip(ks, ks[1:]):
            succ[x].append(y)
            indeg[y] += 1
    ready = [k for k, d in indeg.items() if d == 0]
    order = []
    while ready:
        k = ready.pop(0)
        order.append(k)
        for y in succ[k]:
            indeg[y] -= 1
            if indeg[y] == 0:
                ready.append(y)
    if len(order) != len(indeg):
        if keep is not None:
            raise ValueError('no linear bond order')
        return molgen.rebuild(mol, recalc_h=recalc_h)
    r = MoleculeContainer()
    for n, a in mol.atoms():
        if keep is not None and n not in keep:
            continue
        r.add_atom(a.copy(hydrogens=not recalc_h, stereo=True), n, _skip_calculation=True)
    for a, b in order:
        # the first endpoint to list the other decides nothing: add_bond appends to both neighbour dicts
        r.add_bond(a, b, bonds[a][b].copy(stereo=True), _skip_calculation=True)
    r.fix_structure(recalculate_hydrogens=recalc_h)
    if any(list(r._bonds[n]) != list(bonds[n]) for n in bonds):
        if keep is not None:
            raise ValueError('neighbour order not reproduced')
        return molgen.rebuild(mol, recalc_h=recalc_h)
    return r


def stereo_marks(mol):
    return (sorted((n, a._stereo) for n, a in mol._atoms.items() if a._stereo is not None),
            sorted((min(n, m), max(n, m), b._stereo) for n, m, b in mol.bonds() if b._stereo is not None))


def shared_state(objs):
    """mutable state that two distinct molecule objects (or a molecule and its transaction backup) share: description or None.
    Atoms, bonds, their Vectors, the atom/bond dicts, the metadata dict and the cache dict must all be
    private to their molecule (memoised *values* are frozen and may be shared)."""
    owners = {}
    def claim(x, who, what):
        if x is None:
            return None
        k = id(x)
        if k in owners and owners[k][0] != who:
            return f'{what} shared by object {owners[k][0]} and object {who}'
        owners[k] = (who, x)
        return None
    pool = []
    for i, m in enumerate(objs):
        pool.append((str(i), m))
        try:
            bk = m._backup
        except AttributeError:
            bk = None
        if bk is not None:
            pool.append((f'{i}.backup', bk))
    for who, m in pool:
        for what, x in (('_atoms dict', m._atoms), ('_bonds dict', m._bonds), ('meta dict', getattr(m, '_meta', None)),
                        ('__dict__', m.__dict__)):
            d = claim(x, who, what)
            if d:
                return d
        for n, a in m._atoms.items():
            # (`_ring_sizes` is handed out from the memoised `atoms_rings_sizes` value, which copies may share: a frozen value)
            for what, x in (('atom object', a), ('Vector of an atom', getattr(a, '_xy', None))):
                d = claim(x, who, what)
                if d:
                    return d
        for n, ms in m._bonds.items():
            d = claim(ms, who, 'neighbour dict')
            if d:
                return d
            for k, b in ms.items():
                d = claim(b, who, 'bond object')
                if d:
                    return d
    return None


def reaction_copy_independent():
    """ReactionContainer.copy (anchored by the property): metadata touched / empty / filled, then edits of the copy
    (meta, name, molecules) must leave the source unchanged and share no mutable state.  Returns description or None."""
    from chython import smiles
    for touch in ('none', 'read', 'fill', 'clear'):
        r = smiles('CC(=O)O.OC>>CC(=O)OC.O')
        if touch == 'read':
            r.meta  # noqa
        elif touch == 'fill':
            r.meta['id'] = 7
        elif touch == 'clear':
            r.meta['id'] = 7
            r.meta.clear()
        before = (str(r), dict(r.meta) if r._meta is not None else None, r.name, [str(m) for m in r.molecules()])
        c = r.copy()
        if r._meta is not None and c._meta is r._meta:
            return f'meta={touch}: the copy shares the metadata dict of the source'
        d = shared_state(list(r.molecules()) + list(c.molecules()))
        if d:
            return f'meta={touch}: {d}'
        c.meta['edited'] = 'yes'
        c.name = 'copy'
        for m in c.molecules():
            m.meta['edited'] = 'yes'
            m.add_atom('N')
        after = (str(r), dict(r.meta) if r._meta is not None else None, r.name, [str(m) for m in r.molecules()])
        if after[1] == {} and before[1] is None:
            after = (after[0], None, after[2], after[3])
        if before != after:
            return f'meta={touch}: editing the copy changed the source: {before} -> {after}'
    return None


def stereo_state(mol):
    """marks by atom / bond ends, and the connected component of every atom (all bonds)."""
    comp = {}
    for i, c in enumerate(_components(mol)):
        for n in c:
            comp[n] = i
    return ({n: a._stereo for n, a in mol._atoms.items() if a._stereo is not None},
            {frozenset((n, m)): b._stereo for n, m, b in mol.bonds() if b._stereo is not None}, comp)


def _components(mol):
    seen, out = set(), []
    for s in mol._atoms:
        if s in seen:
            continue
        c, st = {s}, [s]
        while st:
            x = st.pop()
            for y in mol._bonds.get(x, ()):
                if y not in c and y in mol._atoms:
                    c.add(y)
                    st.append(y)
        seen |= c
        out.append(c)
    return out


DERIVED_CONSTRUCTORS = ('augSub', 'augSubs', 'opAnd', 'opSub', 'opOr', 'copyDunder')
ORACLE_ONLY_OPS = ('opIor', 'compose', 'setName')    # `|=` (in-place union), `^` / compose (reads both, returns a CGR), name setter
REVALIDATING_OPS = {'addBond', 'delBond', 'delAtom', 'exitOk', 'substructure', 'fixStereo'}
NEUTRAL_OPS = {'read', 'fixStereo', 'fixStructure', 'calcLabels', 'flush', 'enter', 'exitOk', 'setXY', 'setMeta', 'copy',
               'substructure', 'union', 'split', 'compose', 'setName'} | set(DERIVED_CONSTRUCTORS)


def op_touched(op, mol_before):
    """atoms whose bonds / attributes the op changes on its target (None: anything may change)."""
    name = op[0]
    if name in NEUTRAL_OPS and name not in ('union', 'exitOk'):
        return set()
    if name == 'addAtom':
        return set()                       # an isolated atom
    if name == 'addBond':
        return {op[2], op[3]}
    if name == 'delBond':
        return {op[2], op[3]}
    if name == 'delAtom':
        return {op[2]} | set(mol_before._bonds.get(op[2], ()))
    if name in ('setCharge', 'setRadical'):
        return {op[2]}
    return None


def stereo_lost(before, mol_after, touched, mapping=None):
    """a stereo label in a connected component the operation did not touch must survive unchanged
    (labels are component-local: chirality never depends on another component).  `before` = stereo_state(before)."""
    am, bm, comp = before
    dirty = {comp[n] for n in touched if n in comp}
    mp = (lambda n: mapping.get(n, n)) if mapping else (lambda n: n)
    for n, s in am.items():
        if comp[n] in dirty:
            continue
        a = mol_after._atoms.get(mp(n))
        if a is None or a._stereo != s:
            return f'stereo label of atom {n} ({s}) became {None if a is None else a._stereo}'
    for e, s in bm.items():
        x, y = tuple(e)
        if comp[x] in dirty:
            continue
        b = mol_after._bonds.get(mp(x), {}).get(mp(y))
        if b is None or b._stereo != s:
            return f'cis/trans label of bond {sorted(e)} ({s}) became {None if b is None else b._stereo}'
    return None


def created_differs(src, op, res):
    """copy()/substructure() result against a fragment built independently from the source through the public
    constructor (same atom and neighbour order, marks carried over, then the same fix_structure/fix_stereo):
    canonical string (configuration included), stereo marks, hydrogens must agree. Returns a description or None."""
    name = op[0]
    try:
        if name == 'copy':
            ref = rebuild_exact(src)
        else:
            ref = rebuild_exact(src, recalc_h=bool(op[2]), atoms=op[3])
            ref.fix_stereo()
        want, got = str(ref), str(res)
    except Exception:
        return None
    if want != got:
        return f'canonical string {got} differs from {want} of the independently built fragment'
    if stereo_marks(ref) != stereo_marks(res) and [list(res._bonds[n]) for n in res._bonds] == [list(ref._bonds[n]) for n in ref._bonds]:
        return f'stereo marks {stereo_marks(res)} differ from {stereo_marks(ref)}'
    return None


def staleness(mol):
    """compare every memoised value, the stored labels and hydrogen counts with an independently rebuilt molecule.
    returns (stale_keys, labels_stale, h_stale_atoms, n_values_compared)"""
    try:
        ref = rebuild_exact(mol)             # hydrogens/stereo copied, labels recomputed from scratch
        ref_h = rebuild_exact(mol, recalc_h=True)
    except Exception:
        return None
    stale, compared = [], 0
    for k in keys_of(mol):
        if k in NO_VALUE_COMPARE:
            continue
        try:
            want = read_key(ref, k)
        except Exception:
            continue
        compared += 1
        if canon(mol.__dict__[k]) != canon(want):
            stale.append(k)
    lab = False
    for n, a in mol._atoms.items():
        r = ref._atoms[n]
        for s in LABELS:
            if getattr(a, s, '?') != getattr(r, s, '?'):
                lab = True
    for n, m, b in mol.bonds():
        if getattr(b, '_in_ring', '?') != getattr(ref._bonds[n][m], '_in_ring', '?'):
            lab = True
    hst = [n for n, a in mol._atoms.items() if a._implicit_hydrogens != ref_h._atoms[n]._implicit_hydrogens]
    return stale, lab, hst, compared


def h_consistent(mol):
    """seed filter: every stored hydrogen count equals the rule-based one (so staleness of hydrogens is observable)."""
    try:
        ref = rebuild_exact(mol, recalc_h=True)
    except Exception:
        return False
    return all(a._implicit_hydrogens == ref._atoms[n]._implicit_hydrogens for n, a in mol._atoms.items())


def outcome_of(e):
    import chython.exceptions as ce
    if e is None:
        return 'ok'
    name = type(e).__name__
    if isinstance(e, AttributeError):
        msg = str(e)
        s = msg.split("'")[-2] if "'" in msg else '?'
        return f'crash:AttributeError:{s}'
    if hasattr(ce, name) or isinstance(e, ValueError) and type(e) is ValueError:
        return f'lib:{name}'
    return f'crash:{name}'


class Recorder:
    """records calc_implicit calls (public method wrapped from outside; no source hook)."""

    def __enter__(self):
        from chython import MoleculeContainer
        self.calls = []
        self.orig = MoleculeContainer.calc_implicit
        rec = self

        def wrapped(mol, n):
            rec.calls.append((id(mol), n))
            return rec.orig(mol, n)
        MoleculeContainer.calc_implicit = wrapped
        return self

    def __exit__(self, *a):
        from chython import MoleculeContainer
        MoleculeContainer.calc_implicit = self.orig


BULK_OPS = ('kekule', 'thiele', 'neutralize', 'standardize', 'standardize_charges', 'implicify_hydrogens',
            'explicify_hydrogens', 'remove_coordinate_bonds', 'clean_isotopes', 'canonicalize', 'fix_resonance')
RELABEL_OPS = {'addAtom', 'addBond', 'delAtom', 'delBond', 'fixStructure', 'calcLabels', 'exitOk'}


class Flags:
    """what the rebuild comparison may be asked about, per object.
    * labels computed under another numbering (after remap / union with renumbering) are compared again only after the
      next relabelling: the SSSR of a ring system with several minimum cycle bases depends on the numbering (C06's
      recorded gap), so `ring_sizes` computed before a renumbering can legitimately differ from a rebuild after it;
    * hydrogen counts of substructure(recalculate_hydrogens=False) results are copied on purpose."""

    def __init__(self):
        self.renumbered = set()
        self.h_copied = set()
        self.intxn = {}          # object -> was it `renumbered` when its transaction was entered

    def update(self, op, created, exc):
        name, o = op[0], op[1]
        # inside a transaction edits do not relabel (that happens at the successful exit); an aborted transaction gives back
        # the labels of the snapshot, i.e. the comparison state the object had at `enter`
        if name == 'enter' and exc is None:
            self.intxn[o] = o in self.renumbered
        elif name == 'exitExc' and exc is None and o in self.intxn:
            if self.intxn.pop(o):
                self.renumbered.add(o)
            else:
                self.renumbered.discard(o)
            return
        elif name == 'exitOk' and exc is None:
            self.intxn.pop(o, None)
        elif name in ('addAtom', 'addBond', 'delAtom', 'delBond') and o in self.intxn:
            return
        if name == 'remap':
            self.renumbered.add(o)
        elif name == 'opIor':
            self.renumbered.add(o)
            if op[2] in self.h_copied:
                self.h_copied.add(o)
        elif name == 'union':
            self.renumbered.add(created if created is not None else o)
            if o in self.h_copied or op[2] in self.h_copied:
                self.h_copied.add(created if created is not None else o)
        elif name == 'copy' and created is not None:
            if o in self.renumbered:
                self.renumbered.add(created)
            if o in self.h_copied:
                self.h_copied.add(created)
        elif name == 'substructure' and created is not None:
            if not op[2]:
                self.h_copied.add(created)
            elif o in self.h_copied:
                self.h_copied.add(created)
        elif name in BULK_OPS:
            self.h_copied.add(o)   # hydrogens of aromatic atoms are not rule-based
            self.renumbered.add(o)  # bulk edits are exercised for their keep flags (memoised values); whether they
            #                         relabel (fix_resonance moves bond orders without calc_labels) is C14's question
        elif name in RELABEL_OPS and exc is None:
            self.renumbered.discard(o)

    def returned(self, op, k):
        """object k was returned by a derived constructor (split, augmented_substructure(s), &, -, |, copy.copy)"""
        name, o = op[0], op[1]
        if name == 'split':
            self.h_copied.add(k)           # split copies hydrogens on purpose (recalculate_hydrogens=False)
            if o in self.renumbered:
                self.renumbered.add(k)
        elif name in ('augSub', 'augSubs', 'opAnd', 'opSub'):
            if o in self.h_copied:
                self.h_copied.add(k)
        elif name == 'opOr':
            self.renumbered.add(k)
            if o in self.h_copied or op[2] in self.h_copied:
                self.h_copied.add(k)
        elif name == 'copyDunder':
            if o in self.renumbered:
                self.renumbered.add(k)
            if o in self.h_copied:
                self.h_copied.add(k)

    def filter(self, j, st):
        if st is None:
            return None
        stale, lab, hst, n = st
        if j in self.renumbered:
            lab = False
        if j in self.h_copied:
            hst = []
        return stale, lab, hst, n


def apply_op(objs, op):
    """execute one op (a list: name, args...) on the real objects; returns (exception|None, created_index|None)."""
    from chython.periodictable import Element
    name, a = op[0], op[1:]
    m = objs[a[0]]
    created = None
    if name == 'addAtom':
        _, z, n, skip = a
        atom = Element.from_atomic_number(z)()
        if n < 0:
            m.add_atom(atom, _skip_calculation=bool(skip))
        else:
            m.add_atom(atom, n, _skip_calculation=bool(skip))
    elif name == 'addBond':
        m.add_bond(a[1], a[2], a[3], _skip_calculation=bool(a[4]))
    elif name == 'delAtom':
        m.delete_atom(a[1], _skip_calculation=bool(a[2]))
    elif name == 'delBond':
        m.delete_bond(a[1], a[2], _skip_calculation=bool(a[3]))
    elif name == 'remap':
        m.remap(dict(a[1]))
    elif name == 'copy':
        objs.append(m.copy(keep_sssr=bool(a[1]), keep_components=bool(a[2])))
        created = len(objs) - 1
    elif name == 'substructure':
        objs.append(m.substructure(list(a[2]), recalculate_hydrogens=bool(a[1])))
        created = len(objs) - 1
    elif name == 'union':
        u = m.union(objs[a[1]], remap=bool(a[2]), copy=bool(a[3]))
        if a[3]:
            objs.append(u)
            created = len(objs) - 1
    elif name == 'fixStructure':
        m.fix_structure(recalculate_hydrogens=bool(a[1]))
    elif name == 'calcLabels':
        m.calc_labels()
    elif name == 'fixStereo':
        m.fix_stereo()
    elif name == 'cleanStereo':
        m.clean_stereo()
    elif name == 'flush':
        m.flush_cache(keep_sssr=bool(a[1]), keep_components=bool(a[2]))
    elif name == 'enter':
        m.__enter__()
    elif name == 'exitOk':
        m.__exit__(None, None, None)
    elif name == 'exitExc':
        m.__exit__(RuntimeError, RuntimeError('abort'), None)
    elif name == 'setCharge':
        m._atoms[a[1]].charge = a[2]
    elif name == 'setRadical':
        m._atoms[a[1]].is_radical = bool(a[2])
    elif name == 'setXY':
        at = m._atoms[a[1]]
        at.x = float(a[2])
        at.y = float(a[3])
    elif name == 'setMeta':
        if a[1] == 0:          # key 0: a mere read of mol.meta (creates the lazy empty dict) / mol.meta.clear()
            if a[2]:
                m.meta.clear()
            else:
                m.meta  # noqa
        else:
            m.meta[a[1]] = a[2]
    elif name == 'read':
        read_key(m, a[1])
    elif name == 'split':       # parts are appended (correspondence: expanded into read + substructure per component)
        parts = m.split()
        objs.extend(parts)
        created = len(objs) - 1 if parts else None
    elif name in DERIVED_CONSTRUCTORS:   # the other public operations that RETURN molecules (oracle only): results appended
        import copy as _copy
        if name == 'augSub':
            res = [m.augmented_substructure(list(a[2]), deep=a[1])]
        elif name == 'augSubs':
            res = list(m.augmented_substructures(list(a[2]), deep=a[1]))
        elif name == 'opAnd':
            res = [m & list(a[1])]
        elif name == 'opSub':
            res = [m - list(a[1])]
        elif name == 'opOr':
            res = [m | objs[a[1]]]
        elif name == 'copyDunder':
            res = [_copy.copy(m)]
        objs.extend(res)
        created = len(objs) - 1 if res else None
    elif name == 'opIor':       # `m |= other`: in-place union with renumbering; must hand back the same object
        r = m.__ior__(objs[a[1]])
        if r is not m:
            raise RuntimeError('__ior__ did not return the object itself')
    elif name == 'compose':     # `m ^ other`: reads both molecules, returns a CGR; must not change either
        (m ^ objs[a[1]]) if a[1] != a[0] else m.compose(m.copy())
    elif name == 'setName':
        m.name = f'n{a[1]}'
    elif name in BULK_OPS:      # bulk edits: only in the property-level search (not modelled)
        getattr(m, name)()
    else:
        raise RuntimeError('unknown op ' + name)
    return created


def op_line(op, obs):
    name, a = op[0], op[1:]
    if name == 'read':
        body = f'read {a[0]} {a[1]}'
    elif name == 'remap':
        flat = [x for p in a[1] for x in p]
        body = f'remap {a[0]} {len(flat)} ' + ' '.join(map(str, flat))
    elif name == 'substructure':
        body = f'substructure {a[0]} {int(a[1])} {len(a[2])} ' + ' '.join(map(str, a[2]))
    else:
        body = name + ' ' + ' '.join(str(int(x)) for x in a)
    return body.strip() + ' # ' + ' '.join(obs)


def run_real(seed_mol, ops):
    """run ops on a copy of the seed; returns list of per-op records (stops after the first non-ok outcome)."""
    objs = [seed_mol]
    recs = []
    flags = Flags()
    with Recorder() as rec:
        for op in ops:
            rec.calls.clear()
            exc = None
            created = None
            if op[0] == 'split':
                # `split()` is `[self.substructure(c, recalculate_hydrogens=False) for c in self.connected_components]`
                # (regenerated fact `splitPerComponent`; any other shape is a translator error): the real call is made once and
                # compared with the model's read of `connected_components` followed by one `substructure` per component
                o = op[1]
                m = objs[o]
                base = len(objs)
                try:
                    parts = m.split()
                    comps = [list(c) for c in m.connected_components]
                except Exception:
                    break
                objs.extend(parts)
                note = None if len(parts) == len(comps) else f'split() returned {len(parts)} molecules for {len(comps)} components'
                for k in range(-1, len(comps) if note is None else 0):
                    vis = objs[:base + k + 1]
                    if k < 0:
                        sub_op, tgt, crt = ['read', o, 'connected_components'], m, None
                    else:
                        sub_op, tgt, crt = ['substructure', o, 0, comps[k]], parts[k], base + k
                        flags.update(sub_op, crt, None)
                    recs.append({'op': sub_op, 'outcome': 'ok', 'created': crt, 'note': note if k < 0 else None,
                                 'recalc': sorted({n for i, n in rec.calls if i == id(tgt)}) if k >= 0 else [],
                                 'obs': keys_of(tgt), 'objs': [observe(x) for x in vis],
                                 'stale': [flags.filter(j, staleness(x)) if quiescent(x) and symmetric(x) else None
                                           for j, x in enumerate(vis)],
                                 'sym': [symmetric(x) for x in vis], 'wf': [symmetric_all(x) for x in vis]})
                if note is not None:
                    break
                continue
            try:
                created = apply_op(objs, op)
            except Exception as e:  # noqa
                exc = e
            if exc is not None and op[0] == 'read':
                break  # a derived value that cannot be computed in this state: the history ends before the read
            tgt = objs[created] if created is not None else objs[op[1]]
            flags.update(op, created, exc)
            recs.append({'op': op, 'outcome': outcome_of(exc), 'created': created,
                         'recalc': sorted({n for i, n in rec.calls if i == id(tgt)}),
                         'obs': keys_of(tgt), 'objs': [observe(o) for o in objs],
                         'stale': [flags.filter(j, staleness(o)) if quiescent(o) and symmetric(o) else None
                                   for j, o in enumerate(objs)],
                         'sym': [symmetric(o) for o in objs], 'wf': [symmetric_all(o) for o in objs]})
            if exc is not None:
                break
    return recs


def parse_model_block(block):
    parts = block.split(';')
    head = {'outcome': parts[0]}
    for p in parts[1:3]:
        k, _, v = p.partition('=')
        head[k] = v
    objs = []
    for p in parts[3:]:
        d = {}
        toks = p.split(' ')
        assert toks[0] == 'obj', p
        i = 1
        while i < len(toks):
            k, _, v = toks[i].partition('=')
            if k == 'mol':
                d['mol'] = ' '.join([v] + toks[i + 1:])
                break
            d[k] = v
            i += 1
        objs.append(d)
    head['objs'] = objs
    return head


def compare(recs, blocks):
    """returns list of disagreement strings."""
    diffs = []
    if len(blocks) != len(recs):
        return [f'model answered {len(blocks)} blocks for {len(recs)} ops: {blocks[-1][:200] if blocks else ""}']
    for i, (r, blk) in enumerate(zip(recs, blocks)):
        if blk.startswith('bad-'):
            diffs.append(f'op {i} {r["op"]}: model says {blk[:120]}')
            break
        m = parse_model_block(blk)
        tag = f'op {i} {r["op"]}'
        if r.get('note'):
            diffs.append(f'{tag}: {r["note"]}')
            break
        if m['outcome'] != r['outcome']:
            diffs.append(f'{tag}: outcome real {r["outcome"]} model {m["outcome"]}')
            break
        want_new = '-' if r['created'] is None else str(r['created'])
        if m['new'] != want_new:
            diffs.append(f'{tag}: created real {want_new} model {m["new"]}')
        if len(m['objs']) != len(r['objs']):
            diffs.append(f'{tag}: object count real {len(r["objs"])} model {len(m["objs"])}')
            break
        crashed = r['outcome'].startswith('crash')
        if not crashed and m['recalc'] != ','.join(map(str, r['recalc'])):
            diffs.append(f'{tag}: hydrogens recomputed real {r["recalc"]} model {m["recalc"]}')
        if crashed:
            break  # a Python crash may leave a half-executed loop behind; only the outcome class is compared
        for j, (ro, mo) in enumerate(zip(r['objs'], m['objs'])):
            for f in ('keys', 'changed', 'backup', 'name', 'meta', 'xy', 'mol'):
                if ro[f] != mo[f]:
                    diffs.append(f'{tag}: obj {j} {f}: real {ro[f][:300]} | model {mo[f][:300]}')
            if mo.get('wf') != ('1' if r['wf'][j] else '0'):
                diffs.append(f'{tag}: obj {j} well-formed graph (keys, symmetric adjacency, shared bond; live + snapshot): '
                             f'real {r["wf"][j]} model {mo.get("wf")}')
            st = r['stale'][j]
            if st is not None and not crashed:
                stale, lab, hst, _ = st
                mstale = set(filter(None, mo['stale'].split(',')))
                mh = set(filter(None, mo['hstale'].split(',')))
                unsettled = mo['lfresh'] != '1' or bool(mh)   # stored labels / hydrogens stale: every `full` value may differ
                for k in stale:
                    if k not in mstale and not (unsettled and k not in SKEL_CONN):
                        diffs.append(f'{tag}: obj {j} memoised {k} differs from rebuilt molecule but model predicts fresh')
                if lab and mo['lfresh'] == '1':
                    diffs.append(f'{tag}: obj {j} labels differ from rebuilt molecule but model predicts fresh')
                for n in hst:
                    if str(n) not in mh:
                        diffs.append(f'{tag}: obj {j} hydrogens of atom {n} differ from rebuilt molecule but model predicts fresh')
        if diffs:
            break
    return diffs


# ------------------------------------------------------------------------------------------------
# op generators
# ------------------------------------------------------------------------------------------------

class Sim:
    """light bookkeeping of the real objects while generating a sequence (so that generated ops are mostly valid)."""

    def __init__(self, mol):
        self.objs = [mol]
        self.intxn = [False]


def random_op(rng, objs, intxn, malformed=False, allow_skip=True):
    o = rng.randrange(len(objs))
    m = objs[o]
    ids = list(m._atoms)
    bonds = [(n, k) for n, k, _ in m.bonds()]
    skip = 0  # _skip_calculation is private API: only in the finding traces
    choices = ['addAtom', 'addBond', 'addBond', 'delAtom', 'delBond', 'remap', 'copy', 'substructure', 'union', 'fixStructure',
               'calcLabels', 'fixStereo', 'cleanStereo', 'flush', 'txn', 'txn', 'attr', 'setXY', 'setMeta', 'read', 'read',
               'read', 'read', 'split']
    huge = 10 ** 9
    for _ in range(20):
        c = rng.choice(choices)
        if malformed and rng.random() < 0.5:
            c = rng.choice(['badBond', 'badDelAtom', 'badDelBond', 'badAtom', 'badRemap', 'badSub', 'badUnion'])
        if c == 'addAtom':
            n = -1 if rng.random() < 0.6 else max(ids, default=0) + rng.randint(1, 5)
            r = rng.random()
            if r < 0.08 and 0 not in ids:
                n = 0                                  # 0 is a valid atom number
            elif r < 0.12:
                n = huge + rng.randint(0, 5) if all(x < huge for x in ids) else max(ids) + 1
            return ['addAtom', o, rng.choice([6, 6, 7, 8, 9, 1]), n, skip]
        if c == 'split' and not intxn[o] and len(objs) < 3 and ids:
            try:
                ncomp = m.connected_components_count
            except Exception:
                ncomp = 9
            if len(objs) + ncomp <= 5:
                return ['split', o]
        if c == 'addBond' and len(ids) >= 2:
            for _ in range(10):
                a, b = rng.sample(ids, 2)
                if b not in m._bonds[a]:
                    return ['addBond', o, a, b, rng.choice([1, 1, 1, 2, 8]), skip]
        if c == 'delAtom' and len(ids) > 1:
            return ['delAtom', o, rng.choice(ids), skip]
        if c == 'delBond' and bonds:
            a, b = rng.choice(bonds)
            if rng.random() < 0.5:
                a, b = b, a
            return ['delBond', o, a, b, skip]
        if c == 'remap' and ids and not intxn[o]:
            k = rng.randint(1, min(3, len(ids)))
            src = rng.sample(ids, k)
            r = rng.random()
            if r < 0.4:
                dst = src[1:] + src[:1]   # permutation among themselves
            elif r < 0.55 and (0 not in ids or 0 in src):
                base = max(ids) + rng.randint(1, 4)
                dst = [0] + [base + i for i in range(k - 1)]          # the new number 0
            elif r < 0.65 and min(ids) > 0 and not intxn[o]:
                src, dst = list(ids), [n - 1 for n in ids]           # shift down by one (0-based numbering)
            elif r < 0.72:
                base = max(max(ids), huge) + rng.randint(1, 4)
                dst = [base + i for i in range(k)]                    # huge numbers
            else:
                base = max(ids) + rng.randint(1, 4)
                dst = [base + i for i in range(k)]
            return ['remap', o, list(zip(src, dst))]
        if c == 'copy' and len(objs) < 4 and not intxn[o]:
            return ['copy', o, rng.randint(0, 1), rng.randint(0, 1)]
        if c == 'substructure' and len(objs) < 4 and ids and not intxn[o]:
            k = rng.randint(1, len(ids))
            return ['substructure', o, rng.randint(0, 1), sorted(rng.sample(ids, k))]
        if c == 'union' and len(objs) >= 2:
            p = rng.choice([i for i in range(len(objs)) if i != o])
            cp = rng.randint(0, 1)
            if cp and len(objs) >= 4:
                continue
            if intxn[o] or intxn[p]:
                continue  # unsettled atoms (no labels yet) cannot be copied: inside a transaction only edits and reads
            return ['union', o, p, 1, cp]
        if c in ('fixStructure',):
            return ['fixStructure', o, 1]
        if c in ('calcLabels', 'cleanStereo') or c == 'fixStereo' and not intxn[o]:
            return [c, o]  # fix_stereo needs the labels of every atom: not inside a transaction
        if c == 'flush':
            return ['flush', o, rng.randint(0, 1), rng.randint(0, 1)]
        if c == 'txn':
            if intxn[o]:
                return [rng.choice(['exitOk', 'exitOk', 'exitExc']), o]
            if slot(m, '_backup') == ('set', None):
                return ['enter', o]
        if c == 'attr' and intxn[o] and ids:
            if rng.random() < 0.6:
                return ['setCharge', o, rng.choice(ids), rng.choice([-1, 0, 1])]
            return ['setRadical', o, rng.choice(ids), rng.randint(0, 1)]
        if c == 'setXY' and ids:
            return ['setXY', o, rng.choice(ids), rng.randint(-8, 8), rng.randint(-8, 8)]
        if c == 'setMeta':
            if rng.random() < 0.35:
                return ['setMeta', o, 0, rng.randint(0, 1)]      # read mol.meta / clear it
            return ['setMeta', o, rng.randint(1, 3), rng.randint(1, 9)]
        if c == 'read':
            return ['read', o, rng.choice(READ_KEYS if rng.random() < 0.6 else CORE_READS)]
        # malformed stream
        if c == 'badBond' and ids:
            a = rng.choice(ids)
            kind = rng.randint(0, 3)
            if kind == 0:
                return ['addBond', o, a, a, 1, 0]
            if kind == 1:
                return ['addBond', o, a, max(ids) + 7, 1, 0]
            if kind == 2 and bonds:
                x, y = rng.choice(bonds)
                return ['addBond', o, y, x, 1, 0]
            return ['addBond', o, a, rng.choice(ids), 5, 0]
        if c == 'badDelAtom':
            return ['delAtom', o, max(ids, default=0) + 3, 0]
        if c == 'badDelBond' and len(ids) >= 2:
            for _ in range(10):
                a, b = rng.sample(ids, 2)
                if b not in m._bonds[a]:
                    return ['delBond', o, a, b, 0]
        if c == 'badAtom' and ids:
            return ['addAtom', o, 6, rng.choice(ids), 0]
        if c == 'badRemap' and len(ids) >= 2:
            a, b = rng.sample(ids, 2)
            return ['remap', o, [(a, b)]]
        if c == 'badSub' and ids:
            return ['substructure', o, 1, [] if rng.random() < 0.5 else [max(ids) + 2]]
        if c == 'badUnion' and len(objs) >= 2:
            p = rng.choice([i for i in range(len(objs)) if i != o])
            if not (intxn[o] or intxn[p]):
                return ['union', o, p, 0, 1]
    return ['read', o, 'sssr']


def gen_sequence(rng, seed_mol, length, malformed=False, allow_skip=True):
    """generate ops while executing them on a scratch copy (so later ops refer to existing atoms)."""
    objs = [seed_mol.copy()]
    _init_slots(objs[0])
    intxn = [False]
    ops = []
    for _ in range(length):
        op = random_op(rng, objs, intxn, malformed, allow_skip)
        ops.append(op)
        try:
            created = apply_op(objs, op)
        except Exception:
            break
        while len(intxn) < len(objs):
            intxn.append(False)
        if op[0] == 'enter':
            intxn[op[1]] = True
        elif op[0] in ('exitOk', 'exitExc'):
            intxn[op[1]] = False
    return ops


def _init_slots(mol):
    """a seed object as the public constructor leaves it (molgen.parse hands out copies)."""
    for s in ('_changed', '_backup'):
        try:
            getattr(mol, s)
        except AttributeError:
            setattr(mol, s, None)
    return mol


def fresh_seed(smi):
    from chython import smiles
    m = smiles(smi)
    m.flush_cache()   # the model starts from an empty __dict__
    m._meta = None    # parser log entries are not part of the model's start state
    return m


ALPHABET_SEEDS = ['C1CCCCC1', 'CC(=O)O', 'C1CC1CN', 'C=CC=C', 'OCC(N)C.[Na+]']
ANY_SEEDS = ['CN~[Cu]~NC', 'C[Mg]~Br', 'CC(=O)O~[Na]', 'C1CC1~[Fe]~C1CC1', 'N~[Cu]~N.C', 'Cl[Pd](Cl)(~N)~N']   # order-8 bonds
DEPENDENT_STEREO_SEEDS = ['C/C=C([C@H](C)O)\\[C@@H](C)O', 'CC/C=C([C@@H](F)CC)/[C@H](F)CC', 'C[C@H](O)[C@H](F)[C@H](O)C',
                          'C/C=C/[C@H](F)/C=C\\C', 'C/C=C([C@H](C)O)\\[C@@H](C)O.CC', 'CC(C)=[C@]=C(C)[C@H](F)Cl']
STEREO_SEEDS = ['C[C@H]1CC[C@@H](C)CC1', '[C@@H]1(C)CC[C@H](C)CC1', 'OC[C@H]1OC(O)[C@H](O)[C@@H](O)[C@@H]1O', 'N[C@@H](C)C(=O)O',
                'F[C@]1(Cl)CC[C@@]1(Br)C', 'C/C=C/C', 'C/C=C\\C(/C)=C/C', 'CC=[C@]=CC', 'C[C@H](O)/C=C/[C@@H](C)N',
                'C[C@H]1CC[C@@H](C)CC1.N[C@@H](C)C(=O)O', 'F/C=C/[C@H]1C[C@@H]1C.C[C@@H](N)O']


def alphabet(mol):
    """fixed ~14-op alphabet on object 0 of a seed (atoms chosen deterministically from the seed)."""
    ids = list(mol._atoms)
    b = [(n, m) for n, m, _ in mol.bonds()]
    a0, a1 = ids[0], ids[-1]
    nb = next(((x, y) for x in ids for y in ids if x < y and y not in mol._bonds[x]), None)
    ops = [['addAtom', 0, 6, -1, 0], ['delAtom', 0, a1, 0], ['delBond', 0, b[0][0], b[0][1], 0],
           ['remap', 0, [(a0, max(ids) + 5)]], ['enter', 0], ['exitOk', 0], ['exitExc', 0], ['setCharge', 0, a0, 1],
           ['copy', 0, 1, 1], ['cleanStereo', 0], ['fixStructure', 0, 1], ['substructure', 0, 1, ids[:max(1, len(ids) // 2)]]]
    if nb:
        ops.append(['addBond', 0, nb[0], nb[1], 1, 0])
    if len(b) > 1:
        ops.append(['delBond', 0, b[-1][1], b[-1][0], 0])
    ops += [['split', 0], ['remap', 0, [(a1, 0)]]]     # returned molecules of split(); the (falsy) atom number 0
    return ops


def admissible(seq):
    """transaction discipline of the generator: exits only inside, enter only outside, attribute writes only inside."""
    intxn = False
    for op in seq:
        if op[0] == 'enter':
            if intxn:
                return False
            intxn = True
        elif op[0] in ('exitOk', 'exitExc'):
            if not intxn:
                return False
            intxn = False
        elif op[0] in ('setCharge', 'setRadical') and not intxn:
            return False
        elif op[0] in ('remap', 'copy', 'substructure', 'split') and intxn:
            return False
    return True


RING_READS = ['sssr', 'rings_count', 'atoms_rings_sizes', 'connected_components']


def rollback_histories(smi):
    """reads, a block that changes the ring system / components, reads of ring and component values INSIDE the block,
    abort, reads again, then a successful block and final reads."""
    m = fresh_seed(smi)
    ids = list(m._atoms)
    bonds = [(a, b) for a, b, _ in m.bonds()]
    nb = [(x, y) for x in ids for y in ids if x < y and y not in m._bonds[x]]
    edits = []
    if nb:
        edits.append(['addBond', 0, nb[0][0], nb[0][1], 1, 0])
        edits.append(['addBond', 0, nb[-1][0], nb[-1][1], 1, 0])
    if bonds:
        edits.append(['delBond', 0, bonds[0][0], bonds[0][1], 0])
        edits.append(['delBond', 0, bonds[-1][0], bonds[-1][1], 0])
    edits.append(['delAtom', 0, ids[-1], 0])
    edits.append(['addAtom', 0, 6, -1, 0])
    out = []
    rd = lambda: [['read', 0, k] for k in RING_READS]
    for pre in ([], rd()):
        for e in edits:
            for inner in ([], rd()):
                for after in (['exitExc'], ['exitOk']):
                    h = pre + [['enter', 0], e] + inner + [[after[0], 0]] + rd() + [['read', 0, '__cached_method___str__']]
                    h += [['enter', 0], ['setCharge', 0, ids[0], 1]] + rd() + [['exitOk', 0]] + rd() + \
                         [['read', 0, '__cached_method___str__']]
                    out.append(h)
    return out


def neutral_histories(smi):
    """operations that leave (part of) the molecule alone: every label there must survive; every order-8 bond is deleted
    (and re-added) with component / ring values cached; atoms with order-8 bonds are deleted."""
    m = fresh_seed(smi)
    ids = list(m._atoms)
    rd = [['read', 0, k] for k in CORE_READS + ['rings_count']]
    out = [[['addAtom', 0, 6, -1, 0], ['delAtom', 0, max(ids) + 1, 0]], [['enter', 0], ['exitOk', 0]], [['fixStereo', 0]],
           [['fixStructure', 0, 1]], [['substructure', 0, 0, ids]], [['substructure', 0, 1, ids]], [['copy', 0, 0, 0], ['fixStereo', 1]],
           [['enter', 0], ['addAtom', 0, 6, -1, 0], ['exitOk', 0]], [['enter', 0], ['addAtom', 0, 6, -1, 0], ['exitExc', 0]],
           [['addAtom', 0, 8, -1, 0], ['addAtom', 0, 6, -1, 0], ['addBond', 0, max(ids) + 1, max(ids) + 2, 1, 0],
            ['delBond', 0, max(ids) + 1, max(ids) + 2, 0]]]
    # metadata: untouched / read (lazy empty dict) / filled / cleared, then copy, union, aborted and successful blocks
    for touch in ([], [['setMeta', 0, 0, 0]], [['setMeta', 0, 2, 5]], [['setMeta', 0, 2, 5], ['setMeta', 0, 0, 1]]):
        out.append(touch + [['copy', 0, 0, 0], ['setMeta', 1, 1, 9], ['setMeta', 0, 3, 3]])
        out.append(touch + [['copy', 0, 1, 1], ['setMeta', 0, 1, 9], ['setMeta', 1, 0, 1]])
        out.append(touch + [['copy', 0, 0, 0], ['union', 0, 1, 1, 1], ['setMeta', 2, 1, 9], ['setMeta', 1, 1, 4]])
        out.append(touch + [['enter', 0], ['setMeta', 0, 1, 9], ['exitExc', 0], ['setMeta', 0, 0, 0]])
        out.append(touch + [['enter', 0], ['setMeta', 0, 0, 0], ['setMeta', 0, 1, 9], ['exitOk', 0]])
        out.append(touch + [['substructure', 0, 1, ids[:max(1, len(ids) // 2)]], ['setMeta', 1, 1, 9]])
    for a, b, bond in m.bonds():
        if int(bond) == 8:
            out.append(rd + [['delBond', 0, a, b, 0]] + rd)
            out.append(rd + [['delBond', 0, b, a, 0]] + rd + [['addBond', 0, a, b, 8, 0]] + rd)
            out.append(rd + [['delAtom', 0, a, 0]] + rd + [['copy', 0, 1, 1]])
            out.append(rd + [['delAtom', 0, b, 0]] + rd + [['copy', 0, 1, 1]])
            out.append([['enter', 0]] + rd + [['delBond', 0, a, b, 0]] + rd + [['exitOk', 0]] + rd)
    return [rd + h + rd for h in out]


ARM_SEEDS = ['O[C@H](CCC)CC', 'CC[C@H](N)CCC', 'CC/C=C(/C)CCC', 'OC[C@H](F)CCO', 'C[C@H](CC)CCC=C', 'CC[C@@](C)(O)CCC']


def one_step_edit_histories(smi):
    """every ring closure, every chain extension, every bond / atom deletion as a single public edit (outside and inside
    a block): edits far from a label can make two arms of a centre equal, edits next to it can remove a substituent."""
    m = fresh_seed(smi)
    ids = list(m._atoms)
    new = max(ids) + 1
    out = []
    for x in ids:
        for y in ids:
            if x < y and y not in m._bonds[x]:
                out.append([['addBond', 0, x, y, 1, 0]])
        out.append([['addAtom', 0, 6, -1, 0], ['addBond', 0, x, new, 1, 0]])
        out.append([['enter', 0], ['addAtom', 0, 6, -1, 0], ['addBond', 0, new, x, 1, 0], ['exitOk', 0]])
        out.append([['delAtom', 0, x, 0]])
    for x, y, _ in m.bonds():
        out.append([['delBond', 0, x, y, 0]])
    return out


CONSTRUCTOR_SEEDS = ['CCO', 'CC(=O)O', 'C1CC1C', 'C[C@H](O)CC', 'C/C=C/CO', 'CCO.CN', '[Na+].[O-]CC', 'C1CC1.C[C@H](N)O', 'C[Mg]~Br']


def constructor_histories(smi):
    """every public operation that RETURNS molecules (copy, copy.copy, substructure, augmented_substructure(s), split, &, -,
    |, union) on connected and on disconnected seeds, followed by ordinary edits of each returned object (the oracle checks
    after every op that no other object changed, that no mutable state is shared and that the returned object is a new
    one), then edits of the source (the returned objects must not change either)."""
    m = fresh_seed(smi)
    ids = list(m._atoms)
    half = ids[:max(1, len(ids) // 2)]
    comps = [sorted(c) for c in m.connected_components]
    ctors = [[['copy', 0, 0, 0]], [['copy', 0, 1, 1]], [['copyDunder', 0]], [['split', 0]], [['substructure', 0, 1, ids]],
             [['substructure', 0, 0, comps[0]]], [['augSub', 0, 1, ids[:1]]], [['augSub', 0, 0, ids[:1]]], [['augSub', 0, 3, ids[-1:]]],
             [['augSubs', 0, 2, ids[:1]]], [['opAnd', 0, half]],
             [['opOr', 0, 0]], [['union', 0, 0, 1, 1]]]
    if len(ids) > 1:
        ctors.append([['opSub', 0, ids[-1:]]])
    out = []
    for ctor in ctors:
        try:
            objs = [fresh_seed(smi)]
            apply_op(objs, ctor[0])
        except Exception:
            continue
        h = [['read', 0, '__cached_method___str__'], ['read', 0, 'connected_components']] + ctor
        for k in range(1, len(objs)):            # edit every returned object
            pids = list(objs[k]._atoms)
            big = max(pids) + 1
            h += [['addAtom', k, 7, -1, 0], ['addBond', k, pids[0], big, 1, 0], ['enter', k], ['setCharge', k, big, 1], ['exitOk', k]]
            if len(pids) > 1:
                h.append(['delAtom', k, pids[-1], 0])
            h += [['remap', k, [(pids[0], big + 7)]], ['setXY', k, big, 3, 4], ['setName', k, k], ['compose', k, 0], ['opIor', k, 0],
                  ['read', 0, '__cached_method___str__']]
        # and the other way round: edit the source, the returned objects must stay
        h += [['addAtom', 0, 8, -1, 0], ['delAtom', 0, ids[0], 0]] + [['read', k, '__cached_method___str__'] for k in range(1, len(objs))]
        out.append(h)
    return out


NUMBERING_SEEDS = ['CCO', 'CC(=O)O', 'C1CC1CN', 'C=CC=O', 'CC[N+](C)(C)C.[Cl-]']


def numbering_histories(smi):
    """atom numbers at the edges of their domain in every operation that takes or makes numbers: 0 (valid, but falsy),
    gaps, huge numbers — remap to / from 0, 0-based renumbering, add_atom(n=0 / huge), union with renumbering after that,
    substructure / delete of atom 0; reads before and after so that stale caches show."""
    m = fresh_seed(smi)
    ids = list(m._atoms)
    huge = 10 ** 9 + 7
    maps = [[(n, n - 1) for n in ids], [(ids[-1], 0)], [(ids[0], 0)], [(n, n + huge) for n in ids], list(zip(ids, reversed(ids))),
            [(ids[0], ids[1]), (ids[1], ids[0])], [(ids[-1], 99)], [(ids[0], huge)], [(ids[0], 0), (ids[1], huge)]]
    rd = [['read', 0, k] for k in ('__cached_method___str__', 'sssr', 'connected_components', 'atoms_order')]
    out = []
    for mp in maps:
        new = [dict(mp).get(n, n) for n in ids]
        h = rd + [['remap', 0, mp]] + rd + [['addAtom', 0, 6, -1, 0], ['addBond', 0, new[0], max(new) + 1, 1, 0], ['copy', 0, 0, 0],
                                           ['union', 0, 1, 1, 0]] + rd[:1] + [['substructure', 0, 1, new[:2]], ['delAtom', 0, new[0], 0]] + rd[:2]
        out.append(h)
        out.append([['remap', 0, mp], ['remap', 0, [(b, a) for a, b in mp]]] + rd[:2])       # and back
    out.append(rd[:1] + [['addAtom', 0, 7, 0, 0], ['addBond', 0, 0, ids[0], 1, 0], ['addAtom', 0, 8, huge, 0], ['addAtom', 0, 6, -1, 0],
                         ['addBond', 0, huge, huge + 1, 1, 0], ['remap', 0, [(0, huge + 5), (huge, 0)]], ['delAtom', 0, 0, 0]] + rd[:2])
    out.append([['addAtom', 0, 7, 0, 0], ['copy', 0, 0, 0], ['union', 0, 1, 1, 1], ['substructure', 2, 1, [0, ids[0]]], ['delAtom', 0, 0, 0]])
    return out


def txn_multi_edit_histories(smi):
    """several structural edits in ONE successful block (the pending-change set already exists for the later ones)."""
    m = fresh_seed(smi)
    b = [(x, y) for x, y, bd in m.bonds()]
    ids = list(m._atoms)
    out = []
    for i in range(len(b)):
        for j in range(len(b)):
            if i != j and not set(b[i]) & set(b[j]):
                for e2 in (['delBond', 0, b[j][0], b[j][1], 0], ['delBond', 0, b[j][1], b[j][0], 0]):
                    out.append([['enter', 0], ['delBond', 0, b[i][0], b[i][1], 0], e2, ['exitOk', 0]])
                    out.append([['enter', 0], ['addAtom', 0, 9, -1, 0], ['addBond', 0, max(ids) + 1, b[i][0], 1, 0], e2, ['exitOk', 0]])
    return out[:24]


def interleave_reads(seq, keys):
    out = [['read', 0, k] for k in keys]
    for op in seq:
        out.append(op)
        out += [['read', 0, k] for k in keys]
    return out


# ------------------------------------------------------------------------------------------------
# correspondence
# ------------------------------------------------------------------------------------------------

def run_batch(ctx, cases, stream):
    """cases: list of (label, smiles-or-mol, ops). Runs real side, then the driver, compares."""
    lines, recs_all = [], []
    for label, smi, ops in cases:
        seed = fresh_seed(smi)
        start = wire.mol_to_line(seed)
        recs = run_real(seed, ops)
        recs_all.append((label, smi, recs))
        lines.append('run|' + start + '|' + '|'.join(op_line(r['op'], r['obs']) for r in recs))
    if not ctx.build_ok:
        return
    out = run_driver('C13', lines)
    if len(out) != len(lines):
        ctx.broke('correspondence', stream, f'driver returned {len(out)} lines for {len(lines)} requests')
        return
    for (label, smi, recs), resp in zip(recs_all, out):
        blocks = resp.split('|') if resp else []
        diffs = compare(recs, blocks)
        prefix = []
        for r, blk in zip(recs, blocks):
            prefix.append(r['op'])
            changed = r['outcome'] != 'ok' or r['op'][0] != 'read' or True
            ctx.count((smi, json.dumps(prefix)), nontrivial=r['op'][0] not in ('read',) or len(prefix) > 1)
            ctx.dist('op:' + r['op'][0])
            ctx.dist('outcome:' + r['outcome'].split(':')[0] + (':' + r['outcome'].split(':')[1] if ':' in r['outcome'] else ''))
            for st in r['stale']:
                if st is not None:
                    ctx.dist('values-compared-with-rebuilt', st[3])
        ctx.dist('seq-len:%d' % min(len(recs), 40))
        if diffs:
            ctx.cov['disagreements_checked'] += 1
            ctx.broke('correspondence', stream, json.dumps({'seed': smi, 'ops': [r['op'] for r in recs], 'diff': diffs[:4]}))
            _state.setdefault('suspects', []).append({'seed': smi, 'ops': [r['op'] for r in recs]})
        elif recs:
            ctx.sample({'seed': smi, 'ops': [r['op'] for r in recs][:6], 'last_model_block': blocks[-1][:300] if blocks else ''})


def seed_pool(ctx):
    pool = []
    for s, m in molgen.handmade():
        if h_consistent(m) and len(m) <= 24:
            pool.append(s)
    for s in STEREO_SEEDS + DEPENDENT_STEREO_SEEDS + ANY_SEEDS:   # ring-closing stereocentres, allenes, cis/trans, labels
        # that exist only because of other labels, coordinate (order 8) bonds
        try:
            if h_consistent(fresh_seed(s)):
                pool += [s, s]
        except Exception:
            pass
    k = 40 if ctx.quick else 400
    for label, m in molgen.corpus(ctx.rng, k):
        try:
            km = m.copy()
            km.kekule()
        except Exception:
            continue
        smi = format(km, 'h') if False else str(km)
        try:
            mm = fresh_seed(smi)
        except Exception:
            continue
        if h_consistent(mm) and len(mm) <= 40:
            pool.append(smi)
    return pool


def correspond(ctx):
    ctx.cov['programs'] = 22  # add_atom add_bond delete_atom delete_bond remap union(copy/in place) copy substructure fix_structure
    #                           calc_labels fix_stereo clean_stereo flush_cache __enter__ __exit__(ok/exc) charge/radical setters
    #                           x/y setters meta cached reads(34 attributes) calc_implicit recorder
    t0 = time.time()
    # 0. regression corpus: traces of fixed / known findings, model vs real
    cases = [(f'finding[{i}]', t['seed'], t['ops']) for i, t in enumerate(FINDING_TRACES)]
    run_batch(ctx, cases, 'finding-traces')
    # 0b. transaction rollback histories with ring / component reads inside the failing block
    cases = []
    for smi in ALPHABET_SEEDS[:3] + STEREO_SEEDS[:2] + (ALPHABET_SEEDS[3:] + STEREO_SEEDS[2:6] if not ctx.quick else []):
        for h in rollback_histories(smi):
            cases.append(('rollback', smi, h))
    run_batch(ctx, cases, 'txn-rollback')
    ctx.dist('rollback-histories', len(cases))
    # 0c. coordinate-bond and neutral-operation histories; several edits in one successful block
    cases = []
    for smi in ANY_SEEDS + DEPENDENT_STEREO_SEEDS[:2] + STEREO_SEEDS[:2] + ALPHABET_SEEDS[:2]:
        for h in neutral_histories(smi):
            cases.append(('neutral', smi, h))
    for smi in ['CCO.CCN', 'CC[O-]', 'C1CC1CN', 'CCOCC.CN']:
        for h in txn_multi_edit_histories(smi):
            cases.append(('multi-edit', smi, h))
    run_batch(ctx, cases, 'neutral-anybond-multiedit')
    # 0c''. atom numbers at the edge of their domain (0, gaps, huge) through remap / add_atom / union / substructure, and the
    #       operations that return molecules (split expanded into its substructure calls) followed by edits of the results
    cases = []
    for smi in NUMBERING_SEEDS[:3 if ctx.quick else 5]:
        for h in numbering_histories(smi):
            cases.append(('numbering', smi, h))
    model_ops = {'copy', 'split', 'substructure', 'union'}
    for smi in CONSTRUCTOR_SEEDS[:5 if ctx.quick else 9]:
        for h in constructor_histories(smi):
            if not any(op[0] in DERIVED_CONSTRUCTORS for op in h):
                # for the model: `|=` is union(remap=True, copy=False); compose / name setter are not modelled (oracle only)
                hk = [['union', op[1], op[2], 1, 0] if op[0] == 'opIor' else op for op in h if op[0] not in ('compose', 'setName')]
                cases.append(('constructors', smi, hk))
    for smi in ALPHABET_SEEDS[:3] + ANY_SEEDS[:2]:
        m0 = fresh_seed(smi)
        ids0 = list(m0._atoms)
        b0 = [(n, k) for n, k, _ in m0.bonds()]
        rd = [['read', 0, k] for k in CORE_READS]
        for tail in ([['fixStructure', 0, 1], ['fixStereo', 0]], [['enter', 0], ['exitOk', 0]], [['calcLabels', 0], ['fixStructure', 0, 0]]):
            cases.append(('private-skip', smi, rd + [['delBond', 0, b0[0][0], b0[0][1], 1]] + tail + rd))
            cases.append(('private-skip', smi, rd + [['delAtom', 0, ids0[-1], 1]] + tail + rd))
            if tail[0][0] != 'enter':   # an atom added with the private flag is unlabelled until fix_structure: copy()/enter raise
                cases.append(('private-skip', smi, rd + [['addAtom', 0, 7, -1, 1], ['addBond', 0, ids0[0], max(ids0) + 1, 1, 1]] + tail + rd))
    run_batch(ctx, cases, 'numbering-constructors')
    ctx.dist('numbering-constructor-histories', len(cases))
    # 0c'. ReactionContainer.copy independence (anchored file chython/containers/reaction.py; not part of the model)
    try:
        d = reaction_copy_independent()
    except Exception as e:   # noqa
        d = f'reaction copy check raised {type(e).__name__}: {e}'
    ctx.count(('reaction-copy',), n=4)
    if d:
        ctx.fail('C13/not-independent/reaction-copy', d, {'reaction': 'CC(=O)O.OC>>CC(=O)OC.O', 'check': 'reaction_copy_independent'})
    # 0d. property oracle on the real code for what the model does not represent (stereo labels, created objects):
    #     neutral operations, rollbacks and random histories on stereo / coordinate-bond seeds; a failure here is a failing input
    t1 = time.time()
    n_or = 0
    oracle_cases = []
    # every public operation that returns molecules: the result is a new, independent, editable object (both directions);
    # renumbering to / from 0 and huge numbers gives the documented numbers
    for smi in ([CONSTRUCTOR_SEEDS[i] for i in (0, 3, 5, 8)] if ctx.quick else CONSTRUCTOR_SEEDS):
        oracle_cases += [(smi, h) for h in constructor_histories(smi)]
    for smi in NUMBERING_SEEDS[:1 if ctx.quick else 5]:
        oracle_cases += [(smi, h) for h in numbering_histories(smi)]
    for smi in ALPHABET_SEEDS[:2] + DEPENDENT_STEREO_SEEDS + STEREO_SEEDS + ANY_SEEDS:
        try:
            hs = neutral_histories(smi)
        except Exception:
            continue
        oracle_cases += [(smi, h) for h in hs]
    for smi in ARM_SEEDS[:3 if ctx.quick else 6]:
        oracle_cases += [(smi, h) for h in one_step_edit_histories(smi)]
    rdk = [['read', 0, k] for k in CORE_READS + ['rings_count', 'atoms_rings_sizes']]
    for smi in ANY_SEEDS + ['c1ccccc1O', 'CC(=O)[O-].[NH4+]']:
        for bulk in BULK_OPS:
            oracle_cases.append((smi, rdk + [[bulk, 0]]))
    oracle_cases = oracle_cases[-(len(ARM_SEEDS) * 80 + 200):] + oracle_cases[:-(len(ARM_SEEDS) * 80 + 200)] if False else oracle_cases
    for i in range(40 if ctx.quick else 600):
        smi = ctx.rng.choice(DEPENDENT_STEREO_SEEDS + STEREO_SEEDS + ANY_SEEDS + ARM_SEEDS)
        oracle_cases.append((smi, gen_sequence(ctx.rng, fresh_seed(smi), ctx.rng.randint(3, 15), allow_skip=False)))
    from ..core import load_findings
    seen_sig = {f['signature'] for f in load_findings('C13') if f['status'] == 'known'}   # reported by their standing probes
    for smi, h in oracle_cases:
        if time.time() - t1 > (40 if ctx.quick else 300):
            break
        try:
            r = oracle(smi, h)
        except Exception:
            continue
        n_or += 1
        ctx.count(('oracle', smi, json.dumps(h)), n=len(h))
        if r and r[0] not in seen_sig:
            seen_sig.add(r[0])
            small = shrink(smi, h, r[0])
            r2 = oracle(smi, small) or r
            ctx.fail(r2[0], r2[1], {'seed': smi, 'ops': small})
    ctx.dist('oracle-histories', n_or)
    # 1. exhaustive short sequences over the alphabet with reads interleaved
    depth = 2 if ctx.quick else 3
    cases = []
    for smi in ALPHABET_SEEDS[:3 if ctx.quick else 5]:
        alpha = alphabet(fresh_seed(smi))
        for L in range(1, depth + 1):
            for seq in itertools.product(alpha, repeat=L):
                if not admissible(seq):
                    continue
                cases.append(('exh', smi, interleave_reads(list(seq), CORE_READS)))
    run_batch(ctx, cases, 'exhaustive-short')
    ctx.dist('exhaustive-sequences', len(cases))
    if not ctx.quick or True:
        ctx.exhaustive = False  # the op alphabet is finite but the property quantifies over all histories
    # 2. random long sequences on handmade + corpus molecules
    pool = seed_pool(ctx)
    n_rand = 150 if ctx.quick else 1500
    cases = []
    for i in range(n_rand):
        smi = ctx.rng.choice(pool)
        ops = gen_sequence(ctx.rng, fresh_seed(smi), ctx.rng.randint(3, 40))
        cases.append(('rand', smi, ops))
    run_batch(ctx, cases, 'random-long')
    # 3. malformed-argument stream
    cases = []
    for i in range(60 if ctx.quick else 600):
        smi = ctx.rng.choice(pool)
        ops = gen_sequence(ctx.rng, fresh_seed(smi), ctx.rng.randint(2, 12), malformed=True)
        cases.append(('malformed', smi, ops))
    run_batch(ctx, cases, 'malformed')
    ctx.dist('seed-pool', len(pool))
    ctx.notes.append(f'correspondence wall {time.time() - t0:.1f}s')


# ------------------------------------------------------------------------------------------------
# property oracle (never consults the model), search, probe
# ------------------------------------------------------------------------------------------------

def split_differs(smi, before, objs, last):
    """split() of an unedited dot-separated seed against its separately parsed components (independent: the parser)."""
    from chython import smiles
    if any(op[0] not in ('read', 'copy') for op in before) or last is None or ' ' in smi:
        return None
    comps = smi.split('.')
    parts = objs[last - len(comps) + 1:last + 1]
    if len(parts) != len(comps):
        return f'{len(parts)} parts for {len(comps)} components'
    try:
        want = sorted(str(smiles(c)) for c in comps)
        got = sorted(str(p) for p in parts)
    except Exception:
        return None
    return None if want == got else f'parts {got} differ from separately parsed components {want}'


def oracle(smi, ops):
    """execute ops on the real code; return (signature, what) of the first property failure or None.
    Checks after every op: symmetric adjacency; when the object is quiescent: every memoised value, labels and hydrogen
    counts equal an independently rebuilt molecule; aborted transaction restores the prior molecule and leaves it usable;
    operations on a copy/substructure/union do not change the source and do not fail for lack of initialisation."""
    seed = fresh_seed(smi)
    objs = [seed]
    flags = Flags()
    if not h_consistent(seed):
        flags.h_copied.add(0)   # stored hydrogens are not all rule-based (aromatic heteroatoms): not compared
    origin = {0: None}           # object -> (source object, how) for copies
    enter_state = {}
    txn_touched, txn_stereo = {}, {}
    stereo_unsettled = set()
    attr_in_txn, edit_in_txn = {}, {}
    fix_after_attr, edit_after_fix = {}, {}   # attr write < public fix_structure() < structural edit, inside one block
    fix_in_txn, edit_after_any_fix = {}, {}   # public fix_structure() < structural edit, attr write anywhere in the block
    for i, op in enumerate(ops):
        name, o = op[0], op[1]
        if o >= len(objs):
            return None
        before = [(observe(x)['mol'], observe(x)['xy'], observe(x)['meta'], keys_of(x)) for x in objs]
        st_before = stereo_state(objs[o]) if symmetric(objs[o]) else None
        touched = op_touched(op, objs[o])
        if name == 'exitOk':
            touched = txn_touched.pop(o, None)
        elif o in enter_state and name not in ('enter',):
            t0_ = txn_touched.get(o, set())
            txn_touched[o] = None if (touched is None or t0_ is None) else (t0_ | touched)
            touched = None          # inside a block stereo is fixed only at exit
        if name == 'enter':
            txn_touched[o] = set()
            txn_stereo[o] = st_before
        if name == 'enter':
            enter_state[o] = (wire.mol_to_line(objs[o]), observe(objs[o]))
            attr_in_txn[o] = edit_in_txn[o] = False
            fix_after_attr[o] = edit_after_fix[o] = False
            fix_in_txn[o] = edit_after_any_fix[o] = False
        if name in ('setCharge', 'setRadical'):
            if o not in enter_state:
                return None  # outside a transaction: caller's responsibility, out of the property's domain
            attr_in_txn[o] = True
        if name in ('addAtom', 'addBond', 'delAtom', 'delBond') and o in enter_state:
            edit_in_txn[o] = True
            if fix_after_attr.get(o):
                edit_after_fix[o] = True
        if name == 'fixStructure' and o in enter_state and op[2] and attr_in_txn.get(o):
            fix_after_attr[o] = True
        if name == 'fixStructure' and o in enter_state and op[2]:
            fix_in_txn[o] = True
        if name in ('addAtom', 'addBond', 'delAtom', 'delBond') and o in enter_state and fix_in_txn.get(o):
            edit_after_any_fix[o] = True
        if name in ('addAtom', 'addBond', 'delAtom', 'delBond') and len(op) > 2 and op[-1] == 1:
            return None  # _skip_calculation is private API
        if name in ('calcLabels', 'flush', 'fixStructure') and False:
            return None
        exc, created = None, None
        n_before = len(objs)
        numbering_before = (list(objs[o]._atoms), [(n, m) for n, ms in objs[o]._bonds.items() for m in ms])
        try:
            created = apply_op(objs, op)
        except Exception as e:  # noqa
            exc = e
        oc = outcome_of(exc)
        flags.update(op, created, exc)
        # every operation that returns molecules returns NEW objects: never the source, never an object handed out before
        for k in range(n_before, len(objs)):
            origin[k] = (o, name)
            if exc is None:
                flags.returned(op, k)
            for j in range(k):
                if objs[k] is objs[j]:
                    return ('C13/not-independent/returned-object-is-source',
                            f'op {i} {op}: the returned molecule #{k - n_before} IS object {j} itself (no new object was made)')
        # renumbering: the documented result ("mapping of old numbers to the new"), stated without the model
        if name == 'remap' and exc is None:
            mp = dict(op[2])
            want_atoms = [mp.get(n, n) for n in numbering_before[0]]
            want_bonds = [(mp.get(n, n), mp.get(m, m)) for n, m in numbering_before[1]]
            got_atoms = list(objs[o]._atoms)
            got_bonds = [(n, m) for n, ms in objs[o]._bonds.items() for m in ms]
            if got_atoms != want_atoms or got_bonds != want_bonds:
                return ('C13/remap-differs-from-renumbering',
                        f'op {i} {op}: atoms {numbering_before[0]} renumbered by {mp} must be {want_atoms}, are {got_atoms}'
                        + ('' if got_bonds == want_bonds else f'; bonds must be {want_bonds[:6]}, are {got_bonds[:6]}'))
        if name == 'addAtom' and exc is None and op[3] >= 0 and list(objs[o]._atoms) != numbering_before[0] + [op[3]]:
            return ('C13/add_atom-number-ignored', f'op {i} {op}: atoms {numbering_before[0]} + atom {op[3]} are {list(objs[o]._atoms)}')
        if created is not None:
            origin[created] = (o, name)
            if name in ('copy', 'substructure') and exc is None and quiescent(objs[o]):
                d = created_differs(objs[o], op, objs[created])
                if d:
                    return (f'C13/{name}-differs-from-source', f'op {i} {op}: {d}')
        if name == 'split' and exc is None:
            d = split_differs(smi, ops[:i], objs, created)
            if d:
                return ('C13/split-differs-from-components', f'op {i} {op}: {d}')
        if exc is not None and (name == 'read' or name in BULK_OPS):
            return None  # a derived value / conversion that cannot be computed for this molecule: not a cache question
        if oc == 'crash:KeyError' and name in ('setCharge', 'setRadical', 'setXY'):
            return None  # atom does not exist
        if oc.startswith('crash:AttributeError:_'):
            how = origin.get(o)
            kind = how[1] if how else 'object'
            return (f'C13/not-editable/{kind}/{oc.split(":")[-1]}',
                    f'op {i} {op} on a {kind} result raises {oc} (slot never initialised)')
        if oc.startswith('crash'):
            if name in ('delAtom', 'delBond') and oc == 'crash:KeyError' and before[o][0] == observe(objs[o])['mol']:
                pass  # deleting something absent: KeyError with no state change is the documented dict behaviour
            else:
                return (f'C13/unusable/{name}/{oc.split(":")[1]}', f'op {i} {op} raises {oc} on a molecule reached through the public API')
        # independence of other objects
        for j, x in enumerate(objs[:len(before)]):
            if j == o or (name == 'union' and False):
                continue
            now = (observe(x)['mol'], observe(x)['xy'], observe(x)['meta'], keys_of(x))
            if now != before[j]:
                field = ['atoms/bonds', 'coordinates', 'meta', 'cache keys'][[a != b for a, b in zip(now, before[j])].index(True)]
                return (f'C13/not-independent/{field}', f'op {i} {op} on object {o} changed {field} of object {j}')
        if not all(symmetric(x) for x in objs):
            return (f'C13/asymmetric-adjacency/{name}', f'after op {i} {op} the adjacency is not symmetric')
        d = shared_state(objs)
        if d:
            return (f'C13/shared-mutable-state/{d.split(" shared")[0].replace(" ", "-")}', f'after op {i} {op}: {d}')
        if exc is None and name != 'exitExc':
            ref_state = txn_stereo.pop(o, None) if name == 'exitOk' else st_before
            # only for stereo-settled objects: hydrogens rule-based (not copied by substructure(recalculate_hydrogens=False),
            # not after bulk edits) and no order-8 bond added since the last fix_stereo (add_bond(.., 8) skips it by design)
            settled = o not in flags.h_copied and o not in stereo_unsettled
            if name == 'addBond' and op[4] == 8:
                stereo_unsettled.add(o)
            elif name in ('addBond', 'delBond', 'delAtom', 'exitOk', 'fixStereo') and o not in enter_state:
                stereo_unsettled.discard(o)
            if created is not None and o in stereo_unsettled:
                stereo_unsettled.add(created)
            if ref_state is not None and touched is not None and name != 'remap' and settled:
                d = stereo_lost(ref_state, objs[o], touched)
                if d:
                    return (f'C13/stereo-label-lost/{name}', f'op {i} {op} does not touch that part of the molecule, but {d}')
            if created is not None and name == 'copy' and st_before is not None and settled:
                d = stereo_lost(st_before, objs[created], set())
                if d:
                    return ('C13/stereo-label-lost/copy', f'op {i} {op}: in the copy {d}')
        if name == 'exitExc':
            txn_touched.pop(o, None)
            txn_stereo.pop(o, None)
        # after an operation that must re-validate stereo, the labels are exactly those that survive a validation of an
        # independently rebuilt molecule (same atoms, bonds, neighbour order, labels carried over): no label is left on an
        # atom / bond that stopped being stereogenic, whatever the operation decided about running the validation
        if exc is None and name in REVALIDATING_OPS and not (name == 'addBond' and op[4] == 8):
            tgt_i = created if (name == 'substructure' and created is not None) else o
            t = objs[tgt_i]
            if quiescent(t) and symmetric(t) and tgt_i not in stereo_unsettled and tgt_i not in flags.h_copied:
                am, bm = stereo_marks(t)
                if am or bm:
                    try:
                        ref = rebuild_exact(t)
                        ref.fix_stereo()
                        want = stereo_marks(ref)
                    except Exception:
                        want = None
                    if want is not None and want != (am, bm):
                        return (f'C13/stale-stereo-label/{name}',
                                f'after op {i} {op}: stereo labels {(am, bm)} but validating an independently rebuilt molecule leaves {want}')
        if name == 'exitExc' and exc is None and o in enter_state:
            w0, ob0 = enter_state.pop(o)
            ob1 = observe(objs[o])
            if wire.mol_to_line(objs[o]) != w0 or any(ob0[f] != ob1[f] for f in ('name', 'meta', 'xy')):
                return ('C13/abort-not-restored/molecule', f'aborted transaction left a different molecule: {w0} -> {wire.mol_to_line(objs[o])}')
            if ob1['changed'] != ob0['changed'] or ob1['backup'] != 'none':
                return ('C13/abort-not-restored/pending-state',
                        f'aborted transaction left _changed={ob1["changed"]} (was {ob0["changed"]}), _backup={ob1["backup"]}')
        if name == 'exitOk':
            enter_state.pop(o, None)
        for j, x in enumerate(objs):
            if not quiescent(x):
                continue
            st = flags.filter(j, staleness(x))
            if st is None:
                continue
            stale, lab, hst, _ = st
            ctxs = name
            if name == 'exitOk' and j == o and attr_in_txn.get(o) and edit_in_txn.get(o):
                # mechanism: a public fix_structure() between the attribute write and a later edit resets the pending set
                # and recomputes the hydrogens for the intermediate attribute value; the exit only compares with the snapshot
                ctxs = ('attr-write+public-fix_structure+edit-in-txn' if edit_after_fix.get(o) else
                        'public-fix_structure+attr-write+edit-in-txn' if edit_after_any_fix.get(o) else 'attr-write+edit-in-txn')
            if stale:
                return (f'C13/stale-cache/{ctxs}', f'after op {i} {op}: memoised {stale[:3]} of object {j} differ from a rebuilt molecule')
            if lab:
                return (f'C13/stale-labels/{ctxs}', f'after op {i} {op}: ring/neighbour labels of object {j} differ from a rebuilt molecule')
            if hst:
                return (f'C13/stale-hydrogens/{ctxs}', f'after op {i} {op}: hydrogen counts of atoms {hst[:4]} of object {j} differ from a rebuilt molecule')
        if exc is not None:
            return None
    return None


def shrink(smi, ops, sig):
    ops = list(ops)
    i = 0
    while i < len(ops):
        cand = ops[:i] + ops[i + 1:]
        try:
            r = oracle(smi, cand)
        except Exception:
            r = None
        if r and r[0] == sig:
            ops = cand
        else:
            i += 1
    return ops


def search(ctx):
    """property-level search: suspects from the correspondence first, then the finding traces, then fresh random histories."""
    budget = 60 if ctx.quick else 420
    t0 = time.time()
    found = {}

    def try_case(smi, ops):
        try:
            r = oracle(smi, ops)
        except Exception:
            return
        if r and r[0] not in found:
            small = shrink(smi, ops, r[0])
            r2 = oracle(smi, small) or r
            found[r2[0]] = True
            ctx.fail(r2[0], r2[1], {'seed': smi, 'ops': small})

    for s in _state.get('suspects', [])[:200]:
        try_case(s['seed'], s['ops'])
    for t in FINDING_TRACES:
        try_case(t['seed'], t['ops'])
    for smi in ALPHABET_SEEDS:
        alpha = alphabet(fresh_seed(smi))
        for L in (1, 2, 3):
            for seq in itertools.product(alpha, repeat=L):
                if time.time() - t0 > budget * 0.6:
                    break
                if admissible(seq):
                    try_case(smi, interleave_reads(list(seq), CORE_READS))
    pool = [s for s, m in molgen.handmade() if h_consistent(m)]
    for smi in STEREO_SEEDS + DEPENDENT_STEREO_SEEDS:     # created objects against independently built fragments (configuration included)
        try:
            m0 = fresh_seed(smi)
        except Exception:
            continue
        ids = list(m0._atoms)
        cases = [[['copy', 0, 0, 0]], [['copy', 0, 1, 1]], [['split', 0]], [['substructure', 0, 1, ids]], [['substructure', 0, 0, ids]]]
        for comp in m0.connected_components:
            cases += [[['substructure', 0, 0, sorted(comp)]], [['substructure', 0, 1, sorted(comp)]]]
        for _ in range(12):
            cases.append([['substructure', 0, ctx.rng.randint(0, 1), sorted(ctx.rng.sample(ids, ctx.rng.randint(2, len(ids))))]])
        for ops in cases:
            try_case(smi, ops)
            try_case(smi, [['read', 0, '__cached_method___str__']] + ops + [['read', len(ops), '__cached_method___str__']])
    for smi in ARM_SEEDS:
        for h in one_step_edit_histories(smi):
            try_case(smi, h)
    for smi in CONSTRUCTOR_SEEDS:
        for h in constructor_histories(smi):
            try_case(smi, h)
    for smi in NUMBERING_SEEDS:
        for h in numbering_histories(smi):
            try_case(smi, h)
    for smi in ALPHABET_SEEDS + STEREO_SEEDS[:4] + ANY_SEEDS:
        for h in rollback_histories(smi) + neutral_histories(smi):
            if time.time() - t0 > budget * 0.8:
                break
            try_case(smi, h)
    bulk_seeds = ['c1ccccc1O', 'c1ccncc1C', 'C1=CC=CC=C1N', 'CC(=O)[O-].[NH4+]', 'c1ccc2ccccc2c1', '[13CH3]C(=O)O[Na]',
                  'C[N+](=O)[O-]', 'OC1CC1[Mg]Cl', '[H]C([H])([H])O', 'C[n+]1ccccc1.[Cl-]'] + ANY_SEEDS
    for smi in bulk_seeds:       # bulk edits (most keep ring / component caches): read-bulk-read, also on copies
        for bulk in BULK_OPS:
            for pre in ([], [['copy', 0, 1, 1]]):
                o = 1 if pre else 0
                try_case(smi, pre + [['read', o, k] for k in CORE_READS + ['aromatic_rings', 'int_adjacency', 'not_special_connectivity',
                                                                           'atoms_rings_sizes', 'rings_count', 'brutto']] + [[bulk, o]])
    while time.time() - t0 < budget:
        smi = ctx.rng.choice(pool + bulk_seeds + STEREO_SEEDS + DEPENDENT_STEREO_SEEDS + ANY_SEEDS)
        ops = gen_sequence(ctx.rng, fresh_seed(smi), ctx.rng.randint(3, 25), allow_skip=False)
        for _ in range(ctx.rng.randint(0, 2)):   # splice bulk edits into the history
            ops.insert(ctx.rng.randint(0, len(ops)), [ctx.rng.choice(BULK_OPS), 0])
        try_case(smi, ops)
    ctx.notes.append(f'search: {len(found)} failing signatures in {time.time() - t0:.0f}s')


def probe(inp):
    if inp.get('check') == 'reaction_copy_independent':
        d = reaction_copy_independent()
        return bool(d), d or 'ReactionContainer.copy is independent of its source (metadata, name, molecules)'
    r = oracle(inp['seed'], [list(o) if not isinstance(o, list) else o for o in _fix_ops(inp['ops'])])
    if r:
        return True, f'{r[0]}: {r[1]}'
    return False, 'every memoised value, label and hydrogen count equals the rebuilt molecule; aborts restore; copies independent and editable'


def _fix_ops(ops):
    out = []
    for op in ops:
        op = list(op)
        if op[0] == 'remap':
            op[2] = [tuple(p) for p in op[2]]
        out.append(op)
    return out


# traces of the defects probed in DESIGN §7 (kept as regression corpus; run through model-vs-real and through the oracle)
FINDING_TRACES = [
    {'seed': 'C1CCCCC1', 'ops': [['read', 0, '__cached_method___str__'], ['read', 0, 'sssr'], ['delBond', 0, 1, 2, 0]]},
    {'seed': 'C1CCCCC1', 'ops': [['read', 0, '__cached_method___str__'], ['delAtom', 0, 1, 0]]},
    {'seed': 'CCO', 'ops': [['read', 0, '__cached_method___str__'], ['enter', 0], ['setCharge', 0, 2, 1], ['exitOk', 0]]},
    {'seed': 'CCO', 'ops': [['copy', 0, 0, 0], ['addAtom', 1, 6, -1, 0]]},
    {'seed': 'CCO', 'ops': [['copy', 0, 0, 0], ['union', 0, 1, 1, 1], ['addBond', 2, 1, 4, 1, 0]]},
    {'seed': 'CCO', 'ops': [['substructure', 0, 1, [1, 2]], ['addAtom', 1, 6, -1, 0]]},
    {'seed': 'CCO', 'ops': [['copy', 0, 0, 0], ['setXY', 1, 1, 5, 3]]},
    {'seed': 'CCO', 'ops': [['enter', 0], ['addAtom', 0, 6, 10, 0], ['exitExc', 0], ['delBond', 0, 1, 2, 0]]},
    {'seed': 'CCO.CC', 'ops': [['enter', 0], ['setCharge', 0, 3, -1], ['addBond', 0, 4, 1, 1, 0], ['exitOk', 0]]},
    {'seed': 'C1CC1C1CC1', 'ops': [['enter', 0], ['setRadical', 0, 6, 1], ['fixStructure', 0, 1], ['setRadical', 0, 6, 0],
                                   ['addBond', 0, 5, 1, 1, 0], ['exitOk', 0]]},
    {'seed': 'CCO.CC', 'ops': [['enter', 0], ['addAtom', 0, 7, -1, 0], ['fixStructure', 0, 1], ['setCharge', 0, 6, 1],
                               ['addBond', 0, 4, 1, 1, 0], ['exitOk', 0]]},
    {'seed': 'C[Mg]Br', 'ops': [['addBond', 0, 1, 3, 8, 0], ['copy', 0, 0, 0]]},
    {'seed': 'C[Mg]Br', 'ops': [['addBond', 0, 1, 3, 8, 0], ['enter', 0]]},
    {'seed': 'CCO', 'ops': [['enter', 0], ['addAtom', 0, 6, 10, 0], ['delAtom', 0, 10, 0], ['exitOk', 0], ['addAtom', 0, 7, -1, 0],
                            ['read', 0, '__cached_method___str__']]},
    {'seed': 'CCO', 'ops': [['enter', 0], ['addBond', 0, 1, 3, 1, 0], ['delAtom', 0, 3, 0], ['exitOk', 0]]},
    {'seed': 'N[C@H](C)C(=O)O', 'ops': [['addBond', 0, 6, 2, 1, 0], ['substructure', 0, 0, [2, 3, 5]], ['union', 0, 1, 1, 1],
                                         ['delAtom', 2, 4, 0], ['fixStructure', 2, 1]]},
]
