"""C18 — periodic table data complete and mutually consistent (proof; finite, enumerated completely).

Tie: G for the data (the Lean model *is* the regenerated table) + K for the behaviour: `Model/C18Atom.lean` (lookups, one live atom
object with its setters / atomic_mass / copy / valence_rules, the matcher words of a state) is executed by `drv_c18` against the
real objects (requests SYM, NUM, HIST, BITS).  The correspondence step also exercises the public API (`from_symbol`,
`from_atomic_number`, `atomic_mass`, isotope setter, `valence_rules`, Query*/Dynamic* classes, pack/unpack, both matchers) on every
element x isotope x charge x radical and on object histories (c18_state.py) with property-level oracles that never consult the
Lean model; a false predicate there *is* a failing input (element, state | history, predicate).
"""
from ..core import LEAN
from ..gen import gen_periodic
from . import c18_state

LEVEL = 'proof'
LEVEL_TEXT = ('Every data clause is a universally quantified theorem over the complete finite domain (118 elements x all tabulated '
              'isotopes x charges -4..4 x radical flag x H 0..6/unknown), proved by kernel evaluation over tables regenerated from /repo '
              'on every run. The behavioural clauses (lookups, isotope / charge / radical setters, atomic_mass over any history of one '
              'atom object, the matcher words of every state) are theorems by induction / case analysis about an executable Lean model '
              'that drv_c18 runs against the real objects on every check; the public API is additionally exercised exhaustively on the '
              'live classes (state grid through both matchers and the pack codec, object histories). Proof is the right level because the '
              'domain is finite and the model is the data plus a three-field state machine.')
LEVEL_NOTE = ('Lean kernel; gen_periodic translator (evaluates the property bodies of the Element subclasses and parses the two '
              '.pyx literal tables); gen_bitlayout (C09\'s extractor of the matcher layout literals); Spec/Iupac.lean written by hand; '
              'floats compared as micro-units, atomic_mass against the exact rational with tolerance 1e-11 u.')
TECHNIQUE = 'Lean 4 decide +kernel theorems over regenerated tables + inductive theorems over an executable atom-object / matcher-state model tied by a driver + exhaustive API correspondence'
HAS_DRIVER = True
EXTRA_MODULES = ['Model.C18Atom', 'Proofs.C18History', 'Proofs.C18Matcher']
FINDINGS_MODULE = 'ChythonModel.Findings.C18'
RULE = ('exhaustive: every Element subclass x every tabulated isotope | none x charge -4..4 x radical flag (hydrogens rotating) as a '
        'one-atom molecule against its own and every one-field-different query atom through both matchers and through pack/unpack; '
        'every predicate of Props/C18.lean re-evaluated on the live classes; object histories = the five exhaustive walks per element '
        '(isotope table up / down / star, charge x radical grid, rejected values) + seeded random histories, each step judged against '
        'the tables and a fresh object and (HIST) against the Lean state machine; a case is non-trivial when it evaluates a predicate '
        'on a concrete (element, state | history) pair; distinct by (predicate, symbol, value)')
TRUSTED = ['gen_periodic translator (imports chython.periodictable from /repo, parses the two .pyx literal tables)',
           'gen_bitlayout translator (literals of _cython_compiled_structure / _cython_compiled_query)',
           'Spec/Iupac.lean (118 symbols written by hand from the standard table)']
ASSUMPTIONS = ['property bodies of Element subclasses do not depend on instance state (evaluated with self=None)',
               'tabulated float literals have at most 6 decimals (emitted as micro-units)',
               'the matcher theorems fix hybridization 1 / no rings (one-atom molecule)']

_state = {}


def generate(ctx):
    path, rows, pack_iso, unpack_iso, unpack_elems = gen_periodic.generate()
    _state.update(rows=rows, pack_iso=pack_iso, unpack_iso=unpack_iso, unpack_elems=unpack_elems)
    paths = [path]
    # the matcher clause is stated over C09's executable layout model: its constants are re-extracted from isomorphism.py here too
    # (a changed statement skeleton leaves the last constants in place; the BITS correspondence then decides)
    from ..gen import gen_bitlayout, gen_query
    try:
        paths.append(gen_query.generate())   # element flags used by C08's `notMetal` (imported by the layout model)
    except Exception as e:
        _state['gen_query_error'] = f'{type(e).__name__}: {e}'
    p, info = gen_bitlayout.generate()
    _state['layout'] = info
    paths.append(p)
    return paths


def predicates(sym):
    """Evaluate every clause of the property on the live class `sym`; yields (predicate, detail, ok)."""
    from chython.periodictable import Element, QueryElement, DynamicElement
    import chython.periodictable as pt
    from ..gen.gen_periodic import pyx_int_table, pyx_name_table
    from ..core import REPO
    cls = next((c for c in Element.__subclasses__() if c.__name__ == sym), None)
    if cls is None:
        yield ('element-exists', sym, False)
        return
    z = cls.atomic_number.fget(None)
    try:
        yield ('symbol-number-inverse', sym, Element.from_symbol(sym) is cls and Element.from_atomic_number(z) is cls
               and Element.from_atomic_number(z).__name__ == sym)
    except Exception as e:
        yield ('symbol-number-inverse', f'{sym}:{type(e).__name__}', False)
    dist = cls.isotopes_distribution.fget(None)
    mass = cls.isotopes_masses.fget(None)
    mdl = cls.mdl_isotope.fget(None)
    yield ('isotope-keys-equal', sym, set(dist) == set(mass))
    yield ('mdl-in-distribution', sym, mdl in dist)
    cont = REPO / 'chython' / 'containers'
    pack_iso = pyx_int_table(cont / '_pack_v2.pyx', 'common_isotopes')
    unpack_iso = pyx_int_table(cont / '_unpack_v0v2.pyx', 'common_isotopes')
    unpack_elems = pyx_name_table(cont / '_unpack_v0v2.pyx', 'elements')
    yield ('pack-tables-consistent', sym, pack_iso[z] == unpack_iso[z] == mdl - 16 and unpack_elems[z] == sym)
    # natural-abundance mass and every settable isotope
    try:
        a = cls()
        m = a.atomic_mass
        yield ('mass-computable', sym, isinstance(m, float))
    except Exception as e:
        yield ('mass-computable', f'{sym}:natural:{type(e).__name__}', False)
    for iso in dist:
        try:
            a = cls(iso)
            ok = isinstance(a.atomic_mass, float)
        except Exception as e:
            ok = False
        yield ('mass-computable', f'{sym}:{iso}', ok)
        yield ('pack-isotope-representable', f'{sym}:{iso}', 1 <= iso - pack_iso[z] <= 31)
        yield ('matcher-isotope-representable', f'{sym}:{iso}', -8 <= iso - mdl <= 8)
    for c in range(-4, 5):
        for r in (False, True):
            try:
                a = cls(charge=c, is_radical=r)
                ok = a.charge == c and a.is_radical is r
            except Exception:
                ok = False
            yield ('charge-radical-settable', f'{sym}:{c}:{r}', ok)
    try:
        rules = cls()._compiled_valence_rules
        from collections.abc import Mapping
        ok = isinstance(rules, Mapping) and len(cls()._compiled_charge_radical) >= 0
    except Exception as e:
        ok = False
    yield ('valence-tables-compile', sym, ok)
    q = getattr(pt, 'Query' + sym, None)
    d = getattr(pt, 'Dynamic' + sym, None)
    yield ('variants-exist', sym, q is not None and d is not None and issubclass(q, QueryElement)
           and issubclass(d, DynamicElement) and _val(q.atomic_number) == z and _val(d.atomic_number) == z
           and _val(q.mdl_isotope) == mdl)


def _val(x):
    return x if isinstance(x, int) else x.fget(None)


def sig(pred, detail):
    # one signature per (predicate, element); isotope numbers are detail, not identity
    return f'C18/{pred}/{detail.split(":")[0]}'


def iupac():
    import re
    from ..core import module_path
    return [(int(z), s) for z, s in re.findall(r'\((\d+), "(\w+)"\)', module_path('ChythonModel.Spec.Iupac').read_text())]


def lookup_predicates(z, sym):
    """public lookups for one row of the STANDARD table (independent of how the library registers its classes)."""
    from chython.periodictable import Element
    try:
        c = Element.from_symbol(sym)
        ok = c.__name__ == sym and c().atomic_number == z
    except Exception as e:
        ok = False
    yield ('from-symbol', sym, ok)
    try:
        c = Element.from_atomic_number(z)
        ok = c.__name__ == sym and c().atomic_number == z
    except Exception as e:
        ok = False
    yield ('from-atomic-number', sym, ok)
    try:
        from chython import smiles
        m = smiles(f'[{sym}]')
        ok = m.atom(1).atomic_number == z and m.atom(1).atomic_symbol == sym
    except Exception:
        ok = False
    yield ('smiles-bracket-atom', sym, ok)


def variant_predicates(z, sym):
    """Query*/Dynamic* variants reachable by symbol and number, reporting the right symbol and number."""
    from chython.periodictable import DynamicElement, QueryElement, Element
    for base, name in ((DynamicElement, 'dynamic'), (QueryElement, 'query')):
        try:
            c = base.from_symbol(sym)
            ok = c.from_atomic_number(z) is c
            if name == 'dynamic':
                inst = DynamicElement.from_atom(Element.from_symbol(sym)())
            else:
                inst = c()
            ok = ok and inst.atomic_symbol == sym and inst.atomic_number == z
        except Exception:
            ok = False
        yield (f'{name}-variant-lookup', sym, ok)


_EXT = {}


def _ext():
    if not _EXT:
        from ..gen import pyx2py
        pyx2py.install()
        _EXT['ok'] = True
    return True


def pack_matcher_predicates(sym):
    """Every tabulated isotope through the REAL pack -> unpack and through both REAL matchers (translated .pyx)."""
    from chython import MoleculeContainer, QueryContainer
    from chython.periodictable import Element, QueryElement
    _ext()
    cls = Element.from_symbol(sym)
    qcls = QueryElement.from_symbol(sym)
    dist = cls.isotopes_distribution.fget(None)
    for iso in list(dist) + [None]:
        m = MoleculeContainer()
        m.add_atom(cls(iso), 1, _skip_calculation=True)
        m.calc_labels()
        m._atoms[1]._implicit_hydrogens = 0
        try:
            u = MoleculeContainer.unpack(m.pack())
            ok = u.atom(1).isotope == iso and u.atom(1).atomic_number == cls.atomic_number.fget(None)
        except Exception:
            ok = False
        yield ('pack-roundtrip-isotope', f'{sym}:{iso}', ok)
        # matcher: a query without isotope finds the labelled atom; the same isotope finds it; another does not
        for qiso, expect in [(None, True), (iso, True)] + [(j, j == iso) for j in list(dist)[:2] if iso is not None]:
            q = QueryContainer(f'[{qiso or ""}{sym}]')
            q.add_atom(qcls(qiso) if qiso else qcls(), 1)
            try:
                acc = len(list(q.get_mapping(m))) > 0
                ref = len(list(q.get_mapping(m, _cython=False))) > 0
                ok = acc == ref == expect
            except Exception:
                ok = False
            yield ('matcher-finds-isotope', f'{sym}:{iso}:query={qiso}', ok)


def field_grid_predicates():
    """charge -4..4 x hydrogens 0..4 through the query API and through both REAL matchers (carbon as carrier):
    a query with charge c and no hydrogen constraint must find exactly the atoms with charge c, whatever their H count;
    with an explicit hydrogen constraint exactly those with that count."""
    from chython import MoleculeContainer, QueryContainer
    from chython.periodictable import Element, QueryElement, AnyElement, ListElement
    _ext()
    C = Element.from_symbol('C')
    QC = QueryElement.from_symbol('C')
    for c in range(-4, 5):
        for name, make in (('QueryElement', lambda: QC(charge=c)), ('AnyElement', lambda: AnyElement(charge=c)),
                           ('ListElement', lambda: ListElement(['C', 'N'], charge=c))):
            try:
                q = make()
                ok = q.charge == c
            except Exception:
                ok = False
            yield ('query-charge-settable', f'{name}:{c}', ok)
        for h in range(0, 5):
            m = MoleculeContainer()
            m.add_atom(C(charge=c), 1, _skip_calculation=True)
            m.calc_labels()
            m._atoms[1]._implicit_hydrogens = h
            for qc, qh in ((c, None), (c, h), (c, (h + 1) % 5), (-c if c else 1, None)):
                q = QueryContainer(f'[C;charge={qc};h={qh}]')
                try:
                    q.add_atom(QC(charge=qc) if qh is None else QC(charge=qc, implicit_hydrogens=qh), 1)
                    expect = qc == c and (qh is None or qh == h)
                    acc = len(list(q.get_mapping(m))) > 0
                    ref = len(list(q.get_mapping(m, _cython=False))) > 0
                    ok = acc == ref == expect
                except Exception:
                    ok = False
                yield ('matcher-charge-hydrogen-grid', f'C:charge={c}:h={h}:query=({qc},{qh})', ok)

QUERY_WILDCARDS = {'A': 'AnyElement', 'M': 'AnyMetal'}  # documented query wildcards, not elements: the only non-table symbols any lookup may accept


def outside_table_predicates():
    """A lookup agrees with the standard table also where the table has NO entry: numbers <= 0 and > 118, one/two letter strings that are
    not symbols, wrong-case symbols and the generated class names must be rejected (ValueError) by Element, QueryElement and
    DynamicElement alike, and QueryContainer.add_atom / smarts must not invent an element for them."""
    import string
    from chython.periodictable import DynamicElement, QueryElement, Element
    std = {s for _, s in iupac()}
    nums = list(range(-260, 1)) + list(range(119, 400))
    U, L = string.ascii_uppercase, string.ascii_lowercase
    syms = [a for a in U] + [a + b for a in U for b in L] + [s.lower() for s in std] + [s.upper() for s in std if len(s) == 2] + \
           ['D', 'T', '', '*', 'Uue', 'Uup', 'Element', 'Core'] + ['Query' + s for s in ('C', 'H', 'Og')] + ['Dynamic' + s for s in ('C', 'H', 'Og')]
    for base in (Element, QueryElement, DynamicElement):
        for n in nums:
            try:
                r = base.from_atomic_number(n)
                ok, got = False, getattr(r, '__name__', repr(r))
            except ValueError:
                ok, got = True, None
            except Exception as e:
                ok, got = False, 'raises ' + type(e).__name__
            yield ('number-outside-table-rejected', f'{base.__name__}:{n}' + ('' if ok else f':got={got}'), ok)
        for s in dict.fromkeys(syms):
            if s in std:
                continue
            try:
                r = base.from_symbol(s)
                got = getattr(r, '__name__', repr(r))
                ok = base is QueryElement and QUERY_WILDCARDS.get(s) == got
            except ValueError:
                ok, got = True, None
            except Exception as e:
                ok, got = False, 'raises ' + type(e).__name__
            yield ('symbol-outside-table-rejected', f'{base.__name__}:{s!r}' + ('' if ok else f':got={got}'), ok)
    from chython import QueryContainer, MoleculeContainer
    for n in (0, -1, -2, -117, 119, 255):
        for cont in (QueryContainer, MoleculeContainer):
            try:
                c = cont()
                c.add_atom(n)
                ok = False
            except (ValueError, TypeError, KeyError, IndexError):
                ok = True
            except Exception:
                ok = True
            yield ('add-atom-number-outside-table-rejected', f'{cont.__name__}:{n}', ok)


def lookup_strings():
    import string
    std = [s for _, s in iupac()]
    U, L = string.ascii_uppercase, string.ascii_lowercase
    return list(dict.fromkeys(std + [a for a in U] + [a + b for a in U for b in L] + [s.lower() for s in std] + [s.upper() for s in std] +
                              ['D', 'T', '', '*', 'Uue', 'Uup', 'Element', 'Core', 'QueryC', 'DynamicC', 'A', 'M']))


def model_correspondence(ctx, bits):
    """executable Lean model (Drivers/C18.lean) against the real code: lookups on the whole probe domain, atom-object histories,
    and the third matcher word of every grid state with the outcome of both acceptance tests."""
    from chython.periodictable import Element
    from ..core import run_driver

    def look(f, v):
        try:
            c = f(v)
            return f'{c.__name__} {c.atomic_number.fget(None)}'
        except ValueError:
            return 'none'
        except Exception as e:
            return 'raises ' + type(e).__name__
    reqs, real, keys = [], [], []
    for n in range(-260, 400):
        reqs.append(f'NUM {n}')
        real.append(look(Element.from_atomic_number, n))
        keys.append(('model-lookup', f'from_atomic_number({n})'))
    for s in lookup_strings():
        reqs.append(f'SYM {s}'.rstrip())
        real.append(look(Element.from_symbol, s))
        keys.append(('model-lookup', f'from_symbol({s!r})'))
    for z, sym in iupac():
        try:
            cls = Element.from_symbol(sym)
            for name, ops in c18_state.model_histories(cls, ctx.rng, 4 if ctx.quick else 40, 18):
                reqs.append(c18_state.hist_request(sym, ops))
                real.append(c18_state.hist_real(cls, ops))
                keys.append(('model-history', f'{sym}:{ops!r}'))
        except Exception as e:
            ctx.dist('model-history-skipped:' + type(e).__name__)
    for key, req, rl in bits:
        reqs.append(req)
        real.append(rl)
        keys.append(('model-matcher-word3', key))
    got = run_driver('C18', reqs)
    if len(got) != len(reqs):
        ctx.broke('correspondence', 'driver', f'{len(got)} responses for {len(reqs)} requests')
        return
    ctx.cov['programs'] += 3  # _cython_compiled_structure, _cython_compiled_query (words read back), Element.copy
    reported = set()
    for (pred, key), req, rl, g in zip(keys, reqs, real, got):
        ctx.count((pred, key))
        ctx.dist(pred)
        ok = c18_state.hist_agree(rl, g) if isinstance(rl, list) else rl == g
        if not ok:
            ctx.cov['disagreements_checked'] += 1
        if not ok and pred not in reported:
            reported.add(pred)
            ctx.broke('correspondence', pred, f'{key}: request {req!r}: model {g!r}, real {rl!r}')


def correspond(ctx):
    """Exhaustive evaluation on the live classes. A false predicate *is* a failing input for the property."""
    from chython.periodictable import Element
    ctx.cov['programs'] = 21  # isotope/charge/is_radical setters + Element.copy + QueryElement/DynamicElement.from_atom + molecular_mass over histories; DynamicElement/QueryElement.from_symbol/from_atomic_number/from_atom, MoleculeContainer.pack/unpack, get_mapping (accelerated + reference), from_symbol, from_atomic_number, smiles('[X]'), atomic_mass, isotope setter, charge/radical setters, _compiled_valence_rules, Query*, Dynamic*, pyx tables
    for z, sym in iupac():
        for pred, detail, ok in lookup_predicates(z, sym):
            ctx.count((pred, detail))
            ctx.dist(pred)
            if not ok:
                ctx.fail(sig(pred, detail), f'{pred} fails for {detail} (Z={z})', {'predicate': pred, 'symbol': sym, 'z': z, 'detail': detail})
        for pred, detail, ok in variant_predicates(z, sym):
            ctx.count((pred, detail))
            ctx.dist(pred)
            if not ok:
                ctx.fail(sig(pred, detail), f'{pred} fails for {detail} (Z={z})', {'predicate': pred, 'symbol': sym, 'z': z, 'detail': detail})
        try:
            for pred, detail, ok in pack_matcher_predicates(sym):
                ctx.count((pred, detail))
                ctx.dist(pred)
                if not ok:
                    ctx.fail(sig(pred, detail), f'{pred} fails for {detail}', {'predicate': pred, 'symbol': sym, 'z': z, 'detail': detail})
        except Exception as e:  # the element itself is unreachable: already reported by the lookup predicates
            ctx.dist('pack-matcher-skipped:' + type(e).__name__)
    # round 5: the property's quantifier taken literally (isotope x charge x radical of every element through both matchers) and
    # object histories (labelled / asked in any order) — see c18_state.py
    bits = []
    for z, sym in iupac():
        try:
            for x in c18_state.state_grid_cases(sym, pack_all_h=not ctx.quick):
                pred = c18_state.grid_pred(x)
                key, detail, ok = c18_state.grid_detail(x)
                ctx.count((pred, key))
                ctx.dist(pred)
                if x['qstate'] is not None:
                    bits.append((key, c18_state.bits_request(x), c18_state.bits_real(x)))
                if not ok:
                    ctx.fail(f'C18/{pred}/{sym}', f'{pred} fails for {detail}', {'predicate': pred, 'symbol': sym, 'detail': key})
            for pred, detail, ok, ops, n in c18_state.history_predicates(sym, ctx.rng):
                ctx.count((pred, detail if ok else sym + repr(ops)), n=n)
                ctx.dist(pred)
                ctx.dist('history-steps', n)
                if not ok:
                    ctx.fail(f'C18/{pred}/{sym}', f'{pred} fails for {detail}', {'predicate': pred, 'symbol': sym, 'ops': ops, 'detail': detail})
        except Exception as e:  # the element itself is unreachable: already reported by the lookup predicates
            ctx.dist('state-history-skipped:' + type(e).__name__)
    if ctx.build_ok:
        model_correspondence(ctx, bits)
    for pred, detail, ok in field_grid_predicates():
        ctx.count((pred, detail))
        ctx.dist(pred)
        if not ok:
            ctx.fail(f'C18/{pred}/{detail.split(":query")[0]}', f'{pred} fails for {detail}', {'predicate': pred, 'symbol': 'C', 'detail': detail})
    for pred, detail, ok in outside_table_predicates():
        ctx.count((pred, detail))
        ctx.dist(pred)
        if not ok:
            ctx.fail(f'C18/{pred}/{detail.split(":got=")[0]}', f'{pred} fails for {detail}: there is no such entry in the standard table',
                     {'predicate': pred, 'symbol': None, 'detail': detail.split(':got=')[0]})
    std = dict(iupac())
    syms = []
    for c in Element.__subclasses__():
        try:
            z = c.atomic_number.fget(None)
        except Exception:
            z = None
        if not isinstance(z, int):
            continue  # helper base class, not an element; the lookups above decide whether its children are reachable
        syms.append(c.__name__)
        if std.get(z) != c.__name__:
            ctx.fail(f'C18/agrees-with-standard/{c.__name__}', f'Z={z} is {std.get(z)} in the standard table, {c.__name__} here',
                     {'predicate': 'agrees-with-standard', 'symbol': c.__name__})
    for sym in syms:
        for pred, detail, ok in predicates(sym):
            ctx.count((pred, detail))
            ctx.dist(pred)
            if len(ctx.cov['samples']) < 6 and pred in ('mass-computable', 'pack-isotope-representable') and ':' in detail:
                ctx.sample({'predicate': pred, 'case': detail, 'holds': ok})
            if not ok:
                ctx.fail(sig(pred, detail), f'{pred} fails for {detail}', {'predicate': pred, 'symbol': sym, 'detail': detail})
    ctx.exhaustive = True


def search(ctx):
    # the correspondence step already enumerates the whole finite domain on the live classes
    return


def probe(inp):
    if inp['predicate'] in ('from-symbol', 'from-atomic-number', 'smiles-bracket-atom'):
        z = inp.get('z') or dict((s, z) for z, s in iupac())[inp['symbol']]
        bad = [(p, d) for p, d, ok in lookup_predicates(z, inp['symbol']) if not ok and p == inp['predicate']]
        return bool(bad), f'{inp["predicate"]}({inp["symbol"]}, Z={z}) ' + ('fails' if bad else 'holds')
    if inp['predicate'] in ('dynamic-variant-lookup', 'query-variant-lookup'):
        z = inp.get('z') or dict((s, z) for z, s in iupac())[inp['symbol']]
        bad = [(p, d) for p, d, ok in variant_predicates(z, inp['symbol']) if not ok and p == inp['predicate']]
        return bool(bad), f'{inp["predicate"]}({inp["symbol"]}) ' + ('fails' if bad else 'holds')
    if inp['predicate'] in ('pack-roundtrip-isotope', 'matcher-finds-isotope'):
        bad = [(p, d) for p, d, ok in pack_matcher_predicates(inp['symbol']) if not ok and p == inp['predicate']]
        return bool(bad), f'{inp["predicate"]} on {inp["symbol"]}: failing cases {bad}' if bad else f'{inp["predicate"]} holds for {inp["symbol"]}'
    if inp['predicate'] in ('matcher-state-grid', 'pack-state-grid'):
        bad = [d for p, d, ok in c18_state.state_grid_predicates(inp['symbol']) if not ok and p == inp['predicate']]
        return bool(bad), f'{inp["predicate"]} on {inp["symbol"]}: {len(bad)} failing cases, e.g. {bad[:4]}' if bad else f'{inp["predicate"]} holds for {inp["symbol"]}'
    if inp['predicate'].startswith('history-'):
        from chython.periodictable import Element
        import random
        if inp.get('ops'):
            bad, _ = c18_state.run_history(Element.from_symbol(inp['symbol']), inp['ops'])
            return bad is not None, f'{inp["predicate"]} on {inp["symbol"]}: history {inp["ops"]}: ' + (f'step {bad[0]} {bad[1]}: got {bad[2]!r}, want {bad[3]!r}' if bad else 'every observable agrees with the tables and with a fresh object')
        bad = [d for p, d, ok, ops, n in c18_state.history_predicates(inp['symbol'], random.Random(0), n_random=0) if not ok and p == inp['predicate']]
        return bool(bad), f'{inp["predicate"]} on {inp["symbol"]}: {bad[:3]}' if bad else f'{inp["predicate"]} holds for {inp["symbol"]}'
    if inp['predicate'] in ('query-charge-settable', 'matcher-charge-hydrogen-grid'):
        bad = [(p, d) for p, d, ok in field_grid_predicates() if not ok and p == inp['predicate']]
        return bool(bad), f'{inp["predicate"]}: failing cases {bad[:6]}' if bad else f'{inp["predicate"]} holds on the whole grid'
    if inp['predicate'].endswith('outside-table-rejected'):
        bad = [(p, d) for p, d, ok in outside_table_predicates() if not ok and p == inp['predicate'] and d.split(':got=')[0] == inp.get('detail')]
        return bool(bad), f'{inp["predicate"]}: {bad[:4]}' if bad else f'{inp["predicate"]} holds for {inp.get("detail")}'
    if inp['predicate'] == 'agrees-with-standard':
        from chython.periodictable import Element
        std = dict(iupac())
        c = next((c for c in Element.__subclasses__() if c.__name__ == inp['symbol']), None)
        z = c.atomic_number.fget(None) if c else None
        return std.get(z) != inp['symbol'], f'{inp["symbol"]} has Z={z}; standard says {std.get(z)}'
    bad = [(p, d) for p, d, ok in predicates(inp['symbol']) if not ok and p == inp['predicate']]
    return bool(bad), f'{inp["predicate"]} on {inp["symbol"]}: failing cases {bad}' if bad else f'{inp["predicate"]} holds for {inp["symbol"]}'
